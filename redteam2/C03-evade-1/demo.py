"""C03 (and C15): a stack-limited DFS that returns True has really explored everything.

History: a level-limited BFS expands the first levels, then a DFS with a small
stack limit is run on the same diagram. The DFS has to give up below the first
level, so it must return False as long as unexpanded nodes remain.
"""
import sys
from biobalm import SuccessionDiagram
from biobalm.trappist_core import trappist

RULES = """
A, A
B, A & B
C, B & C
D, C & D
E, D & E
"""

def key(s):
    return tuple(sorted(s.items()))

bad = 0
for bfs_levels, stack_limit in [(1, 1), (2, 1), (2, 2), (3, 1), (3, 2)]:
    sd = SuccessionDiagram.from_rules(RULES)
    assert not sd.expand_bfs(bfs_level_limit=bfs_levels)
    done = sd.expand_dfs(dfs_stack_limit=stack_limit)
    stubs = list(sd.stub_ids())
    truth = sorted(key(sd.node_data(0)["space"] | x) for x in trappist(sd.petri_net, problem="min"))
    got = sorted(key(sd.node_data(i)["space"]) for i in sd.minimal_trap_spaces())
    print(f"bfs levels={bfs_levels} dfs stack={stack_limit}: expand_dfs returned {done}; "
          f"unexpanded nodes left: {stubs}; minimal trap spaces {len(got)}/{len(truth)}")
    if done and (stubs or got != truth):
        print("  VIOLATION: DFS reported completion on an incomplete diagram")
        bad = 1
    # relaxed limits finish the job
    assert sd.expand_dfs()
    assert sorted(key(sd.node_data(i)["space"]) for i in sd.minimal_trap_spaces()) == truth
sys.exit(bad)
