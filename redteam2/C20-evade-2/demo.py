"""C20 (is_subgraph / is_isomorphic clause): is_subgraph must decide inclusion of the node
AND edge sets.  The docstring explicitly allows diagrams of different networks over the
same variables.

N1:  a <- b, b <- a            root {} -> {a=0,b=0}, {a=1,b=1}
N2:  a <- a | b, b <- a & b    root {} -> {a=1}, {b=0};  {a=1} -> {a=1,b=1}, {a=1,b=0};
                               {b=0} -> {a=1,b=0}, {a=0,b=0}

Every node space of the (root-expanded) N1 diagram occurs in the N2 diagram, but neither
of its two edges root->{00}, root->{11} is an edge of the N2 diagram.
"""
import sys
from biobalm import SuccessionDiagram

sd1 = SuccessionDiagram.from_rules("a, b\nb, a\n")
sd1.node_successors(sd1.root(), compute=True)      # only the root is expanded

sd2 = SuccessionDiagram.from_rules("a, a | b\nb, a & b\n")
assert sd2.expand_bfs()

# sanity: all nodes of sd1 occur in sd2, the edges do not
for i in sd1.node_ids():
    assert sd2.find_node(sd1.node_data(i)["space"]) is not None
root2 = sd2.root()
succ2 = set(sd2.node_successors(root2))
for s in sd1.node_successors(sd1.root()):
    assert sd2.find_node(sd1.node_data(s)["space"]) not in succ2

res = sd1.is_subgraph(sd2)
print("sd1.is_subgraph(sd2) =", res, "(expected False: edges root->00 and root->11 are not in sd2)")
sys.exit(1 if res else 0)
