"""
C08: candidates (with the default options: greedy + simulation minification) must cover every
attractor of the node.  The network object below declares its variables in an order that is
not the name order (a BooleanNetwork assembled through the API rather than parsed from text).

Exit 0: every attractor of the (unexpanded) root contains a candidate, all candidates are full
states.  Non-zero otherwise.
"""
import sys
from biodivine_aeon import BooleanNetwork, Attractors
from biobalm import SuccessionDiagram

RULES = {
    "x0": "(!x3 | x0)",
    "x1": "(x3 & x2)",
    "x2": "(x1 & !x0)",
    "x3": "(x0 | x4)",
    "x4": "((!x0 | x2) | !x1)",
}
ORDER = ["x2", "x1", "x0", "x4", "x3"]


def build(order):
    text = "\n".join(f"{v}, {RULES[v]}" for v in sorted(RULES))
    src = BooleanNetwork.from_bnet(text)
    bn = BooleanNetwork(variables=order)
    for r in src.regulations():
        bn.add_regulation(
            {
                "source": src.get_variable_name(r["source"]),
                "target": src.get_variable_name(r["target"]),
                "essential": r["essential"],
                "sign": r["sign"],
            }
        )
    for v in order:
        bn.set_update_function(v, RULES[v])
    return bn


bad = 0
for order in (sorted(RULES), ORDER):
    for simulation in (True, False):
        sd = SuccessionDiagram(build(order))
        root = sd.root()
        cands = sd.node_attractor_candidates(root, compute=True, simulation_minification=simulation)
        stg = sd.symbolic
        atts = Attractors.attractors(stg, stg.mk_subspace(sd.node_data(root)["space"]))
        for a in atts:
            ok = any(
                len(c) == sd.network.variable_count()
                and not stg.mk_subspace(c).intersect(a).is_empty()
                for c in cands
            )
            if not ok:
                bad += 1
                print(f"order={order} simulation={simulation}: attractor {a} has no candidate (candidates: {cands})")
print("violations:", bad)
sys.exit(1 if bad else 0)
