"""C11: single-driver queries must be consistent with the strict percolation of the network *as it is now*."""
from biodivine_aeon import AsynchronousGraph, BooleanNetwork

from biobalm.drivers import find_single_drivers
from biobalm.space_utils import percolate_space_strict

bn = BooleanNetwork.from_bnet(
    """
    A, A
    B, A
    C, B | C
    """
)


def expected(bn: BooleanNetwork, target: dict[str, int]) -> set[tuple[str, int]]:
    """Definition of a single driver, straight from the strict percolation."""
    g = AsynchronousGraph(bn)
    result: set[tuple[str, int]] = set()
    for var in bn.variable_names():
        fn = g.mk_update_function(var)
        if fn.is_true() or fn.is_false():
            continue
        for val in (0, 1):
            ldoi = percolate_space_strict(g, {var: val})
            if target.items() <= (ldoi.items() | {(var, val)}):
                result.add((var, val))
    return result


bad = 0
target = {"B": 0}
first = find_single_drivers(target, bn)
print("B := A    drivers of B=0:", sorted(first), "expected", sorted(expected(bn, target)))
if first != expected(bn, target):
    bad = 1

# The model is edited (B is now inhibited by A) and the query is repeated.
bn.set_update_function("B", "!A")
bn = bn  # same object, as in an interactive session
second = find_single_drivers(target, bn)
print("B := !A   drivers of B=0:", sorted(second), "expected", sorted(expected(bn, target)))
if second != expected(bn, target):
    bad = 1

raise SystemExit(bad)
