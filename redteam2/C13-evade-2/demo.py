"""
Candidate computation with a larger (but perfectly legal) simulation budget.

The network has a motif-avoidant attractor {000, 100, 010} in the root next to the
stable motif A=B=C=1, so the root keeps one candidate state that no simulation can
eliminate.  The simulation loop has to stop once `iterations * len(candidates)`
exceeds `minimum_simulation_budget * variable_count`.

Non-termination is detected with a budget on the number of simulation rounds: the
clean tree needs 8 rounds (1024 .. 131072 steps); the demo gives up after 14.
"""
import sys
import biobalm
from biobalm import SuccessionDiagram
import biobalm._sd_attractors.attractor_candidates as ac

RULES = """
A, (!A & !B) | C
B, (!A & !B) | C
C, A & B
"""

class Stalled(Exception):
    pass

rounds = []
original = ac.run_simulation_minification

def counting(*args, **kwargs):
    rounds.append(kwargs["max_iterations"])
    if len(rounds) > 14:
        raise Stalled()
    return original(*args, **kwargs)

ac.run_simulation_minification = counting

config = SuccessionDiagram.default_config()
config["minimum_simulation_budget"] = 30_000   # budget = 30_000 * 3 variables = 90_000 steps
sd = SuccessionDiagram.from_rules(RULES, config=config)
sd.expand_bfs()
try:
    cands = sd.node_attractor_candidates(sd.root(), compute=True)
except Stalled:
    print("simulation rounds:", rounds)
    print("NOT TERMINATING: the round length no longer grows, the budget test can never fire")
    sys.exit(1)
print("simulation rounds:", rounds)
print("candidates:", cands)
assert len(cands) == 1
sys.exit(0)
