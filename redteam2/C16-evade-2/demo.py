"""C16: reclaim_node_data() must be transparent: every later query gives the same answer as on
the untouched diagram (here: the node's NFVS, and the candidates that are computed from it)."""
import sys

from biobalm import SuccessionDiagram

RULES = """
A, !C
B, A
C, B
D, A & !E
E, D | B
"""


def history(reclaim: bool):
    config = SuccessionDiagram.default_config()
    # Tiny limits: the candidate search of the root gives up and the symbolic fallback is used.
    config["attractor_candidates_limit"] = 1
    config["retained_set_optimization_threshold"] = 1
    sd = SuccessionDiagram.from_rules(RULES, config=config)
    seeds = sd.node_attractor_seeds(sd.root(), compute=True, symbolic_fallback=True)
    assert len(seeds) == 1
    if reclaim:
        sd.reclaim_node_data()
    # later queries
    nfvs = sd.node_percolated_nfvs(sd.root(), compute=True)
    return list(nfvs), len(seeds)


untouched = history(reclaim=False)
reclaimed = history(reclaim=True)
print("untouched:", untouched)
print("reclaimed:", reclaimed)
sys.exit(0 if untouched == reclaimed else 1)
