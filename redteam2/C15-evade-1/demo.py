"""C15: an expansion that returns True has really completed its contract.

Target-directed expansion with a size limit must return False whenever a node
that is relevant for the target (intersects it and is not strictly inside it)
is still unexpanded.
"""
import sys
from biobalm import SuccessionDiagram
from biobalm.space_utils import intersect, is_subspace

RULES = """
A, A
B, B
C, (A & B) | C
D, C & D
E, !D & E
"""

target = {"A": 1, "B": 1, "C": 1, "D": 1, "E": 0}
bad = 0
for limit in [1, 2, 3, 5, 6, 8, 1000]:
    sd = SuccessionDiagram.from_rules(RULES)
    done = sd.expand_to_target(target, size_limit=limit)
    pending = []
    for n in sd.node_ids():
        space = sd.node_data(n)["space"]
        if intersect(space, target) is None:
            continue
        if is_subspace(space, target) and space != target:
            continue
        if not sd.node_data(n)["expanded"]:
            pending.append(n)
    print(f"size_limit={limit}: returned {done}, nodes={len(sd)}, relevant unexpanded nodes={pending}")
    if done and pending:
        print("  VIOLATION: expansion reported completion, but relevant nodes are unexpanded")
        bad = 1
    if not done and not pending:
        print("  VIOLATION: returned False although nothing is left to expand")
        bad = 1
    # Resuming without a limit must complete the contract.
    assert sd.expand_to_target(target)
sys.exit(bad)
