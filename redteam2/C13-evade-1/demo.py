"""
Attractor seeds of the root of a 7-variable network.

A, B, C, E form the well-known motif-avoidant example (stable motif A=B=C=E=1, and an
attractor with A,B in {00, 10, 01}, C=E=0 that avoids it); F and G follow A and B;
W can only change in states with A=B=1, C=E=0, which neither the attractor nor the
backward search from the stable motif ever reaches.  W therefore stays in the list of
unprocessed variables for ever, the size heuristic of `symbolic_attractor_test` declines
a forward step, no further variable can be saturated, and the forward steps have to be
forced (the situation of the `growth_forced` latch).

Non-termination is shown with a budget on executed lines inside
biobalm/_sd_attractors/attractor_symbolic.py (the clean tree needs about 3100 lines).
"""
import sys
from biobalm import SuccessionDiagram

RULES = """
A, (!A & !B) | C
B, (!A & !B) | C
E, A & B
C, E
F, A | (B & !G)
G, B | (A & !F)
W, (W & !(A & B & !C & !E)) | (!W & A & B & !C & !E)
"""

BUDGET = 300_000
executed = 0


class Stalled(Exception):
    pass


def tracer(frame, event, arg):
    if not frame.f_code.co_filename.endswith("attractor_symbolic.py"):
        return None

    def local(frame, event, arg):
        global executed
        if event == "line":
            executed += 1
            if executed > BUDGET:
                raise Stalled()
        return local

    return local


sd = SuccessionDiagram.from_rules(RULES)
sd.expand_bfs()
sys.settrace(tracer)
try:
    seeds = sd.node_attractor_seeds(sd.root(), compute=True)
except Stalled:
    sys.settrace(None)
    print(f"NOT TERMINATING: more than {BUDGET} lines executed in attractor_symbolic.py")
    sys.exit(1)
sys.settrace(None)
print("lines executed in attractor_symbolic.py:", executed)
print("seeds:", seeds)
assert len(seeds) == 2 and all(s["C"] == 0 and s["E"] == 0 for s in seeds)
sys.exit(0)
