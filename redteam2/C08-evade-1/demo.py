"""
C08: candidates must cover every attractor of a node that is not inside one of its
successors, for every value of `retained_set_optimization_threshold`.

Exit code 0: property holds for the inputs below.  Non-zero: an attractor of the
(expanded) root node has no candidate / an empty candidate list is returned although
the node has a motif-avoidant attractor.
"""
import sys
from biodivine_aeon import BooleanNetwork, Attractors
from biobalm import SuccessionDiagram

RULES = """
v3, !v3 & !v6 | v4
v6, !v3 & !v6 | v4
v4, v3 & v6
v0, (v1 | v0)
v2, ((!v3 & v4) & !v6)
v1, ((v0 & !v2) | !v5)
v5, ((v0 & !v2) | !v4)
"""


def true_attractors(sd, node):
    stg = sd.symbolic
    space = stg.mk_subspace(sd.node_data(node)["space"])
    kids = [stg.mk_subspace(sd.node_data(s)["space"]) for s in sd.node_successors(node)]
    return [a for a in Attractors.attractors(stg, space) if not any(a.is_subset(k) for k in kids)]


bad = 0
for threshold in (0, 1, 2, 1000):
    for simulation in (False, True):
        cfg = SuccessionDiagram.default_config()
        cfg["retained_set_optimization_threshold"] = threshold
        sd = SuccessionDiagram(BooleanNetwork.from_bnet(RULES), cfg)
        root = sd.root()
        sd.node_successors(root, compute=True)  # expand the root
        cands = sd.node_attractor_candidates(
            root, compute=True, greedy_asp_minification=True, simulation_minification=simulation
        )
        atts = true_attractors(sd, root)
        for a in atts:
            covered = any(
                len(c) == sd.network.variable_count()
                and not sd.symbolic.mk_subspace(c).intersect(a).is_empty()
                for c in cands
            )
            if not covered:
                bad += 1
                print(
                    f"threshold={threshold} simulation={simulation}: attractor {a} of the root "
                    f"(outside its successors) has no candidate; candidates = {cands}"
                )
print("violations:", bad)
sys.exit(1 if bad else 0)
