"""C02: in the fully expanded diagram every edge carries exactly the stable motifs that percolate to its child."""
import sys
from biobalm import SuccessionDiagram

# ---- brute-force reference (independent of biobalm) -------------------------
import itertools, re


def _parse(rules):
    fns, order = {}, []
    for line in rules.strip().splitlines():
        name, expr = line.split(",", 1)
        py = expr.replace("!", " not ").replace("&", " and ").replace("|", " or ")
        py = re.sub(r"\btrue\b", "True", re.sub(r"\bfalse\b", "False", py))
        fns[name.strip()] = compile(py.strip(), name, "eval")
        order.append(name.strip())
    return order, fns


class Net:
    def __init__(self, rules):
        self.vars, self.fns = _parse(rules)

    def f(self, var, state):
        return int(bool(eval(self.fns[var], {}, {k: bool(v) for k, v in state.items()})))

    def states(self, space):
        free = [v for v in self.vars if v not in space]
        for vals in itertools.product((0, 1), repeat=len(free)):
            yield {**space, **dict(zip(free, vals))}

    def is_trap(self, space):
        return all(self.f(v, s) == val for s in self.states(space) for v, val in space.items())

    def percolate(self, space):
        space, changed = dict(space), True
        while changed:
            changed = False
            for v in self.vars:
                if v not in space:
                    vals = {self.f(v, s) for s in self.states(space)}
                    if len(vals) == 1:
                        space[v], changed = vals.pop(), True
        return space

    def sources(self):
        return [v for v in self.vars if all(self.f(v, s) == s[v] for s in self.states({}))]


def fz(space):
    return frozenset(space.items())


def is_sub(x, y):
    return all(k in x and x[k] == v for k, v in y.items())


def reference_diagram(rules):
    """{node space: {child space: set of stable motifs}} of the full succession diagram, and the root."""
    net = Net(rules)
    spaces = [
        {v: p for v, p in zip(net.vars, pat) if p is not None}
        for pat in itertools.product((None, 0, 1), repeat=len(net.vars))
    ]
    traps = [s for s in spaces if net.is_trap(s)]
    root, sources = net.percolate({}), net.sources()
    nodes, todo = {}, [root]
    while todo:
        S = todo.pop()
        if fz(S) in nodes:
            continue
        inside = [t for t in traps if is_sub(t, S) and fz(t) != fz(S)]
        if fz(S) == fz(root):
            inside = [t for t in inside if all(v in t for v in sources)]
        maximal = [t for t in inside if not any(is_sub(t, u) and fz(u) != fz(t) for u in inside)]
        succ = {}
        for m in maximal:
            c = net.percolate(m)
            succ.setdefault(fz(c), set()).add(fz(m))
            todo.append(c)
        nodes[fz(S)] = succ
    minimal = {fz(t) for t in traps if not any(is_sub(u, t) and fz(u) != fz(t) for u in traps)}
    return fz(root), nodes, minimal


def check_faithful(sd, rules, full=False):
    """Discrepancies between sd and the reference diagram (C04; with full=True also C02)."""
    root, nodes, minimal = reference_diagram(rules)
    errs, seen = [], {}
    for i in sd.node_ids():
        k = fz(sd.node_data(i)["space"])
        if k in seen:
            errs.append(f"nodes {seen[k]} and {i} have the same space {dict(k)}")
        seen[k] = i
        if k not in nodes:
            errs.append(f"node {i} {dict(k)} is not a node of the full diagram")
            continue
        succ_ids = list(sd.dag.successors(i))
        if not sd.node_data(i)["expanded"]:
            if succ_ids:
                errs.append(f"unexpanded node {i} has successors")
            if full:
                errs.append(f"node {i} is not expanded")
            continue
        if sorted(succ_ids) != sorted(sd.node_successors(i)):
            errs.append(f"node {i}: node_successors differs from the graph")
        succ = {fz(sd.node_data(c)["space"]): c for c in succ_ids}
        if set(succ) != set(nodes[k]):
            errs.append(
                f"node {i} {dict(k)}: successors {sorted(map(dict, succ), key=str)} != expected {sorted(map(dict, nodes[k]), key=str)}"
            )
            continue
        for ck, c in succ.items():
            got = [fz(m) for m in sd.edge_all_stable_motifs(i, c)]
            if len(got) != len(set(got)) or set(got) != nodes[k][ck]:
                errs.append(f"edge {i}->{c}: motifs {list(map(dict, got))} != expected {list(map(dict, nodes[k][ck]))}")
            if fz(sd.edge_stable_motif(i, c)) not in nodes[k][ck]:
                errs.append(f"edge {i}->{c}: edge_stable_motif is not a stable motif of this edge")
    if full:
        if fz(sd.node_data(sd.root())["space"]) != root:
            errs.append("root is not the percolation of the whole state space")
        if set(seen) != set(nodes):
            errs.append(f"missing nodes: {[dict(x) for x in set(nodes) - set(seen)]}")
        got_min = {fz(sd.node_data(i)["space"]) for i in sd.minimal_trap_spaces()}
        if got_min != minimal:
            errs.append(f"minimal trap spaces {list(map(dict, got_min))} != expected {list(map(dict, minimal))}")
    return errs
# ------------------------------------------------------------------------------

# {A=1} and {B=1} are two different maximal trap spaces; both percolate to {A=1, B=1}: the edge root -> {A=1, B=1}
# carries two stable motifs.  C makes the diagram one level deeper (the same happens below {A=0, B=0}).
RULES = """A, A | B
B, A | B
C, (C & D) | (A & !C)
D, C | D
"""

failures = []
for expand in ("expand_bfs", "expand_dfs"):
    sd = SuccessionDiagram.from_rules(RULES)
    assert getattr(sd, expand)()
    failures += [f"{expand}: {e}" for e in check_faithful(sd, RULES, full=True)]

for f in failures:
    print("FAIL:", f)
sys.exit(1 if failures else 0)
