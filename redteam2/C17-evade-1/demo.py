"""C17: logically equivalent formulas must give the same source nodes and isomorphic diagrams."""
from biodivine_aeon import BooleanNetwork

from biobalm import SuccessionDiagram
from biobalm.interaction_graph_utils import source_nodes

A = "x, x\ny, y\nz, (x & y) | (z & !x)\nw, !z | w"
# the same network, two update functions written differently (x & x == x, y | y == y)
B = "x, x & x\ny, y | y\nz, (x & y) | (z & !x)\nw, !z | w"

bad = 0

sa = source_nodes(BooleanNetwork.from_bnet(A))
sb = source_nodes(BooleanNetwork.from_bnet(B))
print("source nodes:", sa, sb)
if sa != sb:
    bad = 1

sd_a = SuccessionDiagram.from_rules(A)
sd_b = SuccessionDiagram.from_rules(B)
sd_a.expand_scc()
sd_b.expand_scc()
print("expand_scc sizes:", len(sd_a), len(sd_b), "isomorphic:", sd_a.is_isomorphic(sd_b))
if not sd_a.is_isomorphic(sd_b):
    bad = 1

raise SystemExit(bad)
