import sys
import biobalm
from biobalm import SuccessionDiagram

RULES = """
A, D & ((!A & !B) | C)
B, D & ((!A & !B) | C)
C, D & A & B
D, D | (A & B & C)
X, Y
Y, X
"""

def cached(sd, n):
    out = {}
    for name, fn in (("candidates", sd.node_attractor_candidates), ("seeds", sd.node_attractor_seeds)):
        try:
            out[name] = sorted(tuple(sorted(x.items())) for x in fn(n, compute=False))
        except KeyError:
            out[name] = None
    return out

sd = SuccessionDiagram.from_rules(RULES)
assert sd.expand_scc()
bad = 0
for n in sd.node_ids():
    data = sd.node_data(n)
    rep = cached(sd, n)
    # what a recomputation for the node's current successors gives
    data["attractor_candidates"] = None
    data["attractor_seeds"] = None
    data["attractor_sets"] = None
    fresh_c = sorted(tuple(sorted(x.items())) for x in sd.node_attractor_candidates(n, compute=True))
    fresh_s = sorted(tuple(sorted(x.items())) for x in sd.node_attractor_seeds(n, compute=True))
    succ = sd.node_successors(n) if data["expanded"] else []
    if rep["candidates"] is not None and rep["candidates"] != fresh_c:
        # stale only matters if the reported states are not all outside the successors
        inside = [c for c in rep["candidates"]
                  if any(all(dict(c)[k] == v for k, v in sd.node_data(s)["space"].items()) for s in succ)]
        print(f"node {n} space={data['space']} expanded={data['expanded']} successors={succ}")
        print(f"   cached candidates ({len(rep['candidates'])}) != recomputed ({len(fresh_c)}); {len(inside)} cached candidate(s) lie inside a successor")
        bad += 1
    if rep["seeds"] is not None and rep["seeds"] != fresh_s:
        print(f"node {n}: cached seeds {rep['seeds']} != recomputed {fresh_s}")
        bad += 1
print("stale entries:", bad)
sys.exit(1 if bad else 0)
