"""C11: a single-driver query must be consistent with the LDOI table it is given."""
from biodivine_aeon import BooleanNetwork

from biobalm.drivers import find_single_drivers, find_single_node_LDOIs

bn = BooleanNetwork.from_bnet(
    """
    S, S
    A, S | B
    B, A
    C, A | D
    D, C
    """
)

all_ldois = find_single_node_LDOIs(bn)
target = {"A": 1, "B": 1}

bad = 0
# The documented way to restrict the candidates: supply only the LDOIs "to be considered".
for forbidden in [set(), {"S"}, {"S", "A"}, {"S", "A", "B"}, {"S", "A", "B", "C", "D"}]:
    considered = {k: v for k, v in all_ldois.items() if k[0] not in forbidden}
    drivers = find_single_drivers(target, bn, considered)
    expected = {
        fix for fix, ldoi in considered.items() if target.items() <= (ldoi.items() | {fix})
    }
    print(sorted(forbidden), "->", sorted(drivers), "expected", sorted(expected))
    if drivers != expected or any(d[0] in forbidden for d in drivers):
        bad = 1

raise SystemExit(bad)
