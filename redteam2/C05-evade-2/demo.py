"""
C05, last sentence: if the network has no motif-avoidant attractor, every attractor is reported
exactly once however many nodes were skipped.  The property quantifies over configurations:
here the candidate limits are small, so that the NFVS method fails in the skip node and
`node_attractor_seeds(..., symbolic_fallback=True)` answers with the symbolic fallback.

Network: 20 independent oscillators x00..x19 (x, !x), a latch
    e, e | (x00 & !x01 & x02 & !x03 & ... & x18 & !x19)
and a switch (p, q).  Attractors: the minimal trap spaces {e=1, p=q=0} and {e=1, p=q=1}; no
motif-avoidant attractor.  The root (turned into a skip node) has two attractor candidates
(e=0, p=q=0/1), which is >= the configured limit of 1: the candidate search raises and the
fallback is used.  A correct fallback finds nothing in the root outside of its two successors.

Exit 0 = property holds on this input, 1 = broken.
"""
import sys
from biodivine_aeon import Attractors
from biobalm import SuccessionDiagram

K = 20
xs = [f"x{i:02d}" for i in range(K)]
latch = " & ".join(x if i % 2 == 0 else "!" + x for i, x in enumerate(xs))
rules = "\n".join(f"{x}, !{x}" for x in xs) + f"\ne, e | ({latch})\np, q\nq, p\n"

config = SuccessionDiagram.default_config()
config["attractor_candidates_limit"] = 1
config["retained_set_optimization_threshold"] = 1

sd = SuccessionDiagram.from_rules(rules, config=config)
assert sd.skip_remaining() == 1  # the root becomes a skip node with two successors

# without the fallback the root's candidate search exceeds the limit
try:
    sd.node_attractor_seeds(sd.root(), compute=True)
    raise AssertionError("expected the candidate limit to be exceeded")
except RuntimeError:
    pass

attractors = [a.vertices() for a in Attractors.attractors(sd.symbolic)]
counts = [0] * len(attractors)
problems = []
for n in sd.node_ids():
    data = sd.node_data(n)
    seeds = sd.node_attractor_seeds(n, compute=True, symbolic_fallback=True)
    shown = dict(sorted((k, v) for k, v in data["space"].items()))
    print(n, "skip node" if data["skipped"] else "node", shown, "->", len(seeds), "seed(s)")
    for seed in seeds:
        v = sd.symbolic.mk_subspace(seed).vertices()
        hit = [i for i, a in enumerate(attractors) if not a.intersect(v).is_empty()]
        if len(seed) != sd.network.variable_count() or len(hit) != 1:
            problems.append(f"node {n}: a seed lies in no attractor")
        else:
            counts[hit[0]] += 1
for i, c in enumerate(counts):
    if c != 1:
        problems.append(f"attractor {i} {attractors[i]} is reported {c} times")
print("reports per attractor:", counts)
for p in problems:
    print("PROBLEM:", p)
sys.exit(1 if problems else 0)
