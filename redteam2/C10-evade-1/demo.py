"""C10: percolating a network to a trap space with remove_constants=True yields a network over exactly the
variables left free, whose update functions coincide with the original ones on the subspace.
Here the trap space is the whole state space ({}), and one update function is constant without being the
literal `true`/`false`. The reference percolation is computed by brute force."""
import itertools, sys
from biodivine_aeon import BooleanNetwork, BddVariableSet
from biobalm.space_utils import percolate_network

names = ["x", "y", "z"]
# .aeon model; `-??` declares a regulation that need not be essential, so the graph is valid for AEON as it is
bn = BooleanNetwork.from_aeon("y -?? x\ny -> y\nz -> y\nx -| z\nz -> z\n$x: y & !y\n$y: y | z\n$z: !x & z\n")
ctx = BddVariableSet(names)

def value(net, var, state):
    f = net.get_update_function(net.find_variable(var))
    return int(ctx.eval_expression(f.as_expression()).r_restrict(state).is_true())

def states(space):
    free = [n for n in names if n not in space]
    for vals in itertools.product([0, 1], repeat=len(free)):
        st = dict(space); st.update(zip(free, vals))
        yield st

def reference_percolation(space):
    space = dict(space)
    changed = True
    while changed:
        changed = False
        for v in names:
            if v not in space:
                vals = {value(bn, v, st) for st in states(space)}
                if len(vals) == 1:
                    space[v] = vals.pop(); changed = True
    return space

ok = True
space = reference_percolation({})
free = [n for n in names if n not in space]
print("percolated subspace", space, "free variables", free)
for rc in (False, True):
    res = percolate_network(bn, {}, remove_constants=rc)
    print(f"remove_constants={rc}:", {n: str(res.get_update_function(res.find_variable(n))) for n in res.variable_names()})
    expected_vars = free if rc else names
    if sorted(res.variable_names()) != sorted(expected_vars):
        print("   network is over", res.variable_names(), "expected", expected_vars); ok = False
    for st in states(space):
        for v in res.variable_names():
            if value(bn, v, st) != value(res, v, st):
                print("   MISMATCH in state", st, "variable", v); ok = False
sys.exit(0 if ok else 1)
