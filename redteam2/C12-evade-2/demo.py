"""
C12 (order contract): node_attractor_sets(id)[i] is the complete attractor that contains
node_attractor_seeds(id)[i], whether the sets are requested before or after the seeds.

Exit 0 if that holds for both request orders, non-zero otherwise.
"""
import sys
from biodivine_aeon import BooleanNetwork, Attractors
from biobalm import SuccessionDiagram

RULES = """
A, !A & !B | C
B, !A & !B | C
C, A & B
X, !Z | (X & Y & Z)
Y, !X | (X & Y & Z)
Z, !Y | (X & Y & Z)
"""


def mismatches(sd, node, seeds, sets):
    stg = sd.symbolic
    truth = Attractors.attractors(stg, stg.mk_subspace(sd.node_data(node)["space"]))
    if len(seeds) != len(sets):
        print("  different lengths", len(seeds), len(sets))
        return 1
    bad = 0
    for i, (seed, att) in enumerate(zip(seeds, sets)):
        seed_set = stg.mk_subspace(seed).vertices()
        expected = [t.vertices() for t in truth if seed_set.is_subset(t.vertices())]
        if len(expected) != 1 or expected[0] != att:
            bad += 1
            print(f"  index {i}: seed {seed} is paired with {att}, which is not the attractor of this seed")
    return bad


total = 0
for first in ("seeds", "sets"):
    sd = SuccessionDiagram(BooleanNetwork.from_bnet(RULES))
    root = sd.root()
    assert sd.skip_to_minimal(root)  # root keeps its three motif-avoidant attractors
    print(f"{first} requested first:")
    if first == "seeds":
        seeds = sd.node_attractor_seeds(root, compute=True)
        sets = sd.node_attractor_sets(root, compute=True)
    else:
        sets = sd.node_attractor_sets(root, compute=True)
        seeds = sd.node_attractor_seeds(root, compute=True)
    total += mismatches(sd, root, seeds, sets)
print("mismatches:", total)
sys.exit(1 if total else 0)
