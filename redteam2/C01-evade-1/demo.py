"""
C01: after a complete expansion with default settings (here: build(), i.e. block expansion,
and expand_bfs()), the seeds of the expanded nodes correspond one-to-one to the attractors
of the network; in particular every seed is a state of an attractor.

Network: 20 independent oscillators x00..x19 (x, !x) and a latch
    e, e | (x00 & !x01 & x02 & !x03 & ... & x18 & !x19)
The only attractor is the minimal trap space {e=1} (the oscillators keep running).  Every state
with e=0 is transient, but a random walk that updates all variables once per sweep sets the
latch only if the ten even oscillators are updated before `e` and the ten odd ones after it
(probability 10!*10!/21! ~ 2.6e-7 per sweep), so the candidate (e=0, x=0) of the root survives
the simulation filter and has to be refuted by the symbolic reachability test: it reaches the
child motif {e=1}.

Exit 0 = property holds on this input, 1 = broken.
"""
import sys
from biodivine_aeon import Attractors
from biobalm import SuccessionDiagram

K = 20
xs = [f"x{i:02d}" for i in range(K)]
latch = " & ".join(x if i % 2 == 0 else "!" + x for i, x in enumerate(xs))
rules = "\n".join(f"{x}, !{x}" for x in xs) + f"\ne, e | ({latch})\n"


def check(sd: SuccessionDiagram, label: str) -> list[str]:
    attractors = [a.vertices() for a in Attractors.attractors(sd.symbolic)]
    counts = [0] * len(attractors)
    problems: list[str] = []
    for n, seeds in sorted(sd.expanded_attractor_seeds().items()):
        for seed in seeds:
            v = sd.symbolic.mk_subspace(seed).vertices()
            hit = [i for i, a in enumerate(attractors) if not a.intersect(v).is_empty()]
            if len(seed) != sd.network.variable_count() or len(hit) != 1:
                ones = sorted(k for k, x in seed.items() if x == 1)
                problems.append(f"{label}: node {n}: seed (ones: {ones}) lies in no attractor")
            else:
                counts[hit[0]] += 1
    for i, c in enumerate(counts):
        if c != 1:
            problems.append(f"{label}: attractor {i} {attractors[i]} has {c} seeds")
    print(f"{label}: {len(sd)} nodes, {len(attractors)} attractor(s), seeds per attractor {counts}")
    return problems


problems: list[str] = []

sd = SuccessionDiagram.from_rules(rules)
sd.build()  # block expansion + seeds of every expanded node
problems += check(sd, "build()")

sd = SuccessionDiagram.from_rules(rules)
assert sd.expand_bfs() is True
problems += check(sd, "expand_bfs()")

for p in problems:
    print("PROBLEM:", p)
sys.exit(1 if problems else 0)
