"""
C06 demo: succession control on a diagram that was partially expanded beforehand
(a BFS expansion that was stopped after the first level).

Exit 0 = every intervention reported as successful was validated by brute force,
exit 1 = some reported intervention does not force the network into the target.

Run as: cd <tree> && PYTHONPATH=<tree> /venv/bin/python demo.py
"""
import sys

from biodivine_aeon import AsynchronousGraph, Attractors, BooleanNetwork, Reachability

import biobalm
from biobalm.control import succession_control
from biobalm.space_utils import percolate_space

# three independent bistable switches
RULES = {"x1": "x2", "x2": "x1", "y1": "y2", "y2": "y1", "z1": "z2", "z2": "z1"}
TARGET = {"x1": 1, "x2": 1, "y1": 1, "y2": 1, "z1": 1, "z2": 1}


def bnet(rules):
    return "\n".join(f"{k}, {v}" for k, v in rules.items())


def check(rules, target, interventions):
    """Brute-force validation of the interventions (symbolic state-space exploration)."""
    problems = []
    base = AsynchronousGraph(BooleanNetwork.from_bnet(bnet(rules)))
    for iv in interventions:
        if not iv.successful:
            continue
        if len(iv.control) != len(iv.succession):
            problems.append(("control/succession length mismatch", iv))
            continue
        fixed = {}
        for i, (motif, overrides) in enumerate(zip(iv.succession, iv.control)):
            prev = percolate_space(base, fixed)  # the previous trap space
            for ov in overrides:
                r2 = dict(rules)
                for k, v in ov.items():
                    r2[k] = "true" if v else "false"
                g2 = AsynchronousGraph(BooleanNetwork.from_bnet(bnet(r2)))
                start = {k: v for k, v in prev.items() if k not in ov} | ov
                fwd = Reachability.reach_fwd(g2, g2.mk_subspace(start))
                goal = g2.mk_subspace(motif)
                if any(not a.is_subset(goal) for a in Attractors.attractors(g2, fwd)):
                    problems.append(("override does not force the motif", iv.succession, i, ov))
            fixed = fixed | motif
        # the final trap space: everything that can happen in it in the long run
        # (here: every attractor = every minimal trap space) must be inside the target
        final = percolate_space(base, fixed)
        inside = base.mk_subspace(final)
        goal = base.mk_subspace(target)
        for a in Attractors.attractors(base, inside):
            if not a.is_subset(goal):
                problems.append(("final trap space contains an attractor outside the target", iv.succession, final))
                break
    return problems


def main():
    bad = []
    # (1) fresh diagram
    sd = biobalm.SuccessionDiagram.from_rules(bnet(RULES))
    fresh = succession_control(sd, TARGET)
    bad += check(RULES, TARGET, fresh)
    # (2) the same network; somebody looked at the first level of the diagram before
    sd = biobalm.SuccessionDiagram.from_rules(bnet(RULES))
    sd.expand_bfs(bfs_level_limit=1)
    expanded = succession_control(sd, TARGET)
    bad += check(RULES, TARGET, expanded)
    print("fresh diagram   :", [iv.succession for iv in fresh])
    print("pre-expanded    :", [iv.succession for iv in expanded])
    for b in bad:
        print("UNSOUND:", b)
    return 1 if bad else 0


if __name__ == "__main__":
    sys.exit(main())
