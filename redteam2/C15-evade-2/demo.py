"""C15: a size-limited expansion returns False only when unexpanded nodes remain, and repeating an
expansion gives the same result as a run that was never interrupted."""
import sys
from biobalm import SuccessionDiagram

RULES = """
A, A
B, A & B
C, B & C
D, C & D
E, D & E
"""

bad = 0

# (1) A complete diagram: any further size-limited BFS has nothing to do and must report completion.
sd = SuccessionDiagram.from_rules(RULES)
assert sd.expand_bfs()
n = len(sd)
for limit in [1, n // 2, n, n + 1]:
    r = sd.expand_bfs(size_limit=limit)
    stubs = list(sd.stub_ids())
    print(f"complete diagram ({n} nodes), expand_bfs(size_limit={limit}) -> {r}, unexpanded nodes: {stubs}")
    if not r and not stubs:
        print("  VIOLATION: returned False although no unexpanded node remains")
        bad = 1

# (2) Interrupted and resumed: the run that finishes the diagram must say so.
sd = SuccessionDiagram.from_rules(RULES)
results = []
limit = 2
while True:
    r = sd.expand_bfs(size_limit=limit)
    stubs = list(sd.stub_ids())
    results.append((limit, r, len(stubs)))
    if not r and not stubs:
        print(f"resumed run with size_limit={limit}: returned False with a fully expanded diagram")
        bad = 1
        break
    if r:
        break
    limit += 2
print("history of (size_limit, result, #unexpanded):", results)
sys.exit(bad)
