"""
C07 demo: the override sets reported for every step are compared with a brute-force
enumeration (all subsets of the allowed variables up to the size bound, all valuations
for strategy "all"; a set of variables is reported iff some valuation of it percolates to
the motif and no strict subset of it has such a valuation).

Exit 0 = reported sets == brute force, exit 1 = something is missing / superfluous.
Run as: cd <tree> && PYTHONPATH=<tree> /venv/bin/python demo.py
"""
import sys
from itertools import combinations, product

from biodivine_aeon import AsynchronousGraph, BooleanNetwork

import biobalm
from biobalm.control import succession_control
from biobalm.space_utils import percolate_space

# The motif {x,y = 1} can be forced from outside by a = 1, b = 0 and by a = 0, b = 1
# (x is switched on by a XOR b and then sustained by y); a and b are bistable switches of their own.
RULES = {"a": "a2", "a2": "a", "b": "b2", "b2": "b", "x": "(a & !b) | (!a & b) | y", "y": "x"}
TARGET = {"x": 1, "y": 1}
STRATEGY = "all"
BOUND = None
FORBIDDEN = []


def bnet(rules):
    return "\n".join(f"{k}, {v}" for k, v in rules.items())


def brute_force(graph, motif, fixed, strategy, bound, forbidden):
    inner = {k: v for k, v in motif.items() if k not in fixed}
    if strategy == "internal":
        pool = sorted(set(inner) - forbidden)
    else:
        pool = sorted(set(graph.network_variable_names()) - forbidden)
    if bound is None:
        bound = len(inner)
    found = []  # list of (frozenset of variables, dict)
    for size in range(bound + 1):
        for variables in combinations(pool, size):
            if any(keys < frozenset(variables) for keys, _ in found):
                continue
            if strategy == "internal":
                valuations = [tuple(inner[k] for k in variables)]
            else:
                valuations = list(product([0, 1], repeat=size))
            for vals in valuations:
                d = dict(zip(variables, vals))
                if motif.items() <= percolate_space(graph, d | fixed).items():
                    found.append((frozenset(variables), d))
    return {frozenset(d.items()) for _, d in found}


def main():
    graph = AsynchronousGraph(BooleanNetwork.from_bnet(bnet(RULES)))
    sd = biobalm.SuccessionDiagram.from_rules(bnet(RULES))
    interventions = succession_control(
        sd,
        TARGET,
        strategy=STRATEGY,
        max_drivers_per_succession_node=BOUND,
        forbidden_drivers=set(FORBIDDEN),
        successful_only=False,
    )
    rc = 0
    if not interventions:
        print("no intervention at all")
        rc = 1
    for iv in interventions:
        fixed = {}
        for motif, overrides in zip(iv.succession, iv.control):
            fixed_now = percolate_space(graph, fixed) if fixed else {}
            expected = brute_force(graph, motif, fixed_now, STRATEGY, BOUND, set(FORBIDDEN))
            reported = {frozenset(d.items()) for d in overrides}
            if expected != reported:
                rc = 1
                print("step", motif)
                print("   missing    :", sorted(sorted(x) for x in expected - reported))
                print("   superfluous:", sorted(sorted(x) for x in reported - expected))
            fixed = fixed | motif
        if iv.successful != all(len(c) > 0 for c in iv.control):
            rc = 1
            print("successful flag wrong for", iv.succession)
    print("OK" if rc == 0 else "MISMATCH")
    return rc


if __name__ == "__main__":
    sys.exit(main())
