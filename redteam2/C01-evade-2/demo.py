"""
C01: after build() (complete block expansion with default settings + seeds of every expanded
node), the seeds correspond one-to-one to the attractors of the network.

Network: two independent components - the motif-avoidant example of the test suite (A, B, C:
one fixed point 111 and one motif-avoidant oscillation with C=0) and a bistable switch (P, Q).
Four attractors: {111, oscillation} x {P=Q=0, P=Q=1}.

Exit 0 = property holds on this input, 1 = broken.
"""
import sys
from biodivine_aeon import Attractors
from biobalm import SuccessionDiagram

sd = SuccessionDiagram.from_rules(
    """
A, !A & !B | C
B, !A & !B | C
C, A & B
P, Q
Q, P
"""
)
sd.build()

attractors = [a.vertices() for a in Attractors.attractors(sd.symbolic)]
counts = [0] * len(attractors)
problems = []
for n, seeds in sorted(sd.expanded_attractor_seeds().items()):
    space = sd.node_data(n)["space"]
    for seed in seeds:
        v = sd.symbolic.mk_subspace(seed).vertices()
        hit = [i for i, a in enumerate(attractors) if not a.intersect(v).is_empty()]
        if len(seed) != sd.network.variable_count() or len(hit) != 1:
            problems.append(f"node {n}: seed {seed} lies in no attractor")
        elif not attractors[hit[0]].is_subset(sd.symbolic.mk_subspace(space).vertices()):
            problems.append(f"node {n}: attractor of seed {seed} is not inside the node")
        else:
            counts[hit[0]] += 1
for i, c in enumerate(counts):
    if c != 1:
        problems.append(f"attractor {i} {attractors[i]} has {c} seeds")

print("nodes (id, expanded, space):")
for n in sd.node_ids():
    print("  ", n, sd.node_data(n)["expanded"], dict(sorted(sd.node_data(n)["space"].items())))
print(sd.summary())
print("seeds per attractor:", counts)
for p in problems:
    print("PROBLEM:", p)
sys.exit(1 if problems else 0)
