"""C16: a pickle round-trip must preserve the known attractors of every node."""
import pickle
import sys

from biobalm import SuccessionDiagram

RULES = """
A, B
B, A & C
C, !A | B
X, !Y
Y, X
"""

sd = SuccessionDiagram.from_rules(RULES)
sd.expand_bfs()
before = {}
for i in sd.expanded_ids():
    before[i] = [s.cardinality() for s in sd.node_attractor_sets(i, compute=True)]

sd2 = pickle.loads(pickle.dumps(sd))

ok = True
for i in sd.expanded_ids():
    # Known on the untouched diagram (no computation allowed):
    untouched = [s.cardinality() for s in sd.node_attractor_sets(i)]
    assert untouched == before[i]
    try:
        restored = [s.cardinality() for s in sd2.node_attractor_sets(i)]
    except KeyError as e:
        print(f"node {i}: attractor sets known before pickling, lost afterwards: {e}")
        ok = False
        continue
    if restored != untouched:
        print(f"node {i}: attractor sets differ: {untouched} vs {restored}")
        ok = False

# the raw node data must agree as well
for i in sd.node_ids():
    a, b = sd.node_data(i), sd2.node_data(i)
    if (a["attractor_sets"] is None) != (b["attractor_sets"] is None):
        print(f"node {i}: attractor_sets presence differs after the round-trip")
        ok = False

sys.exit(0 if ok else 1)
