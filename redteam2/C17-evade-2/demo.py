"""C17: logically equivalent formulas must give the same source nodes."""
from biodivine_aeon import BooleanNetwork

from biobalm.interaction_graph_utils import source_nodes

# Three ways to write the same network: b keeps its value, c copies b, d oscillates with c.
PRESENTATIONS = [
    "b, b\nc, b\nd, !d & c",
    "b, (b & c) | (b & !c)\nc, b\nd, !d & c",
    "b, b | (b & d)\nc, b\nd, !d & c",
]

results = []
for rules in PRESENTATIONS:
    bn = BooleanNetwork.from_bnet(rules)
    results.append(source_nodes(bn))
    print(repr(rules.split("\n")[0]), "->", results[-1])

raise SystemExit(0 if all(r == ["b"] for r in results) else 1)
