"""C09: an avoided subspace that contradicts the enclosing subspace excludes nothing.
trappist(problem="min", ensure_subspace={"a": 1}, avoid_subspaces=[{"a": 0}]) must return the minimal
trap spaces inside a=1. Reference by brute force over all 3^n subspaces."""
import itertools, sys
from biodivine_aeon import BooleanNetwork
from biobalm.trappist_core import trappist

bn = BooleanNetwork.from_bnet("""targets,factors
a, a
b, a & b | c
c, b | c
""")
names = ["a", "b", "c"]
F = {
    "a": lambda s: s["a"],
    "b": lambda s: (s["a"] & s["b"]) | s["c"],
    "c": lambda s: s["b"] | s["c"],
}
def is_trap(space):
    free = [n for n in names if n not in space]
    for vals in itertools.product([0, 1], repeat=len(free)):
        st = dict(space); st.update(zip(free, vals))
        if any(F[n](st) != v for n, v in space.items()):
            return False
    return True
def inside(s, t):  # states(s) subset of states(t)
    return all(k in s and s[k] == v for k, v in t.items())
all_spaces = [
    {n: v for n, v in zip(names, vals) if v is not None}
    for vals in itertools.product([None, 0, 1], repeat=len(names))
]
key = lambda s: sorted(s.items())

def reference(ensure, avoid):
    cand = [s for s in all_spaces if is_trap(s) and inside(s, ensure) and not any(inside(s, a) for a in avoid)]
    return sorted([s for s in cand if not any(t != s and inside(t, s) for t in cand)], key=key)

ok = True
for ensure, avoid in [({"a": 1}, [{"a": 0}]), ({"a": 1}, [{"a": 1}]), ({"a": 1, "c": 1}, [{"c": 0}, {"b": 0}])]:
    expected = reference(ensure, avoid)
    got = sorted(trappist(bn, problem="min", ensure_subspace=ensure, avoid_subspaces=avoid), key=key)
    print("ensure", ensure, "avoid", avoid, "\n  expected", expected, "\n  got     ", got)
    ok = ok and got == expected
sys.exit(0 if ok else 1)
