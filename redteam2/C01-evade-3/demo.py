"""
C01: after a complete attractor-seed expansion (expand_attractor_seeds() returns True) the seeds
of the expanded nodes correspond one-to-one to the attractors: every attractor is represented
by exactly one seed in the whole diagram.

Network: the motif-avoidant example of the test suite (A, B, C) and two independent switches
(P, Q) and (R, S): 8 attractors, 4 of them motif-avoidant (the A/B/C oscillation for every
combination of the switches).

Exit 0 = property holds on this input, 1 = broken.
"""
import sys
from biodivine_aeon import Attractors
from biobalm import SuccessionDiagram

sd = SuccessionDiagram.from_rules(
    """
A, !A & !B | C
B, !A & !B | C
C, A & B
P, Q
Q, P
R, S
S, R
"""
)
assert sd.expand_attractor_seeds() is True

attractors = [a.vertices() for a in Attractors.attractors(sd.symbolic)]
counts = [0] * len(attractors)
where: list[list[int]] = [[] for _ in attractors]
problems = []
for n, seeds in sorted(sd.expanded_attractor_seeds().items()):
    for seed in seeds:
        v = sd.symbolic.mk_subspace(seed).vertices()
        hit = [i for i, a in enumerate(attractors) if not a.intersect(v).is_empty()]
        if len(seed) != sd.network.variable_count() or len(hit) != 1:
            problems.append(f"node {n}: seed {seed} lies in no attractor")
        else:
            counts[hit[0]] += 1
            where[hit[0]].append(n)
for i, c in enumerate(counts):
    if c != 1:
        spaces = [dict(sorted(sd.node_data(n)["space"].items())) for n in where[i]]
        problems.append(f"attractor {i} {attractors[i]} has {c} seeds, in nodes {where[i]}: {spaces}")
print("nodes:", len(sd), " skip nodes:", [n for n in sd.node_ids() if sd.node_data(n)["skipped"]])
print("seeds per attractor:", counts)
for p in problems:
    print("PROBLEM:", p)
sys.exit(1 if problems else 0)
