"""C20 (depth clause): a node's depth always equals the length of the LONGEST path from the
root to it, and depth() is the maximum node depth -- for every history, which includes
saving and re-loading the diagram.

In the network below the fixed point a=b=c=1 is reachable from the root directly via the
trap space {a,b,c = 1} ... and also through longer chains, so several nodes have paths of
different lengths from the root.
"""
import pickle
import sys

import networkx as nx
from biobalm import SuccessionDiagram

RULES = """
a, a | (b & c)
b, b | (a & c)
c, c | (a & b)
d, d | a
e, e | (d & b)
"""


def longest_paths(sd):
    order = list(nx.topological_sort(sd.dag))
    best = {n: 0 for n in order}
    for n in order:
        for s in sd.dag.successors(n):
            best[s] = max(best[s], best[n] + 1)
    return best


def check(sd, label):
    best = longest_paths(sd)
    bad = {n: (sd.node_data(n)["depth"], best[n]) for n in sd.node_ids() if sd.node_data(n)["depth"] != best[n]}
    ok = not bad and sd.depth() == max(best.values())
    print(f"{label}: depth()={sd.depth()} longest path={max(best.values())} wrong nodes (id: (depth, longest))={bad}")
    return ok


sd = SuccessionDiagram.from_rules(RULES)
assert sd.expand_bfs()
ok = check(sd, "built   ")
multi = [n for n in sd.node_ids() if sd.dag.in_degree(n) > 1]
assert multi, "demo needs nodes with several parents"

sd2 = pickle.loads(pickle.dumps(sd))
ok = check(sd2, "reloaded") and ok
ok = ok and [sd.node_data(n)["depth"] for n in sd.node_ids()] == [sd2.node_data(n)["depth"] for n in sd2.node_ids()]
ok = ok and sd.summary() == sd2.summary()
sys.exit(0 if ok else 1)
