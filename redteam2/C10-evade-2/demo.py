"""C10: SuccessionDiagram.node_percolated_petri_net(n) is an encoding over exactly the variables that the space of
node n leaves free, and in every state of that space a transition moving a free variable up/down is enabled exactly
when its update function disagrees with the current value in that direction -- whatever was computed before.
The nets of all nodes are requested twice: children first, then parents."""
import itertools, sys
from biodivine_aeon import BooleanNetwork, BddVariableSet
from biobalm.succession_diagram import SuccessionDiagram
from biobalm.petri_net_translation import extract_variable_names

bn = BooleanNetwork.from_bnet("""targets,factors
a, a
b, a | b
c, !c & (a | d)
d, b & d | c
""")
names = bn.variable_names()
ctx = BddVariableSet(names)

def value(var, state):
    f = bn.get_update_function(bn.find_variable(var))
    return int(ctx.eval_expression(f.as_expression()).r_restrict(state).is_true())

def check(pn, space, label):
    free = [n for n in names if n not in space]
    ok = True
    if extract_variable_names(pn) != sorted(free):
        print(f"  {label}: net is over {extract_variable_names(pn)}, expected {sorted(free)}")
        return False
    for vals in itertools.product([0, 1], repeat=len(free)):
        state = dict(space); state.update(zip(free, vals))
        marked = {f"b{state[n]}_{n}" for n in free}
        enabled = set()
        for t, data in pn.nodes(data=True):
            if data["kind"] == "transition" and all(p in marked for p in pn.predecessors(t)):
                enabled.add((data["change"], data["direction"]))
        expected = set()
        for n in free:
            if value(n, state) != state[n]:
                expected.add((n, "up" if state[n] == 0 else "down"))
        if enabled != expected:
            print(f"  {label}: state {state}: enabled {sorted(enabled)}, expected {sorted(expected)}")
            ok = False
    return ok

sd = SuccessionDiagram(bn)
sd.expand_bfs()
ids = sorted(sd.node_ids())
ok = True
for order in (list(reversed(ids)), ids):
    sd.reclaim_node_data()   # public API: drops all cached nets
    for n in order:
        space = sd.node_data(n)["space"]
        pn = sd.node_percolated_petri_net(n, compute=True)
        ok = check(pn, space, f"node {n} {space}") and ok
print("all nets correct" if ok else "WRONG NETS")
sys.exit(0 if ok else 1)
