"""
skip_to_minimal() on a diagram that runs with `debug` switched on.

Network: A <-> B (positive feedback), two attractors 00 and 11, both minimal trap spaces.
The root is turned into a skip node: afterwards its successors are the two minimal trap
spaces, so the root itself has no attractor of its own (nothing outside its successors).
Whatever the root reports without recomputation must agree with that, and the diagram
as a whole must report every attractor exactly once.
"""
import contextlib
import io
import sys

from biobalm import SuccessionDiagram

RULES = """
A, B
B, A
"""

config = SuccessionDiagram.default_config()
config["debug"] = True

log = io.StringIO()
with contextlib.redirect_stdout(log):
    sd = SuccessionDiagram.from_rules(RULES, config=config)
    root = sd.root()
    assert sd.skip_to_minimal(root)

    cached = {}
    for name, getter in (
        ("candidates", sd.node_attractor_candidates),
        ("seeds", sd.node_attractor_seeds),
    ):
        try:
            cached[name] = getter(root, compute=False)
        except KeyError:
            cached[name] = None
    all_seeds = sd.expanded_attractor_seeds()

successors = sd.node_successors(root)
print("root: expanded =", sd.node_data(root)["expanded"], "skipped =", sd.node_data(root)["skipped"], "successors =", successors)
print("root reports without recomputation:", cached)
print("expanded_attractor_seeds():", all_seeds)

bad = False
for name, value in cached.items():
    if value:  # anything reported for the root lies inside one of its successors
        print(f"STALE: cached {name} of the skip node were computed while it had no successors")
        bad = True
total = sum(len(v) for v in all_seeds.values())
if total != 2 or root in all_seeds:
    print(f"WRONG: {total} seeds reported for a network with 2 attractors (duplicates in the skip node)")
    bad = True
sys.exit(1 if bad else 0)
