"""C03: a block expansion that reports completion has found exactly the minimal trap spaces."""
import sys
from biobalm import SuccessionDiagram
from biobalm.trappist_core import trappist

RULES = """
A, A
B, A & B
C, B & C
D, C & D
E, D & E
F, !A & (F | E)
"""

def key(s):
    return tuple(sorted(s.items()))

bad = 0
for maa in [False, True]:
    for sources in [True, False]:
        for limit in [1, 2, 3, 4, 6, 8, 12, 100]:
            sd = SuccessionDiagram.from_rules(RULES)
            done = sd.expand_block(find_motif_avoidant_attractors=maa, size_limit=limit, optimize_source_nodes=sources)
            truth = sorted(key(sd.node_data(0)["space"] | x) for x in trappist(sd.petri_net, problem="min"))
            got = sorted(key(sd.node_data(i)["space"]) for i in sd.minimal_trap_spaces())
            if done and got != truth:
                print(f"check_maa={maa} optimize_source_nodes={sources} size_limit={limit}: expand_block returned True "
                      f"with {len(got)} of {len(truth)} minimal trap spaces ({len(sd)} nodes, unexpanded {list(sd.stub_ids())})")
                bad = 1
            if not done and not list(sd.stub_ids()):
                print(f"size_limit={limit}: returned False although nothing is left")
                bad = 1
print("VIOLATION" if bad else "ok")
sys.exit(bad)
