"""
C05: when the remaining nodes are turned into skip nodes, attractor detection over all nodes
still reports every attractor, and *every reported seed lies in an attractor inside its node's
trap space*.

Network: 20 independent oscillators x00..x19 (x, !x), a latch
    e, e | (x00 & !x01 & x02 & !x03 & ... & x18 & !x19)
and a bistable switch (p, q).  Attractors: the two minimal trap spaces {e=1, p=q=0} and
{e=1, p=q=1}; there is no motif-avoidant attractor.  Every state with e=0 is transient, but a
random walk that updates every variable once per sweep sets the latch with probability
~2.6e-7 per sweep only, so candidates with e=0 survive the simulation filter and must be
refuted by the exact (symbolic) test: they reach the minimal trap spaces.

Two histories: (1) nothing expanded, skip_remaining() turns the root into a skip node;
(2) expand_bfs(size_limit=2) stops after the root, skip_remaining() skips its three children.

Exit 0 = property holds on this input, 1 = broken.
"""
import sys
from biodivine_aeon import Attractors
from biobalm import SuccessionDiagram

K = 20
xs = [f"x{i:02d}" for i in range(K)]
latch = " & ".join(x if i % 2 == 0 else "!" + x for i, x in enumerate(xs))
rules = "\n".join(f"{x}, !{x}" for x in xs) + f"\ne, e | ({latch})\np, q\nq, p\n"


def check(sd: SuccessionDiagram, label: str) -> list[str]:
    attractors = [a.vertices() for a in Attractors.attractors(sd.symbolic)]
    counts = [0] * len(attractors)
    problems: list[str] = []
    for n in sd.node_ids():
        data = sd.node_data(n)
        for seed in sd.node_attractor_seeds(n, compute=True):
            v = sd.symbolic.mk_subspace(seed).vertices()
            hit = [i for i, a in enumerate(attractors) if not a.intersect(v).is_empty()]
            if len(seed) != sd.network.variable_count() or len(hit) != 1:
                ones = sorted(k for k, x in seed.items() if x == 1)
                kind = "skip node" if data["skipped"] else "node"
                problems.append(f"{label}: {kind} {n}: seed (ones: {ones}) lies in no attractor")
            else:
                counts[hit[0]] += 1
    for i, c in enumerate(counts):
        if c != 1:  # no motif-avoidant attractor: exactly once
            problems.append(f"{label}: attractor {i} is reported {c} times")
    skipped = [n for n in sd.node_ids() if sd.node_data(n)["skipped"]]
    print(f"{label}: {len(sd)} nodes, skip nodes {skipped}, reports per attractor {counts}")
    return problems


problems: list[str] = []

sd = SuccessionDiagram.from_rules(rules)
assert sd.skip_remaining() == 1
problems += check(sd, "skip root")

sd = SuccessionDiagram.from_rules(rules)
assert sd.expand_bfs(size_limit=2) is False
assert sd.skip_remaining() == 3
problems += check(sd, "bfs with size limit + skip")

for p in problems:
    print("PROBLEM:", p)
sys.exit(1 if problems else 0)
