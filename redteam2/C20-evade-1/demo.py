"""C20 (summary clause): after build() the summary must list every attractor exactly once.

The network below has one fixed point (A=B=C=1, a minimal trap space) and one
motif-avoidant attractor living in the root node (the cycle through 000).
"""
import sys
from biobalm import SuccessionDiagram

sd = SuccessionDiagram.from_rules(
    """targets,factors
A, !A & !B | C
B, !A & !B | C
C, A & B"""
)
sd.build()
text = sd.summary()
print(text)

listed = [ln for ln in text.splitlines() if ln.startswith(".")]
ok = True
if len(listed) != 2:
    print(f"FAIL: network has 2 attractors, summary lists {len(listed)}")
    ok = False
if "motif avoidance in ***" not in text:
    print("FAIL: the motif-avoidant attractor of the root node is not in the summary")
    ok = False
if "minimal trap space 111" not in text:
    print("FAIL: the fixed point is not in the summary")
    ok = False
sys.exit(0 if ok else 1)
