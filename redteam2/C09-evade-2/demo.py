"""C09: trappist(problem="fix", reverse_time=True) must return exactly the fixed points of the
time-reversed network, i.e. the states that no asynchronous transition of the network leads into.
Reference by brute force over all states."""
import itertools, sys
from biodivine_aeon import BooleanNetwork
from biobalm.trappist_core import trappist

bn = BooleanNetwork.from_bnet("""targets,factors
a, true
b, a & c
c, !b | c
""")
names = [bn.get_variable_name(v) for v in bn.variables()]
F = {
    "a": lambda s: 1,
    "b": lambda s: s["a"] & s["c"],
    "c": lambda s: (1 - s["b"]) | s["c"],
}
states = [dict(zip(names, vals)) for vals in itertools.product([0, 1], repeat=len(names))]
def successors(s):
    for n in names:
        if F[n](s) != s[n]:
            t = dict(s); t[n] = 1 - s[n]
            yield t
key = lambda s: sorted(s.items())
has_incoming = [t for s in states for t in successors(s)]
forward = sorted([s for s in states if not list(successors(s))], key=key)
reverse = sorted([s for s in states if s not in has_incoming], key=key)

ok = True
for rev, expected in [(False, forward), (True, reverse)]:
    got = sorted(trappist(bn, problem="fix", reverse_time=rev), key=key)
    print("reverse_time =", rev, "\n  expected", expected, "\n  got     ", got)
    ok = ok and got == expected
sys.exit(0 if ok else 1)
