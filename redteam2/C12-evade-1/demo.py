"""
C12 (order contract): node_attractor_sets(id)[i] is the complete attractor that contains
node_attractor_seeds(id)[i] -- for every call history.

History used here: seeds and sets are computed, a summary of the diagram is printed, then seeds and
sets are read again.  Exit 0 if every set contains the seed at the same index (and is the full
attractor of that seed), non-zero otherwise.
"""
import sys
from biodivine_aeon import BooleanNetwork, Attractors
from biobalm import SuccessionDiagram

RULES = """
A, !A & !B | C
B, !A & !B | C
C, A & B
X, !Z | (X & Y & Z)
Y, !X | (X & Y & Z)
Z, !Y | (X & Y & Z)
"""


def mismatches(sd, node):
    seeds = sd.node_attractor_seeds(node, compute=True)
    sets = sd.node_attractor_sets(node, compute=True)
    stg = sd.symbolic
    truth = Attractors.attractors(stg, stg.mk_subspace(sd.node_data(node)["space"]))
    bad = 0
    if len(seeds) != len(sets):
        return 1
    for i, (seed, att) in enumerate(zip(seeds, sets)):
        seed_set = stg.mk_subspace(seed).vertices()
        expected = [t.vertices() for t in truth if seed_set.is_subset(t.vertices())]
        if len(expected) != 1 or expected[0] != att:
            bad += 1
            print(f"  index {i}: seed {seed} is paired with {att}, which is not the attractor of this seed")
    return bad


sd = SuccessionDiagram(BooleanNetwork.from_bnet(RULES))
root = sd.root()
# The root is completed with a skip node: its successors are the minimal trap spaces, its own
# attractors are the three motif-avoidant ones.
assert sd.skip_to_minimal(root)

print("before summary():")
before = mismatches(sd, root)
text = sd.summary()
print("after summary():")
after = mismatches(sd, root)
print("mismatches before/after:", before, after)
sys.exit(1 if (before or after) else 0)
