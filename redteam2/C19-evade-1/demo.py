"""C19: the same network built in processes with different PYTHONHASHSEED must give
identical node ids, spaces, edges, attractor candidates and attractor seeds."""
import os
import subprocess
import sys

CHILD = r'''
from biobalm import SuccessionDiagram
RULES = """
v0, false
v1, (v3 & !v0)
v2, (!v3 & !v4 & !v2) | (!v3 & v4 & v2) | (v3 & !v4 & !v2) | (v3 & v4 & v2)
v3, true
v4, (!v4 & !v2 & v3) | (v4 & v2 & v3)
"""
sd = SuccessionDiagram.from_rules(RULES)
sd.expand_bfs()
for i in sd.node_ids():
    d = sd.node_data(i)
    print("node", i, sorted(d["space"].items()), d["depth"], sorted(sd.node_successors(i)))
for i in sd.expanded_ids():
    cand = sd.node_attractor_candidates(i, compute=True)
    seeds = sd.node_attractor_seeds(i, compute=True)
    print("candidates", i, sorted(sorted(x.items()) for x in cand))
    print("seeds", i, sorted(sorted(x.items()) for x in seeds))
'''

outputs = {}
for hash_seed in range(8):
    env = dict(os.environ, PYTHONHASHSEED=str(hash_seed))
    r = subprocess.run(
        [sys.executable, "-c", CHILD], env=env, capture_output=True, text=True
    )
    if r.returncode != 0:
        print(r.stderr)
        sys.exit(2)
    outputs.setdefault(r.stdout, []).append(hash_seed)

if len(outputs) != 1:
    print("results depend on PYTHONHASHSEED:")
    for out, seeds in outputs.items():
        print("--- hash seeds", seeds)
        print(out)
    sys.exit(1)
sys.exit(0)
