from biobalm import SuccessionDiagram
from biodivine_aeon import AsynchronousGraph, Attractors, BooleanNetwork
rules='v0, (!v2 & !v3) | (v2 & !v3)\nv1, (v2 & v5)\nv2, (!v1 & !v2) | (v1 & v2)\nv3, (v1)\nv4, (!v2 & v4) | (v2 & !v4) | (v2 & v4)\nv5, (!v0 & !v2) | (!v0 & v2) | (v0 & v2)'
sd = SuccessionDiagram.from_rules(rules); sd.build()
print(sd.summary())
print([(n, sd.node_data(n)["expanded"], sd.node_data(n)["space"], sd.node_successors(n) if sd.node_data(n)["expanded"] else None) for n in sd.node_ids()])
bn = BooleanNetwork.from_bnet(rules).infer_valid_graph(); stg = AsynchronousGraph(bn)
print("AEON attractors:", len(Attractors.attractors(stg, stg.mk_unit_colored_vertices())))
print("expanded_attractor_seeds:", sd.expanded_attractor_seeds())
