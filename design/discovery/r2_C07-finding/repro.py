"""
Run as: cd <clean worktree> && /venv/bin/python repro.py
Exits 1 if a reported succession passes THROUGH a trap space that already lies inside the
target (all of whose minimal trap spaces lie in the target) and then continues.
"""
import sys

import biobalm
from biobalm.control import successions_to_target
from biobalm.space_utils import is_subspace, percolate_space

RULES = """
z, z | b
b, b2
b2, b
c, c | !b
"""
target = {"c": 1}
sd = biobalm.SuccessionDiagram.from_rules(RULES)
bad = []
for succession in successions_to_target(sd, target):
    space = {}
    for k, motif in enumerate(succession):
        space = percolate_space(sd.symbolic, space | motif)
        if is_subspace(space, target) and k < len(succession) - 1:
            bad.append((succession, k, space))
            break
for succession, k, space in bad:
    print(f"{succession}: already inside the target after step {k} ({space}), but continues")
sys.exit(1 if bad else 0)
