import os, sys, pickle
sys.path.insert(0, os.getcwd())
from biodivine_aeon import BooleanNetwork
from biobalm import SuccessionDiagram
bn = BooleanNetwork.from_bnet("x0, x0\nx1, x1\nx2, x1\n")
for v in ["x0", "x1"]:
    bn.set_update_function(v, None); bn.remove_regulation(v, v)
sd = SuccessionDiagram.from_rules(bn.to_sbml(), format="sbml")
print("network vars", sd.network.variable_names())
sd.build()
print("nodes", len(sd), [sd.node_data(i)["space"] for i in sd.minimal_trap_spaces()])
sd2 = pickle.loads(pickle.dumps(sd))
print("after pickle: network vars", sd2.network.variable_names())
for i in sd.node_ids():
    print(i, sd.node_data(i)["space"], "find_node ->", sd2.find_node(sd.node_data(i)["space"]))
