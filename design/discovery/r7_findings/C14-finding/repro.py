"""
Reproducer (UNCHANGED library): a skip node keeps its attractor data when the source-SCC
expansion later attaches further successors to it.

Run as:  cd <worktree> && /venv/bin/python repro.py      (exit code 1 = violation reproduced)
"""

import os
import sys

sys.path.insert(0, os.getcwd())

from biobalm import SuccessionDiagram  # noqa: E402
from biobalm.space_utils import is_subspace  # noqa: E402

# Two independent switches (X,Y) and (P,Q); the (A,B,C) gadget has a motif-avoidant attractor
# and the fixed point 111 when X=1, and is switched off when X=0.
# True attractors: X=0: 2 fixed points; X=1: 2 fixed points + 2 motif-avoidant attractors => 6.
RULES = """
X, Y
Y, X
P, Q
Q, P
A, X & (!A & !B | C)
B, X & (!A & !B | C)
C, X & A & B
"""


def key(s):
    return tuple(sorted(s.items()))


problems = []
for check_maa in [False, True]:
    sd = SuccessionDiagram.from_rules(RULES)
    # The unexpanded root becomes a skip node pointing to the four minimal trap spaces.
    assert sd.skip_remaining() == 1
    root = sd.root()
    assert sd.node_data(root)["skipped"] and sd.node_data(root)["expanded"]
    # As a skip node, the root (correctly) reports the two motif-avoidant attractors.
    assert len(sd.node_attractor_seeds(root, compute=True)) == 2

    # The SCC expansion attaches the sub-diagrams of {P,Q} and {X,Y}: the root receives
    # the additional successors {P=0,Q=0} and {P=1,Q=1}, which contain the attractors above.
    assert sd.expand_scc(find_motif_avoidant_attractors=check_maa)
    children = [sd.node_data(c)["space"] for c in sd.node_successors(root)]
    assert {"P": 0, "Q": 0} in children and {"P": 1, "Q": 1} in children

    for name, fn in [
        ("seeds", sd.node_attractor_seeds),
        ("candidates", sd.node_attractor_candidates),
    ]:
        try:
            states = fn(root, compute=False)
        except KeyError:
            continue
        for state in states:
            inside = [c for c in children if is_subspace(state, c)]
            if inside:
                problems.append(
                    f"check_maa={check_maa}: root reports cached {name[:-1]} {state} "
                    f"inside its successor {inside[0]}"
                )

    total = [s for seeds in sd.expanded_attractor_seeds().values() for s in seeds]
    print(f"check_maa={check_maa}: expanded_attractor_seeds() reports {len(total)} seeds "
          f"({len({key(s) for s in total})} distinct states); the network has 6 attractors")
    if len(total) != 6:
        problems.append(
            f"check_maa={check_maa}: {len(total)} attractor seeds reported for 6 attractors"
        )

for p in problems:
    print("VIOLATION:", p)
sys.exit(1 if problems else 0)
