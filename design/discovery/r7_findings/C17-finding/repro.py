"""
Unchanged library: the default expansion (`build()` = `expand_block()`) depends on how the
network is written down. Run as:  cd <worktree> && /venv/bin/python repro.py
Exits 1 (assertion) because the property is violated on the clean tree.
"""
import re

from biodivine_aeon import BooleanNetwork

import biobalm  # noqa: F401
from biobalm import SuccessionDiagram

RULES = """
a, b
b, a
c, d & e
d, c
e, d | e
f, (a & c) | f
"""


def redeclare(bn, order, rename=None):
    rename = rename or {n: n for n in order}
    result = BooleanNetwork([rename[n] for n in order])
    for reg in bn.regulations():
        result.add_regulation(
            {
                "source": rename[bn.get_variable_name(reg["source"])],
                "target": rename[bn.get_variable_name(reg["target"])],
                "essential": reg["essential"],
                "sign": reg["sign"],
            }
        )
    for var in bn.variables():
        fn = bn.get_update_function(var)
        text = re.sub(
            r"[A-Za-z_][A-Za-z0-9_]*",
            lambda m: rename.get(m.group(0), m.group(0)),
            str(fn),
        )
        result.set_update_function(rename[bn.get_variable_name(var)], text)
    return result


def canonical(sd, back):
    def tr(space):
        return tuple(sorted((back[k], v) for k, v in space.items()))

    nodes = {tr(sd.node_data(i)["space"]): sd.node_data(i)["expanded"] for i in sd.node_ids()}
    edges = {
        (tr(sd.node_data(i)["space"]), tr(sd.node_data(j)["space"]))
        for i in sd.expanded_ids()
        for j in sd.node_successors(i)
    }
    minimal = {tr(sd.node_data(i)["space"]) for i in sd.minimal_trap_spaces()}
    return nodes, edges, minimal


bn = BooleanNetwork.from_bnet(RULES)
names = bn.variable_names()
identity = {n: n for n in names}
problems = []

# 1) Same names, declarations in reverse order; compared with the library's own is_isomorphic.
bn_rev = redeclare(bn, list(reversed(names)))
for method in ("expand_bfs", "expand_scc", "build"):
    sd1, sd2 = SuccessionDiagram(bn), SuccessionDiagram(bn_rev)
    getattr(sd1, method)()
    getattr(sd2, method)()
    iso = sd1.is_isomorphic(sd2)
    same_min = canonical(sd1, identity)[2] == canonical(sd2, identity)[2]
    print(f"reorder  {method:11s} sizes {len(sd1)}/{len(sd2)} isomorphic={iso} same minimal trap spaces={same_min}")
    if not iso:
        problems.append(("reorder", method))

# 2) Same order of roles, variables renamed so that the alphabetical order of the two
#    feedback components is swapped (bnet sorts variables by name).
rename = {"a": "x", "b": "y", "c": "a", "d": "b", "e": "c", "f": "z"}
bn_ren = BooleanNetwork.from_bnet(redeclare(bn, names, rename).to_bnet())
back = {v: k for k, v in rename.items()}
for method in ("expand_bfs", "expand_scc", "build"):
    sd1, sd2 = SuccessionDiagram(bn), SuccessionDiagram(bn_ren)
    getattr(sd1, method)()
    getattr(sd2, method)()
    c1, c2 = canonical(sd1, identity), canonical(sd2, back)
    print(f"rename   {method:11s} sizes {len(sd1)}/{len(sd2)} same nodes+edges={c1[:2] == c2[:2]} same minimal trap spaces={c1[2] == c2[2]}")
    if c1[:2] != c2[:2]:
        problems.append(("rename", method))

assert not problems, f"presentation-dependent diagrams: {problems}"
