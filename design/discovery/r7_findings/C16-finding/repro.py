"""
Unchanged library: `reclaim_node_data()` changes the answer of `node_attractor_candidates`.

Run as `cd <worktree> && /venv/bin/python repro.py`; exits 1 when the answers differ.
"""
import pickle
import sys

import biobalm
from biobalm import SuccessionDiagram

# {a=0, b=0} is a stable motif; outside of it, x oscillates and eventually switches a, b off.
RULES = """
a, b & !x
b, a
x, !x
"""


def norm(states):
    return sorted(sorted(s.items()) for s in states)


sd = SuccessionDiagram.from_rules(RULES)
sd.expand_bfs()
root = sd.root()
# A candidate search without the simulation step leaves one spurious candidate in the root.
sd.node_attractor_candidates(
    root, compute=True, greedy_asp_minification=False, simulation_minification=False
)
sd.node_attractor_seeds(root, compute=True)  # exact: no attractor outside the child

untouched = pickle.loads(pickle.dumps(sd))
sd.reclaim_node_data()

before = norm(untouched.node_attractor_candidates(root))
after = norm(sd.node_attractor_candidates(root))
print("candidates of the untouched diagram:", before)
print("candidates after reclaim_node_data :", after)
print("seeds:", norm(sd.node_attractor_seeds(root)))
sys.exit(0 if before == after else 1)
