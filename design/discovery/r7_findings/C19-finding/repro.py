"""
Unchanged library: the public helpers `biobalm.control.find_drivers` and
`biobalm.control.drivers_of_succession` return lists whose order (and the key order of
multi-variable driver dictionaries) depends on PYTHONHASHSEED.

Run as `cd <worktree> && /venv/bin/python repro.py`; exits 1 when the outputs differ.
"""
import json
import os
import subprocess
import sys

CHILD = """
import json
import biobalm
from biobalm.control import find_drivers, drivers_of_succession, succession_control
from biodivine_aeon import BooleanNetwork
bn = BooleanNetwork.from_bnet('''
alpha, beta | gamma | delta
beta, alpha
gamma, alpha
delta, alpha
''')
target = {"alpha": 1, "beta": 1, "gamma": 1, "delta": 1}
a = find_drivers(bn, target)
b = drivers_of_succession(bn, [target])
sd = biobalm.SuccessionDiagram(bn)
c = [repr(i) for i in succession_control(sd, target)]
print("R" + json.dumps([[list(d.items()) for d in a], [[list(d.items()) for d in x] for x in b], c]))
"""

outs = {}
for seed in ["0", "1", "2", "3"]:
    env = dict(os.environ)
    env["PYTHONHASHSEED"] = seed
    out = subprocess.run(
        [sys.executable, "-c", CHILD],
        env=env,
        cwd=os.getcwd(),
        capture_output=True,
        text=True,
        check=True,
    ).stdout
    outs[seed] = json.loads([x for x in out.splitlines() if x.startswith("R")][0][1:])
    print(f"PYTHONHASHSEED={seed}: find_drivers -> {outs[seed][0]}")

interventions = {json.dumps(o[2]) for o in outs.values()}
print("succession_control (canonical Intervention objects) identical:", len(interventions) == 1)
raw = {json.dumps(o[:2]) for o in outs.values()}
print("find_drivers / drivers_of_succession identical:", len(raw) == 1)
sys.exit(0 if len(raw) == 1 else 1)
