"""
Attractor sets cached in a pickled SuccessionDiagram do not match the symbolic context of the restored diagram
when the network's variables are not in alphabetical order.

Run as:  cd <biobalm checkout> && /venv/bin/python repro.py
Exit code 1 (with a report) when the defect is present, 0 otherwise.
"""
import pickle
import sys

from biodivine_aeon import BooleanNetwork, Reachability

from biobalm import SuccessionDiagram

# A network built through the API keeps its declaration order (z, a, m); every text format
# (bnet / aeon / sbml) re-orders the variables by name (a, m, z).
bn = BooleanNetwork(["z", "a", "m"])
for reg in ["z -> z", "a -| m", "m -> a", "z -> a"]:
    bn.add_regulation(reg)
bn.set_update_function("z", "z")
bn.set_update_function("m", "!a")
bn.set_update_function("a", "m | z")

sd = SuccessionDiagram(bn)
sd.build()


def report(diagram, title):
    bad = 0
    print(title, [diagram.network.get_variable_name(v) for v in diagram.network.variables()])
    for node_id in diagram.expanded_ids():
        space = diagram.symbolic.mk_subspace_vertices(diagram.node_data(node_id)["space"])
        seeds = diagram.node_attractor_seeds(node_id, compute=True)
        sets = diagram.node_attractor_sets(node_id, compute=True)
        for seed, attractor in zip(seeds, sets):
            seed_set = diagram.symbolic.mk_subspace(seed)
            expected = Reachability.reach_fwd(diagram.symbolic, seed_set).vertices()
            ok = attractor == expected and attractor.is_subset(space) and seed_set.vertices().is_subset(attractor)
            print(f"  node {node_id}: seed {dict(sorted(seed.items()))} -> {attractor}; "
                  f"equals reach_fwd(seed): {attractor == expected}; inside node space: {attractor.is_subset(space)}")
            bad += 0 if ok else 1
    return bad


bad_before = report(sd, "original diagram, variable order")
sd2 = pickle.loads(pickle.dumps(sd))
bad_after = report(sd2, "unpickled diagram, variable order")

if bad_before == 0 and bad_after > 0:
    print("DEFECT: cached attractor sets of the unpickled diagram are not expressed in `sd.symbolic`")
    sys.exit(1)
