"""
UNCHANGED library: build() / expand_block() are not resumable.

expand_source_blocks walks the diagram from the root, but it `continue`s on every node that
is already expanded *without* putting the node's successors into the next BFS level.
Hence, as soon as the root has been expanded by anything else (node_successors(compute=True),
expand_bfs(bfs_level_limit=..), a previous expand_block(size_limit=..) that returned False, ...),
a subsequent expand_block() returns True ("fully expanded") without doing anything, and build()
produces a summary that lists no (or not all) attractors.

Run as:  cd <worktree> && /venv/bin/python repro.py      (exits 1 while the defect is present)
"""
import sys
import biobalm
from biobalm import SuccessionDiagram

RULES = """
a, b
b, a
c, d
d, c
"""

reference = SuccessionDiagram.from_rules(RULES)
reference.build()
ref_attractors = sorted(
    tuple(sorted(s.items())) for seeds in reference.expanded_attractor_seeds().values() for s in seeds
)
assert len(ref_attractors) == 4  # 0000, 0011, 1100, 1111

problems = []

# History 1: the user looked at the successors of the root first.
sd = SuccessionDiagram.from_rules(RULES)
sd.node_successors(sd.root(), compute=True)
finished = sd.expand_block()
sd.build()
attractors = sorted(
    tuple(sorted(s.items())) for seeds in sd.expanded_attractor_seeds().values() for s in seeds
)
stubs = list(sd.stub_ids())
print("history 1: expand_block() ->", finished, "| stubs:", stubs, "| attractors:", len(attractors))
print(sd.summary())
if finished and (stubs or attractors != ref_attractors):
    problems.append("build() after node_successors(root, compute=True) is a no-op")

# History 2: a size-limited block expansion that is resumed without a limit.
sd = SuccessionDiagram.from_rules(RULES)
first = sd.expand_block(size_limit=2)
second = sd.expand_block()
stubs = list(sd.stub_ids())
print("history 2: expand_block(size_limit=2) ->", first, ", expand_block() ->", second, "| stubs:", stubs)
if second and stubs:
    problems.append("expand_block() after expand_block(size_limit=2) reports True but leaves stubs")
sd.build()
if "minimal trap space" not in sd.summary():
    problems.append("summary() after the resumed build() lists no attractor at all")

for p in problems:
    print("DEFECT:", p)
sys.exit(1 if problems else 0)
