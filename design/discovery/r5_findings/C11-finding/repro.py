"""
Unchanged library: `percolation_conflicts` with the default `strict_percolation=True` never reports
a conflict, although the given space conflicts with the dynamics.
Run as: cd <worktree> && /venv/bin/python repro.py   (exit code 1 = the defect is present)
"""
import sys

from biodivine_aeon import AsynchronousGraph, BooleanNetwork

import biobalm  # noqa: F401
from biobalm.space_utils import percolate_space_strict, percolation_conflicts

# The network and the space of tests/space_utils_test.py::test_space_percolation (second network).
graph = AsynchronousGraph(BooleanNetwork.from_bnet("a, b\nb, !c\nc, a\n"))
space = {"a": 0, "b": 0, "c": 0}

# b = !c = 1 conflicts with the given b = 0; the strict percolation knows it (b is not confirmed) ...
assert percolate_space_strict(graph, space) == {"a": 0, "c": 0}
# ... the non-strict query reports it ...
assert percolation_conflicts(graph, space, strict_percolation=False) == {"b"}
# ... the default (strict) query does not.
strict = percolation_conflicts(graph, space)
print("strict conflicts:", strict)

# Exhaustively: no space of this network is ever reported as conflicting by the strict query.
names = graph.network_variable_names()
reported = 0
conflicting = 0
for mask in range(3 ** len(names)):
    sp = {}
    m = mask
    for n in names:
        if m % 3 != 2:
            sp[n] = m % 3
        m //= 3
    if percolation_conflicts(graph, sp, strict_percolation=False):
        conflicting += 1
    if percolation_conflicts(graph, sp):
        reported += 1
print(f"{conflicting} spaces conflict with the dynamics, the strict query reports {reported} of them")
sys.exit(0 if strict == {"b"} else 1)
