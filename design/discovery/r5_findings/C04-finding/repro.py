"""
Unchanged library: a shallow copy of a SuccessionDiagram shares the DAG with the original but
gets its own (rebuilt) space index. Expanding through both handles creates duplicate nodes.
Run as: cd <worktree> && python repro.py      (exits 1 when the problem is present)
"""
import copy
import sys

import biobalm

NET = "A, B\nB, A\nC, D\nD, C"

sd = biobalm.SuccessionDiagram.from_rules(NET)
sd.expand_bfs(bfs_level_limit=0)  # root expanded, four stubs

sd2 = copy.copy(sd)  # __reduce_ex__ -> __getstate__ / __setstate__
print("dag shared:", sd2.dag is sd.dag, "| index shared:", sd2.node_indices is sd.node_indices)

first_child = sorted(sd.node_successors(sd.root()))[0]
sd2.node_successors(first_child, compute=True)  # adds nodes to the shared dag, indexes them in sd2 only
sd.expand_bfs()  # sd does not know these nodes and creates them again

spaces = [tuple(sorted(sd.node_data(i)["space"].items())) for i in sd.node_ids()]
print("nodes:", len(spaces), "distinct spaces:", len(set(spaces)))
sys.exit(0 if len(spaces) == len(set(spaces)) else 1)
