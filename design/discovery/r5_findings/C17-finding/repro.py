"""
Unchanged library: the succession diagram produced by `build()` (block expansion) and by `expand_scc()`
depends on the NAMES of the variables; only the full expansion (`expand_bfs`) is renaming-invariant.
Run as: cd <worktree> && /venv/bin/python repro.py   (exit code 1 = presentation dependence is present)
"""
import sys

import biobalm  # noqa: F401
from biobalm import SuccessionDiagram

R1 = "a, b\nb, a\nc, d\nd, c\n"
# a -> y, b -> z: the first feedback loop now sorts behind the second one. Nothing else changes.
R2 = "y, z\nz, y\nc, d\nd, c\n"
back = {"y": "a", "z": "b", "c": "c", "d": "d"}


def shape(sd, mapping=None):
    def fz(space):
        if mapping is not None:
            space = {mapping[k]: v for k, v in space.items()}
        return frozenset(space.items())

    nodes = {fz(sd.node_data(i)["space"]): sd.node_data(i)["expanded"] for i in sd.node_ids()}
    edges = {(fz(sd.node_data(x)["space"]), fz(sd.node_data(y)["space"])) for x, y in sd.dag.edges}
    minimal = {fz(sd.node_data(i)["space"]) for i in sd.minimal_trap_spaces()}
    return nodes, edges, minimal


dependent = []
for method in ("build", "expand_scc", "expand_bfs"):
    s1 = SuccessionDiagram.from_rules(R1)
    s2 = SuccessionDiagram.from_rules(R2)
    getattr(s1, method)()
    getattr(s2, method)()
    n1, e1, m1 = shape(s1)
    n2, e2, m2 = shape(s2, back)
    assert m1 == m2  # the minimal trap spaces always agree
    same = n1 == n2 and e1 == e2
    print(f"{method:11s} nodes {len(s1)}/{len(s2)}  isomorphic under the renaming: {same}")
    if not same:
        dependent.append(method)

assert "expand_bfs" not in dependent
sys.exit(1 if dependent else 0)
