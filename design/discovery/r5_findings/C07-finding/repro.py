"""
Reproducer for two behaviours of the UNCHANGED library that do not fit property C07.
Run as:  cd <clean worktree> && /venv/bin/python repro.py
Prints the observations; exits 1 if (any of) the deviations is present.
"""
import sys

sys.path.insert(0, ".")

import biobalm  # noqa: E402
from biobalm.control import succession_control, successions_to_target  # noqa: E402

bad = 0

# ---------------------------------------------------------------------------
# (1) target = {} (the whole state space) on a network without constants.
#     The root is trivially the outermost trap space all of whose minimal trap
#     spaces lie in the target, so the answer should be [[]] ("no control needed").
# ---------------------------------------------------------------------------
sd = biobalm.SuccessionDiagram.from_rules("A, B\nB, A\n")
got = successions_to_target(sd, {})
print("(1) no constants, target {}      ->", got)
if got != [[]]:
    bad += 1
# The same question on a network whose root space is non-empty (one constant) IS answered with [[]]:
sd = biobalm.SuccessionDiagram.from_rules("A, B\nB, A\nE, false\n")
print("(1) with a constant, target {}   ->", successions_to_target(sd, {}))

# ---------------------------------------------------------------------------
# (2) strategy="all": candidate sets are skipped when their VARIABLE NAMES are a
#     superset of an already found driver, whatever the values. {A:0, B:1} forces
#     C=1 (LDOI), neither {A:0} nor {B:1} does, size 2 is within the bound, but it
#     is never reported because {A:1} (other value of A) is a driver.
# ---------------------------------------------------------------------------
RULES = """
A, !A
B, !B
X, !A
C, C | A | (X & B)
D, E
E, D
"""
target = {"C": 1, "D": 1, "E": 1}
sd = biobalm.SuccessionDiagram.from_rules(RULES)
ivs = succession_control(sd, target, strategy="all", max_drivers_per_succession_node=2)
for iv in ivs:
    for motif, step in zip(iv.succession, iv.control):
        if motif == {"C": 1}:
            print("(2) overrides reported for motif {C:1}:", step)
            if {"A": 0, "B": 1} not in step:
                bad += 1

from biodivine_aeon import AsynchronousGraph  # noqa: E402
from biobalm.space_utils import percolate_space  # noqa: E402

g = sd.symbolic
for d in [{"A": 0, "B": 1}, {"A": 0}, {"B": 1}]:
    print("    LDOI of", d, "=", percolate_space(g, d))

sys.exit(1 if bad else 0)
