# Run as: cd <worktree> && /venv/bin/python repro.py   (exits 1 on the unchanged library)
import os, sys
sys.path.insert(0, os.getcwd())
from biodivine_aeon import AsynchronousGraph, BooleanNetwork
from biobalm.space_utils import (
    percolate_space,
    percolate_space_strict,
    percolation_conflicts,
)

graph = AsynchronousGraph(BooleanNetwork.from_bnet("a, b\nb, c\nc, c\n"))
space = {"a": 0, "c": 1}
print("strict percolation :", percolate_space_strict(graph, space))  # {'b': 1, 'c': 1}
print("full percolation   :", percolate_space(graph, space))         # {'a': 0, 'b': 1, 'c': 1}
print("conflicts (strict=False):", percolation_conflicts(graph, space, strict_percolation=False))
print("conflicts (default)     :", percolation_conflicts(graph, space))

graph2 = AsynchronousGraph(BooleanNetwork.from_bnet("a, b\nb, !c\nc, a\n"))
full = {"a": 0, "b": 0, "c": 0}
print("conflicts full state (strict=False):", percolation_conflicts(graph2, full, strict_percolation=False))
print("conflicts full state (default)     :", percolation_conflicts(graph2, full))

# a=0 is given, but c=1 forces b=1 and then a=1: `a` conflicts with the (strict) percolation.
assert percolation_conflicts(graph, space) == {"a"}
assert percolation_conflicts(graph2, full) == {"b"}
