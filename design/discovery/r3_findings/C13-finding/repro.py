"""
Repro (unchanged library): every repeated insertion of an existing edge appends the same stable motif
again to the edge's `all_motifs` list (`SuccessionDiagram._ensure_edge`), so the work (and the output) of
`succession_control` grows with the HISTORY of earlier calls, not with the network / diagram size.

Run as:  cd <worktree> && /venv/bin/python repro.py      (exits 1 when the problem is present)
"""
import time

import biobalm
from biobalm import SuccessionDiagram
from biobalm.control import succession_control, successions_to_target

K = 3
RULES = "\n".join(f"x{i}, y{i}\ny{i}, x{i}" for i in range(K))
TARGET = {f"x{i}": 1 for i in range(K)} | {f"y{i}": 1 for i in range(K)}


def motif_count(sd):
    return sum(len(sd.dag.edges[e]["all_motifs"]) for e in sd.dag.edges)


ref = SuccessionDiagram.from_rules(RULES)
ref.expand_scc()
ref_succ = len(successions_to_target(ref, TARGET))
ref_ctrl = len(succession_control(ref, TARGET))
print(f"fresh diagram: {len(ref)} nodes, {ref.dag.number_of_edges()} edges, {motif_count(ref)} motifs, "
      f"{ref_succ} successions, {ref_ctrl} interventions")

sd = SuccessionDiagram.from_rules(RULES)
rows = []
for rep in range(1, 6):
    sd.expand_scc()  # idempotent on the diagram structure ...
    assert len(sd) == len(ref) and sd.dag.number_of_edges() == ref.dag.number_of_edges()
    t = time.time()
    n_succ = len(successions_to_target(sd, TARGET))
    n_ctrl = len(succession_control(sd, TARGET))
    rows.append((rep, motif_count(sd), n_succ, n_ctrl, time.time() - t))
    print(f"after {rep} x expand_scc(): {rows[-1][1]} motifs, {n_succ} successions, "
          f"{n_ctrl} interventions, control took {rows[-1][4]:.2f} s")

# ... the same happens when a different strategy re-discovers existing edges
sd2 = SuccessionDiagram.from_rules(RULES)
sd2.expand_bfs()
before = len(succession_control(sd2, TARGET))
sd2.expand_scc()
after = len(succession_control(sd2, TARGET))
print(f"expand_bfs(): {before} interventions; expand_bfs() + expand_scc(): {after} interventions")

bad = rows[-1][2] != ref_succ or after != before
if bad:
    print("PROBLEM: the amount of control work depends on how often edges were (re)inserted")
raise SystemExit(1 if bad else 0)
