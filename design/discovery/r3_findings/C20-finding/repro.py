"""
Reproducer (UNCHANGED library): build() on a diagram whose root was already expanded
does not expand anything and reports no attractors.

Run as:  cd <worktree> && /venv/bin/python repro.py
Exits 1 (AssertionError) when the property "after build() the summary lists every attractor
exactly once" is violated, exits 0 if it holds.
"""
from biodivine_aeon import AsynchronousGraph, Attractors

import biobalm
from biobalm import SuccessionDiagram

RULES = """
a1, a2
a2, a1
b1, b2
b2, b1
"""

# Reference: a fresh diagram.
ref = SuccessionDiagram.from_rules(RULES)
ref.build()
ref_states = sorted(line.lstrip(".") for line in ref.summary().split("\n") if line.startswith("."))
n_attractors = len(Attractors.attractors(AsynchronousGraph(ref.network)))
print("fresh build():", len(ref), "nodes,", ref_states)
assert len(ref_states) == n_attractors == 4

# History: one harmless query before build().
sd = SuccessionDiagram.from_rules(RULES)
sd.node_successors(sd.root(), compute=True)  # e.g. the user looked at the stable motifs of the root
sd.build()
states = sorted(line.lstrip(".") for line in sd.summary().split("\n") if line.startswith("."))
print("root expanded, then build():", len(sd), "nodes, stubs:", list(sd.stub_ids()), "listed:", states)
print(sd.summary())

assert states == ref_states, (
    f"after build() the summary lists {len(states)} of {n_attractors} attractors; "
    f"{len(list(sd.stub_ids()))} nodes were left unexpanded"
)
