"""
Reproducer (UNCHANGED library): block expansion does not resume below nodes that are already
expanded, but still reports completion. Exits non-zero when the violation is observed.
Run as:  cd <worktree> && /venv/bin/python repro.py
"""
import sys

import biobalm

from biodivine_aeon import BooleanNetwork, AsynchronousGraph, Attractors


def check_seeds(sd, bnet, seeds_by_node):
    """
    `seeds_by_node`: dict node_id -> list of seed states, for every expanded node with seeds.
    Asserts the one-to-one correspondence with the attractors of `bnet`.
    """
    bn = BooleanNetwork.from_bnet(bnet).infer_valid_graph()
    graph = AsynchronousGraph(bn)
    names = [bn.get_variable_name(v) for v in bn.variables()]
    attractors = [a.vertices() for a in Attractors.attractors(graph)]
    hits = [0] * len(attractors)
    for node_id, seeds in seeds_by_node.items():
        node_space = sd.node_data(node_id)["space"]
        child_spaces = [sd.node_data(c)["space"] for c in sd.node_successors(node_id)]
        for seed in seeds:
            assert sorted(seed) == sorted(names), f"seed {seed} is not a full state"
            state = graph.mk_subspace(seed).vertices()
            owner = [i for i, a in enumerate(attractors) if not a.intersect(state).is_empty()]
            assert len(owner) == 1, f"seed {seed} of node {node_id} is not in any attractor"
            att = attractors[owner[0]]
            hits[owner[0]] += 1
            assert att.is_subset(graph.mk_subspace(node_space).vertices()), (
                f"attractor of seed {seed} is not inside node {node_id}"
            )
            for cs in child_spaces:
                assert not att.is_subset(graph.mk_subspace(cs).vertices()), (
                    f"attractor of seed {seed} (node {node_id}) lies in a successor {cs}"
                )
    assert all(h == 1 for h in hits), (
        f"{len(attractors)} attractors, seeds per attractor: {hits}"
    )


RULES = """targets,factors
a, b
b, a
c, a & !c | !a & c
"""
# Attractors: {a=b=0,c=0}, {a=b=0,c=1} (fixed points) and {a=b=1, c oscillating}.

failures = 0


def report(title, sd, completed):
    global failures
    seeds = sd.expanded_attractor_seeds()
    stubs = list(sd.stub_ids())
    try:
        check_seeds(sd, RULES, seeds)
        print(f"{title}: completed={completed} stubs={stubs} -> OK")
    except AssertionError as e:
        failures += 1
        print(f"{title}: completed={completed} stubs={stubs} seeds={seeds} -> VIOLATION: {e}")


# (a) the root was expanded through the public accessor before the strategy is run
sd = biobalm.SuccessionDiagram.from_rules(RULES)
sd.node_successors(sd.root(), compute=True)
report("node_successors(root) + expand_block()", sd, sd.expand_block())

sd = biobalm.SuccessionDiagram.from_rules(RULES)
sd.node_successors(sd.root(), compute=True)
sd.build()
report("node_successors(root) + build()", sd, None)

# (b) a size-limited block expansion is resumed without a limit
sd = biobalm.SuccessionDiagram.from_rules(RULES)
first = sd.expand_block(size_limit=2)
assert first is False
report("expand_block(size_limit=2) + expand_block()", sd, sd.expand_block())

# (c) a level-limited BFS followed by the default pipeline
sd = biobalm.SuccessionDiagram.from_rules(RULES)
sd.expand_bfs(bfs_level_limit=0)
sd.build()
report("expand_bfs(bfs_level_limit=0) + build()", sd, None)

# For comparison: the other strategies do resume (documented for expand_bfs).
for name in ("expand_bfs", "expand_dfs", "expand_scc", "expand_attractor_seeds"):
    sd = biobalm.SuccessionDiagram.from_rules(RULES)
    sd.node_successors(sd.root(), compute=True)
    report(f"node_successors(root) + {name}()", sd, getattr(sd, name)())

sys.exit(1 if failures else 0)
