"""
C15 finding (unchanged library): the block expansion is not resumable.

After expand_block(size_limit=...) stops early (returns False), repeating expand_block() with a
relaxed / no limit returns True immediately without expanding anything: the BFS over levels
`continue`s on the already expanded root and never puts its successors on the next level.
build() uses expand_block(), so build() on such a diagram silently reports no attractors.

Run as: cd <worktree> && /venv/bin/python repro.py   (exits 1 = finding reproduced)
"""
import biobalm
from biobalm import SuccessionDiagram

RULES = """
a, b
b, a
c, a & d
d, a & c
e, c & f
f, c & e
"""

ref = SuccessionDiagram.from_rules(RULES)
ref.build()
ref_attractors = sum(len(v) for v in ref.expanded_attractor_seeds().values())
print("uninterrupted: nodes", len(ref), "stubs", list(ref.stub_ids()), "attractors", ref_attractors)

sd = SuccessionDiagram.from_rules(RULES)
r1 = sd.expand_block(size_limit=2)
print("expand_block(size_limit=2) ->", r1, "| nodes", len(sd), "stubs", list(sd.stub_ids()))
assert r1 is False

r2 = sd.expand_block()  # relaxed limit
print("expand_block()             ->", r2, "| nodes", len(sd), "stubs", list(sd.stub_ids()))

sd.build()
attractors = sum(len(v) for v in sd.expanded_attractor_seeds().values())
print("build() after the interrupted run: attractors", attractors, "(expected", ref_attractors, ")")

problems = []
if r2 and not (sd.is_isomorphic(ref) and len(sd) == len(ref)):
    problems.append("expand_block returned True, but the diagram differs from the uninterrupted run")
if attractors != ref_attractors:
    problems.append(f"build() found {attractors} attractors instead of {ref_attractors}")
for p in problems:
    print("VIOLATION:", p)
raise SystemExit(1 if problems else 0)
