"""
Reproducer (UNCHANGED library): the attractors reported for an *unexpanded* node depend on
whether an input is written as a free input (aeon / sbml: variable without update function)
or as an identity function (bnet: `I, I`), although the library documents and otherwise
treats both as the same thing (a source node that keeps its value).

Run as:  cd <biobalm checkout> && python repro.py      (exit code 1 = violation observed)
"""

import sys

from biodivine_aeon import AsynchronousGraph, Attractors, BooleanNetwork

import biobalm
from biobalm._sd_attractors.attractor_symbolic import symbolic_attractor_fallback

AEON = """
I -> A
B -> A
A -> B
C -| C
I -> C
$A: I & B
$B: A
$C: !C | I
"""
# `I` has no update function above; bnet cannot express that, so the input is `I, I`.
BNET = """
I, I
A, I & B
B, A
C, !C | I
"""
SBML = BooleanNetwork.from_aeon(AEON).to_sbml()

PRESENTATIONS = [("bnet", BNET), ("aeon", AEON), ("sbml", SBML)]


def frozen(space):
    return tuple(sorted((k, int(v)) for k, v in space.items()))


def explicit(sd, vertex_set):
    return frozenset(
        tuple(sorted((sd.network.get_variable_name(k), int(v)) for k, v in s.items()))
        for s in vertex_set
    )


# Ground truth: the asynchronous attractors of the network where the input keeps its value.
truth_bn = BooleanNetwork.from_bnet(BNET)
truth_graph = AsynchronousGraph(truth_bn)
truth = {
    frozenset(
        tuple(sorted((truth_bn.get_variable_name(k), int(v)) for k, v in s.items()))
        for s in a.vertices()
    )
    for a in Attractors.attractors(truth_graph)
}
print(f"ground truth: {len(truth)} attractors, sizes {sorted(len(a) for a in truth)}")

results = {}
for fmt, text in PRESENTATIONS:
    # (1) attractors of the unexpanded root node
    sd = biobalm.SuccessionDiagram.from_rules(text, format=fmt)
    seeds = sd.node_attractor_seeds(sd.root(), compute=True)
    sets = sd.node_attractor_sets(sd.root(), compute=True)
    root_attractors = {explicit(sd, s) for s in sets}

    # (2) the symbolic fallback on the unexpanded root node
    sd_fb = biobalm.SuccessionDiagram.from_rules(text, format=fmt)
    fb_seeds, fb_sets = symbolic_attractor_fallback(sd_fb, sd_fb.root())
    fallback_attractors = {explicit(sd_fb, s) for s in fb_sets}

    # (3) the fully built diagram (this one is fine in all presentations)
    sd_full = biobalm.SuccessionDiagram.from_rules(text, format=fmt)
    sd_full.build()
    built_attractors = set()
    for n in sd_full.expanded_ids():
        for s in sd_full.node_attractor_sets(n, compute=True):
            built_attractors.add(explicit(sd_full, s))

    results[fmt] = (root_attractors, fallback_attractors, built_attractors)
    print(
        f"{fmt:5s}: unexpanded root: {len(seeds)} seeds, set sizes {sorted(len(a) for a in root_attractors)}"
        f" | fallback: {len(fb_seeds)} seeds, set sizes {sorted(len(a) for a in fallback_attractors)}"
        f" | built diagram: {len(built_attractors)} attractors"
    )

violations = []
for fmt, (root_attractors, fallback_attractors, built_attractors) in results.items():
    if built_attractors != truth:
        violations.append(f"{fmt}: built diagram disagrees with the ground truth")
    if root_attractors != truth:
        violations.append(f"{fmt}: attractors of the unexpanded root disagree with the ground truth")
    if fallback_attractors != truth:
        violations.append(f"{fmt}: symbolic fallback on the unexpanded root disagrees with the ground truth")

for v in violations:
    print("VIOLATION:", v)
sys.exit(1 if violations else 0)
