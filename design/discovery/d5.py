from biobalm import SuccessionDiagram
from biodivine_aeon import AsynchronousGraph, Attractors, BooleanNetwork
import random, itertools

def aeon_attractors(rules):
    bn = BooleanNetwork.from_bnet(rules).infer_valid_graph()
    stg = AsynchronousGraph(bn)
    return stg, Attractors.attractors(stg, stg.mk_unit_colored_vertices())

rules = "x, (x & !y) | (!x & y)\ny, (y & !x) | (!y & x)"
sd = SuccessionDiagram.from_rules(rules)
print("nfvs root:", sd.node_percolated_nfvs(0, compute=True))
stg, atts = aeon_attractors(rules)
print("AEON attractors:", [a.vertices().cardinality() for a in atts])
print("unexpanded root candidates:", sd.node_attractor_candidates(0, compute=True))
print("unexpanded root seeds:", sd.node_attractor_seeds(0, compute=True))
sd2 = SuccessionDiagram.from_rules(rules); sd2.build()
print("built:", {n: sd2.node_attractor_seeds(n) for n in sd2.node_ids()})

# search: networks where build() (complete strategy) disagrees with AEON
def tt_to_expr(names, tt):
    terms = []
    for bits, out in zip(itertools.product([0,1], repeat=len(names)), tt):
        if out:
            terms.append("(" + " & ".join((n if b else "!"+n) for n, b in zip(names, bits)) + ")")
    return " | ".join(terms) if terms else "false"

rng = random.Random(7)
bad = 0
for it in range(4000):
    n = rng.choice([2,3])
    names = [f"v{i}" for i in range(n)]
    rules = "\n".join(f"{v}, {tt_to_expr(names, [rng.randint(0,1) for _ in range(2**n)])}" for v in names)
    try:
        sd = SuccessionDiagram.from_rules(rules)
        sd.build()
    except Exception as e:
        print("EXC", type(e).__name__, e, repr(rules)); continue
    seeds = [s for i in sd.node_ids() for s in sd.node_attractor_seeds(i)]
    stg, atts = aeon_attractors(rules)
    atts = list(atts)
    ok = True
    for s in seeds:
        f = [i for i,a in enumerate(atts) if stg.mk_subspace(s).is_subset(a)]
        if not f: ok = False; break
        atts.pop(f[0])
    if atts: ok = False
    if not ok:
        bad += 1
        print("MISMATCH", repr(rules), "seeds", seeds, "nfvs", sd.node_percolated_nfvs(0, compute=True))
        if bad > 3: break
print("bad", bad)
