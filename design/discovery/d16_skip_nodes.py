"""
Reproducer: the UNCHANGED library loses all motif-avoidant attractors of a
9-variable network once the diagram is completed with skip nodes.

Run as:  cd <tree> && /venv/bin/python /tmp/seed_out/C05/finding_repro.py
Exits 1 (prints LOST ...) when the defect is present.
"""
import os
import sys

sys.path.insert(0, os.getcwd())

from biodivine_aeon import AsynchronousGraph, Attractors, BooleanNetwork  # noqa: E402

from biobalm import SuccessionDiagram  # noqa: E402

bn = BooleanNetwork.from_bnet(
    """targets,factors
A, !C | (A & B & C)
B, !A | (A & B & C)
C, !B | (A & B & C)
p0, q0
q0, p0
p1, q1
q1, p1
p2, q2
q2, p2
"""
).infer_valid_graph()

stg = AsynchronousGraph(bn)
attractors = Attractors.attractors(stg, stg.mk_unit_colored_vertices())

sd = SuccessionDiagram(bn)
sd.expand_bfs(bfs_level_limit=1)  # root and its 7 children are expanded normally
skipped = sd.skip_remaining()  # the 18 grand-children become skip nodes

hits = [0] * len(attractors)
for node_id in sd.node_ids():
    for seed in sd.node_attractor_seeds(node_id, compute=True):
        for k, a in enumerate(attractors):
            if stg.mk_subspace(seed).is_subset(a):
                hits[k] += 1

print(f"{len(sd)} nodes, {skipped} skip nodes, {len(attractors)} attractors, hits {hits}")
lost = [k for k, h in enumerate(hits) if h == 0]
if lost:
    print(f"LOST {len(lost)} attractors (sizes {[attractors[k].vertices().cardinality() for k in lost]})")
    sys.exit(1)
print("all attractors reported")
