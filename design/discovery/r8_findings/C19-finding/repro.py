"""
C19 finding: the public functions `drivers_of_succession` / `find_drivers` return
driver sets whose ORDER (list order and dict key order) depends on PYTHONHASHSEED,
because the driver pool is a `set[str]` that is fed to `itertools.combinations`.
(`Intervention` re-sorts them, so `succession_control` is not affected.)
Exits 1 if two hash seeds give different output.
"""
import subprocess
import sys

CHILD = r'''
from biobalm import SuccessionDiagram
from biobalm.control import drivers_of_succession
sd = SuccessionDiagram.from_rules("""
A, B & C & D & E
B, A & C & D & E
C, A & B & D & E
D, A & B & C & E
E, A & B & C & D
""")
target = {"A": 1, "B": 1, "C": 1, "D": 1, "E": 1}
print(drivers_of_succession(sd.network, [target], strategy="internal"))
'''

outputs = set()
for seed in ["0", "1", "2", "3", "4"]:
    out = subprocess.run(
        [sys.executable, "-c", CHILD],
        env={"PYTHONHASHSEED": seed, "PATH": "/usr/bin:/bin"},
        capture_output=True,
        text=True,
        check=True,
    ).stdout.strip()
    print(seed, out[:150])
    outputs.add(out)

if len(outputs) > 1:
    print(f"{len(outputs)} different results for the same call")
    sys.exit(1)
print("reproducible")
