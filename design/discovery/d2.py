from biobalm import SuccessionDiagram
print("--- D2: stale seeds after skip_to_minimal / skip_remaining / expand_scc")
rules = "A, A\nB, B\nC, !C & A"   # several minimal traps under root
for how in ("skip_to_minimal", "skip_remaining", "expand_minimal_spaces(skip_ignored)"):
    sd = SuccessionDiagram.from_rules("a, b\nb, a\nc, !c | a")
    seeds_before = sd.node_attractor_seeds(0, compute=True)
    if how == "skip_to_minimal": sd.skip_to_minimal(0)
    elif how == "skip_remaining": sd.skip_remaining()
    print(how, "root expanded:", sd.node_data(0)["expanded"], "skipped:", sd.node_data(0)["skipped"], "succ:", sd.node_successors(0) if sd.node_data(0)["expanded"] else None)
    if sd.node_data(0)["expanded"]:
        print("  root seeds (compute=False):", sd.node_attractor_seeds(0, compute=False))
        allseeds = {n: sd.node_attractor_seeds(n, compute=True) for n in sd.node_ids()}
        print("  all seeds:", allseeds)
        fresh = SuccessionDiagram.from_rules("a, b\nb, a\nc, !c | a"); 
        (fresh.skip_to_minimal(0) if how=="skip_to_minimal" else fresh.skip_remaining())
        print("  fresh-skip seeds:", {n: fresh.node_attractor_seeds(n, compute=True) for n in fresh.node_ids()})

print("--- D2b: expand_scc after root query (two independent SCCs, no sources)")
rules2 = "a, b\nb, a\nc, d\nd, c"
sd = SuccessionDiagram.from_rules(rules2)
print(" root seeds unexpanded:", sd.node_attractor_seeds(0, compute=True))
sd.expand_scc()
print(" after expand_scc root expanded:", sd.node_data(0)["expanded"], "root seeds cached:", sd.node_data(0)["attractor_seeds"])
tot = sum(len(sd.node_attractor_seeds(n, compute=True)) for n in sd.node_ids())
fresh = SuccessionDiagram.from_rules(rules2); fresh.expand_scc()
print(" total seeds:", tot, "vs fresh:", sum(len(fresh.node_attractor_seeds(n, compute=True)) for n in fresh.node_ids()))

print("--- D4: size-limited expansion returns False with nothing left")
sd = SuccessionDiagram.from_rules("a, b\nb, a\nc, !c | a")
print(" full bfs:", sd.expand_bfs(), "stubs:", list(sd.stub_ids()), "len", len(sd))
print(" bfs(size_limit=1):", sd.expand_bfs(size_limit=1), " dfs(size_limit=1):", sd.expand_dfs(size_limit=1), "min(size_limit=1):", sd.expand_minimal_spaces(size_limit=1), "attr:", sd.expand_attractor_seeds(size_limit=1), "target:", sd.expand_to_target({"a":1}, size_limit=1))

print("--- D7: is_subgraph/is_isomorphic on unexpanded diagrams of different networks")
s1 = SuccessionDiagram.from_rules("A, true\nB, A"); s2 = SuccessionDiagram.from_rules("A, false\nB, A")
print(" roots:", s1.node_data(0)["space"], s2.node_data(0)["space"], "is_isomorphic:", s1.is_isomorphic(s2))
