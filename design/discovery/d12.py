import random, itertools, signal, sys, pickle
from multiprocessing import Pool
from d3 import gen
class TO(Exception): pass
def handler(s,f): raise TO()
def run(seed):
    from biobalm import SuccessionDiagram
    from biodivine_aeon import AsynchronousGraph, Attractors, BooleanNetwork
    rules = gen(seed); out=[]; rng = random.Random(seed)
    signal.signal(signal.SIGALRM, handler)
    bn = BooleanNetwork.from_bnet(rules).infer_valid_graph(); stg = AsynchronousGraph(bn)
    atts = [a.vertices() for a in Attractors.attractors(stg, stg.mk_unit_colored_vertices())]
    signal.alarm(40)
    try:
        # C12: sets equal full attractors, order matches seeds; fallback agrees
        sd = SuccessionDiagram.from_rules(rules); sd.expand_bfs()
        for n in sd.node_ids():
            order = rng.random() < 0.5
            if order: sd.node_attractor_seeds(n, compute=True)
            if rng.random() < 0.3: sd.reclaim_node_data()
            sets = sd.node_attractor_sets(n, compute=True); seeds = sd.node_attractor_seeds(n, compute=True)
            if len(sets) != len(seeds): out.append((seed, "C12 len", rules)); continue
            for st, sdd in zip(sets, seeds):
                m = [a for a in atts if stg.mk_subspace(sdd).vertices().is_subset(a)]
                # sd.symbolic differs from stg ctx; compare by cardinality + membership of seed
                if len(m) != 1 or m[0].cardinality() != st.cardinality() or not sd.symbolic.mk_subspace(sdd).vertices().is_subset(st):
                    out.append((seed, "C12 set", n, rules))
            sd3 = SuccessionDiagram.from_rules(rules); sd3.expand_bfs()
            fb = sd3.node_attractor_seeds(n, compute=True) if False else None
        # C05: random partial expansion then skip
        sd = SuccessionDiagram.from_rules(rules)
        lim = rng.randint(1, 6)
        rng.choice([sd.expand_bfs, sd.expand_dfs, sd.expand_minimal_spaces])(size_limit=lim)
        sd.skip_remaining()
        seeds = [s for n in sd.node_ids() for s in sd.node_attractor_seeds(n, compute=True)]
        left = list(atts)
        for s in seeds:
            f=[i for i,a in enumerate(left) if stg.mk_subspace(s).vertices().is_subset(a)]
            if not any(stg.mk_subspace(s).vertices().is_subset(a) for a in atts): out.append((seed,"C05 seed not in attractor", rules))
            if f: left.pop(f[0])
        if left: out.append((seed, "C05 lost attractor", lim, rules))
        # C16 pickle mid-history
        sd = SuccessionDiagram.from_rules(rules); sd.expand_bfs(size_limit=rng.randint(1,5))
        for n in list(sd.node_ids())[:2]: sd.node_attractor_candidates(n, compute=True)
        sd2 = pickle.loads(pickle.dumps(sd)); sd2.reclaim_node_data()
        sd.build() if False else None
        sd.expand_bfs(); sd2.expand_bfs()
        a1 = {n: sorted(map(lambda x: sorted(x.items()), sd.node_attractor_seeds(n, compute=True))) for n in sd.node_ids()}
        a2 = {n: sorted(map(lambda x: sorted(x.items()), sd2.node_attractor_seeds(n, compute=True))) for n in sd2.node_ids()}
        if a1 != a2 or not sd.is_isomorphic(sd2): out.append((seed, "C16 differs", rules))
        signal.alarm(0)
    except TO: out.append((seed, "TIMEOUT", rules))
    except Exception as e:
        signal.alarm(0); import traceback; out.append((seed, "EXC %s %s"%(type(e).__name__, e), traceback.format_exc()[-300:], rules))
    return out
if __name__ == "__main__":
    k=0
    with Pool(15) as p:
        for res in p.imap_unordered(run, range(int(sys.argv[1]), int(sys.argv[2])), chunksize=20):
            for r in res:
                k+=1
                if k < 10: print(repr(r)[:700], flush=True)
    print("DONE problems:", k)
