"""Unchanged library: expand_block() resumed after a size-limited stop returns True without
expanding anything (run as `cd <worktree> && /venv/bin/python repro.py`; exits 1 = defect present)."""
from biobalm import SuccessionDiagram

RULES = """
a, a
b, b
c, c & a
d, d & b
e, e & c
"""

reference = SuccessionDiagram.from_rules(RULES)
assert reference.expand_block()
assert len(list(reference.stub_ids())) == 0

sd = SuccessionDiagram.from_rules(RULES)
assert not sd.expand_block(size_limit=6)          # stopped by the size limit
stubs_before = list(sd.stub_ids())
assert len(stubs_before) > 0

completed = sd.expand_block()                      # relaxed limit (none)
stubs_after = list(sd.stub_ids())
print("resumed expand_block returned", completed, "| nodes:", len(sd), "vs", len(reference),
      "| stubs left:", stubs_after)
# Contract: True means the block expansion is finished.
assert not (completed and len(stubs_after) > 0), "expand_block returned True but did nothing"
assert len(sd) == len(reference)
