"""
C19 on the UNCHANGED library: the public functions `biobalm.control.find_drivers` and
`biobalm.control.drivers_of_succession` return their result in an order that depends on
PYTHONHASHSEED (only `Intervention.__init__` canonicalises it afterwards), and
`biobalm.drivers.find_single_node_LDOIs` / `space_utils.percolate_space_strict` return
dictionaries whose insertion order depends on it.

Run as:  cd <worktree> && /venv/bin/python repro.py      (exits 1 and prints the variants)
"""
import json
import os
import subprocess
import sys

RULES = """targets,factors
erk, raf & mek & ras
mek, raf & erk & ras
raf, ras & mek & erk
ras, raf & mek & erk
apoptosis, !erk
"""
TARGET = {"erk": 1, "mek": 1, "raf": 1, "ras": 1}


def dump() -> str:
    import biobalm
    from biobalm.control import drivers_of_succession, find_drivers
    from biobalm.drivers import find_single_node_LDOIs

    sd = biobalm.SuccessionDiagram.from_rules(RULES)
    return json.dumps(
        {
            "find_drivers": [list(d.items()) for d in find_drivers(sd.symbolic, TARGET)],
            "drivers_of_succession": [
                [list(d.items()) for d in step]
                for step in drivers_of_succession(sd.symbolic, [TARGET], strategy="all")
            ],
            "LDOI(erk=0)": list(find_single_node_LDOIs(sd.symbolic)[("erk", 0)].items()),
        }
    )


if __name__ == "__main__":
    if len(sys.argv) > 1 and sys.argv[1] == "--dump":
        print(dump())
        sys.exit(0)

    variants = {}
    for seed in ("0", "1", "2", "3", "4", "5"):
        env = dict(os.environ, PYTHONHASHSEED=seed)
        out = subprocess.run(
            [sys.executable, __file__, "--dump"], env=env, capture_output=True, text=True, check=True
        )
        variants.setdefault(out.stdout.strip().splitlines()[-1], []).append(seed)

    for text, seeds in variants.items():
        print(f"PYTHONHASHSEED in {seeds}:")
        for key, value in json.loads(text).items():
            print(f"    {key}: {value}")
    sys.exit(0 if len(variants) == 1 else 1)
