"""
Unchanged library: reclaim_node_data() changes the answer of node_attractor_candidates()
and expanded_attractor_candidates(). Run as: cd <worktree> && /venv/bin/python repro.py
Exits 1 (assertion) on the unchanged tree.
"""
import biobalm
from biobalm import SuccessionDiagram

RULES = """
A, !A & !B | C
B, !A & !B | C
C, A & B
X, !Z | (X & Y & Z)
Y, !X | (X & Y & Z)
Z, !Y | (X & Y & Z)
"""


def key(space):
    return tuple(sorted(space.items()))


sd = SuccessionDiagram.from_rules(RULES)
sd.expand_bfs()
for n in sd.node_ids():
    # raw candidates (no minification): several candidate states per attractor
    sd.node_attractor_candidates(
        n, compute=True, greedy_asp_minification=False, simulation_minification=False
    )
    sd.node_attractor_seeds(n, compute=True)

before = {n: sorted(map(key, c)) for n, c in sd.expanded_attractor_candidates().items()}
sd.reclaim_node_data()
after = {n: sorted(map(key, c)) for n, c in sd.expanded_attractor_candidates().items()}

print({n: len(c) for n, c in before.items()}, "->", {n: len(c) for n, c in after.items()})
assert before == after, "reclaim_node_data() changed the attractor candidates of the nodes"
