"""
Unchanged library, strategy="all": an inclusion-minimal override is not reported when some
override on a *subset of its variables* -- with different values -- works.

Run as:  cd <worktree> && /venv/bin/python repro.py
         exit 1 = finding reproduced, exit 0 = not reproduced
"""

import os
import sys

sys.path.insert(0, os.getcwd())

from biobalm import SuccessionDiagram  # noqa: E402
from biobalm.control import succession_control  # noqa: E402
from biobalm.space_utils import percolate_space  # noqa: E402

# Stable motif {C:1} of the root.
#   A=1            -> C=1
#   A=0 and B=1    -> D=1 -> C=1      (A=0 alone gives B=0, D=0; B=1 alone leaves D = !A open)
RULES = """
A, A & B
B, A & B
C, C | A | D
D, !A & B
"""

sd = SuccessionDiagram.from_rules(RULES)
target = {"C": 1}
interventions = succession_control(
    sd, target, strategy="all", max_drivers_per_succession_node=2
)
# the intervention that goes from the root directly into the motif {C:1} and stops there
(intervention,) = [i for i in interventions if i.succession == [{"C": 1}]]
reported = intervention.control[0]
print("reported overrides for motif {C:1}:", reported)


def forces(override):
    return {"C": 1}.items() <= percolate_space(sd.symbolic, override).items()


candidate = {"A": 0, "B": 1}
# the candidate forces the motif, uses two allowed variables (bound is 2) ...
assert forces(candidate)
# ... and no proper sub-assignment does:
assert not forces({"A": 0}) and not forces({"B": 1}) and not forces({})
# everything that *is* reported is fine:
assert all(forces(d) for d in reported)

if candidate not in reported:
    print("MISSING inclusion-minimal override:", candidate)
    sys.exit(1)
print("ok")
