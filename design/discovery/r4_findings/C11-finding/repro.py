# Run as: cd <clean worktree> && /venv/bin/python repro.py
# percolation_conflicts(..., strict_percolation=True) -- the default -- returns the empty set
# for every network and every space, also when a given value plainly contradicts the
# (non-constant) dynamics that follows from the other given values.
import random

from biodivine_aeon import AsynchronousGraph, BooleanNetwork

import biobalm  # noqa: F401
from biobalm.space_utils import percolate_space_strict, percolation_conflicts

# 1. The example from tests/space_utils_test.py: the conflict on b is found by the
#    non-strict variant, but not by the strict (default) one, although no constant of
#    the network is involved.
bn = BooleanNetwork.from_bnet("a, b\nb, !c\nc, a")
graph = AsynchronousGraph(bn)
space = {"a": 0, "b": 0, "c": 0}
print("strict percolation     :", percolate_space_strict(graph, space))  # b is dropped: conflict
print("conflicts (non-strict) :", percolation_conflicts(graph, space, strict_percolation=False))
print("conflicts (default)    :", percolation_conflicts(graph, space))

# 2. The strict variant never reports anything: random networks, random spaces.
random.seed(7)


def rand_expr(names, depth):
    if depth == 0 or random.random() < 0.3:
        v = random.choice(names)
        return v if random.random() < 0.5 else f"!{v}"
    return f"({rand_expr(names, depth - 1)} {random.choice('&|')} {rand_expr(names, depth - 1)})"


non_empty = 0
total = 0
for _ in range(300):
    n = random.randint(2, 6)
    names = [f"v{i}" for i in range(n)]
    rules = "\n".join(f"{v}, {rand_expr(names, 3)}" for v in names)
    g = AsynchronousGraph(BooleanNetwork.from_bnet(rules).infer_valid_graph())
    for _ in range(10):
        sp = {v: random.randint(0, 1) for v in random.sample(names, random.randint(0, n))}
        total += 1
        if percolation_conflicts(g, sp):
            non_empty += 1
print(f"non-empty results of the default variant: {non_empty} / {total}")

assert percolation_conflicts(graph, space) == {"b"}, "strict conflicts are vacuous"
