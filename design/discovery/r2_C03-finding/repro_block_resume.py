"""
Secondary observation (see finding.md, section 2): a resumed block expansion reports completion
without doing anything.  Run as: cd <biobalm checkout> && python repro_block_resume.py  (exits 1 when reproduced)
"""
import sys

sys.path.insert(0, ".")
from biobalm import SuccessionDiagram
from biobalm.trappist_core import trappist

sd = SuccessionDiagram.from_rules("A, B\nB, A\nC, D\nD, C")
truth = sorted(tuple(sorted(x.items())) for x in trappist(sd.petri_net, problem="min"))
print("expand_block(size_limit=2) ->", sd.expand_block(size_limit=2), "| nodes:", len(sd))
completed = sd.expand_block()
found = sorted(tuple(sorted(sd.node_data(i)["space"].items())) for i in sd.minimal_trap_spaces())
print("expand_block() ->", completed, "| nodes:", len(sd), "| minimal trap spaces:", len(found), "of", len(truth))
if completed and found != truth:
    print("REPRODUCED: the second call reports completion, but no minimal trap space was expanded")
    sys.exit(1)
