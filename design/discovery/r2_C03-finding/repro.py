"""
Reproducer: under `python -O` the source-SCC expansion reports completion but leaves the minimal
trap spaces (fixed points) unexpanded, because the only call that expands them lives inside an
`assert` statement (biobalm/_sd_algorithms/expand_source_SCCs.py, branch "no source SCCs").

Run as:  cd <biobalm checkout> && python repro.py
The script re-runs itself with and without -O. It exits 1 if the violation is reproduced.
"""
import subprocess
import sys

CHILD = r"""
import sys
sys.path.insert(0, ".")
from biobalm import SuccessionDiagram
from biobalm.trappist_core import trappist

def key(space):
    return tuple(sorted(space.items()))

# 1) a single source SCC: expanded "normally", its two fixed points end up in the branch
#    `if len(source_scc_diagrams) == 0: assert len(sd.node_successors(node_id, compute=True)) == 0`
sd = SuccessionDiagram.from_rules("A, B\nB, A")
truth = sorted(key(x) for x in trappist(sd.petri_net, problem="min"))
completed = sd.expand_scc()
found = sorted(key(sd.node_data(i)["space"]) for i in sd.minimal_trap_spaces())
print("asserts enabled:", __debug__, "| expand_scc() ->", completed, "| minimal trap spaces:", found, "| truth:", truth)
print("stubs left:", list(sd.stub_ids()))
ok1 = (not completed) or found == truth

# 2) two source SCCs: the sub-diagrams are expanded recursively by the same function, their
#    fixed points stay stubs and attaching them fails with a KeyError
ok2 = True
try:
    sd = SuccessionDiagram.from_rules("A, B\nB, A\nC, D\nD, C")
    sd.expand_scc()
except KeyError as e:
    print("two source SCCs: expand_scc() raised KeyError:", e)
    ok2 = False
sys.exit(0 if (ok1 and ok2) else 3)
"""

normal = subprocess.run([sys.executable, "-c", CHILD])
optimized = subprocess.run([sys.executable, "-O", "-c", CHILD])
print("exit code with asserts:", normal.returncode, "| exit code with -O:", optimized.returncode)
assert normal.returncode == 0
if optimized.returncode != 0:
    print("VIOLATION REPRODUCED: expand_scc() is only correct when assert statements are executed")
    sys.exit(1)
print("not reproduced")
