"""
C17 on the UNCHANGED library: the result of the default `build()` / `expand_block()`
(and of `expand_scc()` and `expand_minimal_spaces()`) depends on the *names* of the
variables.

Run as:  cd <worktree> && /venv/bin/python repro.py      (exits 1 and prints the differences)
"""
import sys

import biobalm
from biobalm import SuccessionDiagram

# Two independent modules: a positive feedback loop (A, B) and a toggle switch (C, D).
P1 = """targets,factors
A, B
B, A
C, !D
D, !C
E, A & C
"""

# The same network after the renaming A<->C, B<->D (E keeps its name).
RENAME = {"A": "C", "B": "D", "C": "A", "D": "B", "E": "E"}
P2 = """targets,factors
C, D
D, C
A, !B
B, !A
E, C & A
"""


def dump(sd: SuccessionDiagram, rename=None):
    """Canonical, name-order independent description of a diagram."""

    def canon(space):
        if rename is not None:
            space = {rename[k]: v for k, v in space.items()}
        return tuple(sorted(space.items()))

    result = {}
    for i in sd.node_ids():
        data = sd.node_data(i)
        children = None
        if data["expanded"]:
            children = tuple(sorted(canon(sd.node_data(s)["space"]) for s in sd.node_successors(i)))
        result[canon(data["space"])] = (data["expanded"], data["depth"], children)
    return result


failed = False
for strategy in ("build", "block(no maa)", "scc", "minimal", "bfs"):
    a = SuccessionDiagram.from_rules(P1)
    b = SuccessionDiagram.from_rules(P2)
    for sd in (a, b):
        if strategy == "build":
            sd.build()
        elif strategy == "block(no maa)":
            sd.expand_block(find_motif_avoidant_attractors=False)
        elif strategy == "scc":
            sd.expand_scc()
        elif strategy == "minimal":
            sd.expand_minimal_spaces()
        else:
            sd.expand_bfs()
    # `b` is translated back to the names of `a`. (RENAME is an involution.)
    da, db = dump(a), dump(b, RENAME)
    same = da == db
    print(f"{strategy:14s} |a|={len(a)} |b|={len(b)} identical up to renaming: {same}")
    if not same:
        failed = True
        for space in sorted(set(da) | set(db)):
            if da.get(space) != db.get(space):
                print("    ", dict(space))
                print("        original:", da.get(space, "missing")[:2] if space in da else "missing")
                print("        renamed :", db.get(space, "missing")[:2] if space in db else "missing")

sys.exit(1 if failed else 0)
