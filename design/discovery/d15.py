"""F12 probe (dynamic, discovery aid only -- not a check): seeds after expand_scc() vs AEON attractors.
usage: d15.py lo hi   (seed range of random networks; hand-written gated-MAA networks always run first)"""
import random, signal, sys
from multiprocessing import Pool
sys.path.insert(0, __file__.rsplit("/", 1)[0])
from d3 import gen

GATED = {
 "gated_maa_chain": "targets,factors\nA, (!A & !B | C) & X1\nB, (!A & !B | C) & X1\nC, A & B\nX1, Y1\nY1, X1\nX2, Y2 & X1\nY2, X2\n",
 "gated_maa2_chain": "targets,factors\nA, (!C | (A & B & C)) & X1\nB, (!A | (A & B & C)) & X1\nC, (!B | (A & B & C)) & X1\nX1, Y1\nY1, X1\nX2, Y2 & X1\nY2, X2\n",
 "two_scc_maa": "targets,factors\nA, (!A & !B | C)\nB, (!A & !B | C)\nC, A & B\nX2, Y2\nY2, X2\nZ, A & X2\n",
}
class TO(Exception): pass
def handler(s, f): raise TO()

def check(rules, maa=True):
    from biobalm import SuccessionDiagram
    from biodivine_aeon import AsynchronousGraph, Attractors, BooleanNetwork
    bn = BooleanNetwork.from_bnet(rules).infer_valid_graph(); stg = AsynchronousGraph(bn)
    atts = [a.vertices() for a in Attractors.attractors(stg, stg.mk_unit_colored_vertices())]
    sd = SuccessionDiagram.from_rules(rules)
    if not sd.expand_scc(maa): return "expand_scc returned False"
    seeds = [s for n in sd.expanded_ids() for s in sd.node_attractor_seeds(n, compute=True)]
    hit = [0] * len(atts)
    for s in seeds:
        f = [i for i, a in enumerate(atts) if stg.mk_subspace(s).vertices().is_subset(a)]
        if len(f) != 1: return f"seed {s} in {len(f)} attractors"
        hit[f[0]] += 1
    if any(h != 1 for h in hit): return f"seeds per attractor: {hit}"
    return None

def run(seed):
    signal.signal(signal.SIGALRM, handler); signal.alarm(60)
    rules = gen(seed)
    try:
        r = check(rules)
        signal.alarm(0)
        return (seed, r, rules) if r else None
    except TO: return (seed, "TIMEOUT", rules)
    except Exception as e:
        signal.alarm(0); return (seed, f"EXC {type(e).__name__} {e}", rules)

if __name__ == "__main__":
    for k, r in GATED.items():
        print(k, "->", check(r) or "ok")
    lo, hi = int(sys.argv[1]), int(sys.argv[2]); bad = 0
    with Pool(15) as p:
        for res in p.imap_unordered(run, range(lo, hi), chunksize=20):
            if res:
                bad += 1
                if bad < 8: print(repr(res)[:500], flush=True)
    print("DONE problems:", bad)
