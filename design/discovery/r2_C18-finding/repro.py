"""
UNCHANGED library: with expand_scc() the part of the free-input diagram below an input
valuation is NOT isomorphic to the diagram of the network with the inputs fixed, when
fixing the inputs turns further variables into source variables.

Run as:  cd <worktree> && /venv/bin/python repro.py     (exits 1 while the discrepancy is present)
"""
import sys
import networkx as nx

import biobalm
from biobalm import SuccessionDiagram

CORE = """
x0, x0 & !i1
x1, x2 & i0 & !x0
x2, i0 & x2
"""
# With i0=1, i1=0 the functions become  x0 <- x0,  x2 <- x2  (two new source variables),
# x1 <- x2 & !x0.


def rules(i0, i1):
    return f"i0, {i0}\ni1, {i1}\n" + CORE


def frozen(space):
    return tuple(sorted(space.items()))


problems = []
for method in ["bfs", "block", "scc"]:
    free = SuccessionDiagram.from_rules(rules("i0", "i1"))
    fixed = SuccessionDiagram.from_rules(rules("true", "false"))
    for sd in (free, fixed):
        assert getattr(sd, {"bfs": "expand_bfs", "block": "expand_block", "scc": "expand_scc"}[method])()

    top = free.find_node(fixed.node_data(fixed.root())["space"])
    assert top is not None
    part = sorted({top} | nx.descendants(free.dag, top))
    below = {frozen(free.node_data(n)["space"]) for n in part}
    alone = {frozen(fixed.node_data(n)["space"]) for n in fixed.node_ids()}
    n_free = sum(len(free.node_attractor_seeds(n, compute=True)) for n in part if free.node_data(n)["expanded"])
    n_fixed = sum(len(x) for x in fixed.expanded_attractor_seeds().values())
    print(f"{method:5}: {len(below)} nodes below the node i0=1,i1=0 of the free-input diagram, "
          f"{len(alone)} nodes in the fixed-input diagram; attractors {n_free} vs {n_fixed}")
    if below != alone:
        problems.append(method)
        for extra in sorted(below - alone, key=str):
            print("        only in the free-input diagram:", dict(extra))
    assert n_free == n_fixed == 4

if problems:
    print("NOT ISOMORPHIC for:", problems)
sys.exit(1 if problems else 0)
