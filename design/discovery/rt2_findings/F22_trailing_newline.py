"""F22 (found by a white-box sub-agent, round 2): sanitize_network_names accepted a variable name that ends in a newline.

`re.match("^[a-zA-Z0-9_]+$", name)`: `$` also matches *before* a trailing newline, so "x\n" passed the check next to
"x"; both become the clingo symbol b1_x / b0_x. Run from a checkout of biobalm:

    PYTHONPATH=. python F22_trailing_newline.py        # exits 1 before commit c0c7271, 0 after
"""
import sys

from biodivine_aeon import BooleanNetwork

from biobalm.petri_net_translation import sanitize_network_names

bn = BooleanNetwork(["x", "x\n"])
try:
    sanitize_network_names(bn, check_only=True)
except RuntimeError:
    fixed = sanitize_network_names(bn)
    names = [fixed.get_variable_name(v) for v in fixed.variables()]
    assert len(set(names)) == 2 and all(n.isidentifier() for n in names), names
    sys.exit(0)
print("check_only accepted the name 'x\\n' next to 'x'")
sys.exit(1)
