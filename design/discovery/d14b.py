import random, itertools
from biobalm import SuccessionDiagram
def tt_to_expr(names, tt):
    terms = []
    for bits, out in zip(itertools.product([0,1], repeat=len(names)), tt):
        if out: terms.append("(" + " & ".join((n if b else "!"+n) for n, b in zip(names, bits)) + ")")
    return " | ".join(terms) if terms else "false"
rng = random.Random(3); found=0
for it in range(3000):
    lines=[]
    for comp in ("p","q"):
        names=[f"{comp}{i}" for i in range(3)]
        for v in names:
            lines.append(f"{v}, {tt_to_expr(names, [rng.randint(0,1) for _ in range(8)])}")
    rules="\n".join(lines)
    cfg = SuccessionDiagram.default_config(); cfg["attractor_candidates_limit"] = 1; cfg["retained_set_optimization_threshold"] = 1
    try:
        sd = SuccessionDiagram.from_rules(rules, config=cfg)
    except Exception: continue
    try:
        sd.expand_scc(); continue
    except RuntimeError as e:
        msg=str(e); raised=globals().get('raised',0)+1; globals()['raised']=raised
    except AssertionError: continue
    full = SuccessionDiagram.from_rules(rules); full.expand_bfs()
    wrong=[]
    for n in sd.node_ids():
        if sd.node_data(n)["expanded"]:
            fid = full.find_node(sd.node_data(n)["space"])
            if fid is None or sorted(full.node_data(s)["space"].items() for s in full.node_successors(fid)) != sorted(sd.node_data(s)["space"].items() for s in sd.node_successors(n)):
                if len(sd.node_successors(n))==0 and fid is not None and not full.node_is_minimal(fid):
                    wrong.append((n, sd.node_data(n)["space"]))
    if wrong:
        found+=1; print("RAISED:", msg[:50], "| corrupted:", wrong[:2], "| rules:", repr(rules)[:300])
        if found>=2: break
print("found", found, "raised", globals().get("raised"))
