import pickle, itertools, random
from biobalm import SuccessionDiagram
from biodivine_aeon import AsynchronousGraph, Attractors, BooleanNetwork
print("--- D8a: 10 inputs, unexpanded root, default config")
rules = "\n".join(f"x{i}, x{i}" for i in range(10))
sd = SuccessionDiagram.from_rules(rules)
c = sd.node_attractor_candidates(0, compute=True)
print(" candidates:", len(c), " (true number of attractors = 1024)")
print("--- D8a2: 4 inputs, threshold=4")
rules = "\n".join(f"x{i}, x{i}" for i in range(4))
cfg = SuccessionDiagram.default_config(); cfg["retained_set_optimization_threshold"]=4
sd = SuccessionDiagram.from_rules(rules, config=cfg)
print(" candidates:", len(sd.node_attractor_candidates(0, compute=True)), "(true 16)")

print("--- D8c: limit 0")
cfg = SuccessionDiagram.default_config(); cfg["attractor_candidates_limit"]=0
sd = SuccessionDiagram.from_rules("a, a\nb, b\nc, !c", config=cfg)
try:
    print(" candidates (greedy off):", sd.node_attractor_candidates(0, compute=True, greedy_asp_minification=False))
except Exception as e: print(" raised", e)
cfg = SuccessionDiagram.default_config(); cfg["max_motifs_per_node"]=0
sd = SuccessionDiagram.from_rules("a, a\nb, b\nc, !c", config=cfg)
try:
    print(" successors with max_motifs=0:", sd.node_successors(0, compute=True), "expanded", sd.node_data(0)["expanded"])
except Exception as e: print(" raised", e)

print("--- D8d: pickle with attractor sets")
sd = SuccessionDiagram.from_rules("x, (x & !y) | (!x & y)\ny, (y & !x) | (!y & x)")
sd.build()
print(" sets:", [sd.node_data(n)["attractor_sets"] for n in sd.node_ids()])
try:
    sd2 = pickle.loads(pickle.dumps(sd)); print(" pickle ok", sd2.summary()==sd.summary())
except Exception as e: print(" pickle FAILED:", type(e).__name__, e)
sd = SuccessionDiagram.from_rules("a, b\nb, a\nc, !c | a")
sd.expand_bfs(); sd.node_percolated_network(0, compute=True); sd.node_percolated_petri_net(0, compute=True)
try:
    sd2 = pickle.loads(pickle.dumps(sd)); print(" pickle w/ percolated network ok")
except Exception as e: print(" pickle FAILED:", type(e).__name__, e)
sd.expanded_attractor_sets()
try:
    sd2 = pickle.loads(pickle.dumps(sd)); print(" pickle w/ sets ok", [sd2.node_data(n)["attractor_sets"] for n in sd2.node_ids()])
except Exception as e: print(" pickle FAILED:", type(e).__name__, e)
