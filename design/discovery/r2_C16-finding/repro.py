"""Unchanged library: after a pickle round trip, a later expansion numbers the new nodes differently
than the untouched diagram (run as `cd <worktree> && /venv/bin/python repro.py`; exit 1 = defect)."""
import pickle

from biodivine_aeon import BooleanNetwork

from biobalm import SuccessionDiagram
from biobalm.petri_net_translation import sanitize_network_names

# Variables after sanitisation: (c, x_b, x_a_) - not ordered by name.
# (The same happens for BooleanNetwork(["z", "b", "a"]) built through the constructor.)
bn = sanitize_network_names(
    BooleanNetwork.from_bnet("x{a}, x{a}\nx_b, x_b\nc, c & (x{a} | x_b)\n")
)

sd = SuccessionDiagram(bn)                      # untouched
copy = pickle.loads(pickle.dumps(sd))           # serialized before any expansion
print(sd.network.variable_names(), "->", copy.network.variable_names())

sd.expand_bfs()
copy.expand_bfs()
assert len(sd) == len(copy) and sd.is_isomorphic(copy)   # same diagram up to renaming ...

different = [
    (n, sd.node_data(n)["space"], copy.node_data(n)["space"])
    for n in sd.node_ids()
    if sd.node_data(n)["space"] != copy.node_data(n)["space"]
]
for row in different:
    print("node id %d: untouched %s / unpickled %s" % row)
# ... but node ids are not preserved.
assert not different, "node ids differ between the untouched and the unpickled diagram"
