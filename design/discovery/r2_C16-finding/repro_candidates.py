"""Unchanged library: node_attractor_candidates() answers differently after reclaim_node_data()."""
from biobalm import SuccessionDiagram

sd = SuccessionDiagram.from_rules("a, !b\nb, a\nc, c | (a & b)\n")
assert sd.expand_bfs()
sd.node_attractor_candidates(
    0, compute=True, greedy_asp_minification=False, simulation_minification=False
)
sd.node_attractor_seeds(0, compute=True)
before = list(sd.node_attractor_candidates(0))
sd.reclaim_node_data()
after = list(sd.node_attractor_candidates(0))
print("before:", before, "after:", after)
assert before == after, "candidates query changed by reclaim_node_data()"
