import random, itertools, signal, sys
from multiprocessing import Pool
from d3 import gen
class TO(Exception): pass
def handler(s,f): raise TO()
def run(seed):
    from biobalm import SuccessionDiagram
    from biodivine_aeon import AsynchronousGraph, Attractors, BooleanNetwork
    rules = gen(seed); out=[]
    signal.signal(signal.SIGALRM, handler)
    bn = BooleanNetwork.from_bnet(rules).infer_valid_graph(); stg = AsynchronousGraph(bn)
    for mode in ("bfs", "block", "unexpanded"):
        signal.alarm(25)
        try:
            sd = SuccessionDiagram.from_rules(rules)
            if mode == "bfs": sd.expand_bfs()
            elif mode == "block": sd.expand_block()
            ids = list(sd.expanded_ids()) if mode=="block" else list(sd.node_ids()); seeds = [s for n in ids for s in sd.node_attractor_seeds(n, compute=True)]
            signal.alarm(0)
            atts = list(Attractors.attractors(stg, stg.mk_unit_colored_vertices()))
            ok=True
            for s in seeds:
                f=[i for i,a in enumerate(atts) if stg.mk_subspace(s).is_subset(a)]
                if not f: ok=False; break
                atts.pop(f[0])
            if atts: ok=False
            if not ok: out.append((seed, mode, "MISMATCH", rules, seeds))
        except TO:
            out.append((seed, mode, "TIMEOUT", rules))
        except Exception as e:
            signal.alarm(0); out.append((seed, mode, "EXC %s %s"%(type(e).__name__, e), rules))
    return out
if __name__ == "__main__":
    k=0
    with Pool(15) as p:
        for res in p.imap_unordered(run, range(int(sys.argv[1]), int(sys.argv[2])), chunksize=20):
            for r in res:
                k+=1
                if k < 15: print(repr(r)[:500], flush=True)
    print("DONE problems:", k)
