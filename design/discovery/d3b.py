import signal, traceback, sys
from biobalm import SuccessionDiagram
rules = 'v0, (!v0 & !v2) | (v0 & !v2)\nv1, (v0 & !v3)\nv2, (!v0 & v2 & !v3) | (v0 & !v2 & v3) | (v0 & v2 & !v3) | (v0 & v2 & v3)\nv3, (!v0 & !v2 & v3) | (!v0 & v2 & !v3) | (v0 & !v2 & v3) | (v0 & v2 & v3)'
class TO(Exception): pass
def h(s,f): raise TO()
signal.signal(signal.SIGALRM, h)
sd = SuccessionDiagram.from_rules(rules)
sd.expand_bfs()
print("nodes", [(n, sd.node_data(n)["space"], sd.node_successors(n)) for n in sd.node_ids()])
for n in sd.node_ids():
    signal.alarm(5)
    try:
        print(n, sd.node_attractor_candidates(n, compute=True))
        print(n, sd.node_attractor_seeds(n, compute=True))
        signal.alarm(0)
    except TO:
        print("TIMEOUT at node", n)
        traceback.print_exc(limit=4)
