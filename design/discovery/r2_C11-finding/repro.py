"""
percolation_conflicts(network, space) with the default strict_percolation=True can never report a conflict.

Run as:  cd <biobalm checkout> && /venv/bin/python repro.py
Exit code 1 (with a report) when the defect is present, 0 otherwise.
"""
import itertools
import sys

from biodivine_aeon import AsynchronousGraph, BooleanNetwork

from biobalm.space_utils import percolate_space_strict, percolation_conflicts

# 1) The docstring example of a conflict (taken from tests/space_utils_test.py): b = !c, but b = c = 0.
rules = "a, b\nb, !c\nc, a"
graph = AsynchronousGraph(BooleanNetwork.from_bnet(rules))
space = {"a": 0, "b": 0, "c": 0}
loose = percolation_conflicts(graph, space, strict_percolation=False)
strict = percolation_conflicts(graph, space)  # default: strict_percolation=True
print("non-strict:", loose, " strict (default):", strict)
# no constants are involved, the strict propagation itself notices the clash on b
# (percolate_space_strict leaves b out of its result because f_b = 1 != 0):
print("strict percolation:", percolate_space_strict(graph, space))

# 2) Exhaustively: all partial assignments of a few networks.
NETWORKS = [
    rules,
    "a, !b\nb, a\nc, a & c & d | b & !c | c & !d\nd, !a | d",
    "x, x\ny, x\nz, !y",
    "a, !a\nb, a | !b\nc, b & !a",
]
total = with_conflict = reported = 0
for r in NETWORKS:
    g = AsynchronousGraph(BooleanNetwork.from_bnet(r))
    names = g.network_variable_names()
    for vals in itertools.product([None, 0, 1], repeat=len(names)):
        s = {k: v for k, v in zip(names, vals) if v is not None}
        total += 1
        if percolation_conflicts(g, s, strict_percolation=False):
            with_conflict += 1
        if percolation_conflicts(g, s):
            reported += 1
print(f"{total} spaces, {with_conflict} have a conflict (non-strict), default mode reported {reported}")

if loose == {"b"} and strict == set() and reported == 0:
    print("DEFECT: the default (strict) mode of percolation_conflicts is vacuous")
    sys.exit(1)
