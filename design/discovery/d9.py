import itertools, random, sys
from multiprocessing import Pool
def tt_to_expr(names, tt):
    terms = []
    for bits, out in zip(itertools.product([0,1], repeat=len(names)), tt):
        if out: terms.append("(" + " & ".join((n if b else "!"+n) for n, b in zip(names, bits)) + ")")
    return " | ".join(terms) if terms else "false"
def gen(seed):
    rng = random.Random(seed); n = rng.choice([3,4,5])
    names = [f"v{i}" for i in range(n)]; lines=[]
    for v in names:
        k = rng.randint(1, 3); regs = sorted(rng.sample(names, k))
        lines.append(f"{v}, {tt_to_expr(regs, [rng.randint(0,1) for _ in range(2**k)])}")
    return "\n".join(lines)
def run(seed):
    from biobalm import SuccessionDiagram
    from biodivine_aeon import AsynchronousGraph, Attractors, BooleanNetwork
    rules = gen(seed); out=[]
    bn = BooleanNetwork.from_bnet(rules).infer_valid_graph(); stg = AsynchronousGraph(bn)
    atts = [a for a in Attractors.attractors(stg, stg.mk_unit_colored_vertices())]
    for thr in (0,1,2,3):
      for greedy in (True, False):
        for sim in (False,):   # simulation can stall? keep off here
          for expand in (False, True):
            cfg = SuccessionDiagram.default_config(); cfg["retained_set_optimization_threshold"]=thr
            sd = SuccessionDiagram.from_rules(rules, config=cfg)
            if expand: sd.expand_bfs()
            for n in sd.node_ids():
                try:
                    c = sd.node_attractor_candidates(n, compute=True, greedy_asp_minification=greedy, simulation_minification=sim)
                except RuntimeError: continue
                space = stg.mk_subspace(sd.node_data(n)["space"])
                succ = stg.mk_empty_colored_vertices()
                if sd.node_data(n)["expanded"]:
                    for s in sd.node_successors(n): succ = succ.union(stg.mk_subspace(sd.node_data(s)["space"]))
                for a in atts:
                    if a.is_subset(space) and not a.is_subset(succ) and a.intersect(succ).is_empty():
                        if not any(stg.mk_subspace(x).is_subset(a) for x in c):
                            out.append((seed, thr, greedy, expand, n, rules, c)); break
    return out
if __name__ == "__main__":
    with Pool(14) as p:
        k=0
        for res in p.imap_unordered(run, range(int(sys.argv[1]), int(sys.argv[2])), chunksize=10):
            for r in res:
                k+=1
                if k<=12: print(repr(r), flush=True)
    print("DONE total uncovered cases:", k)
