import random, itertools, signal, sys, os
from multiprocessing import Pool
def tt_to_expr(names, tt):
    terms = []
    for bits, out in zip(itertools.product([0,1], repeat=len(names)), tt):
        if out:
            terms.append("(" + " & ".join((n if b else "!"+n) for n, b in zip(names, bits)) + ")")
    return " | ".join(terms) if terms else "false"
def gen(seed):
    rng = random.Random(seed)
    n = rng.choice([4,5,6,7,8])
    names = [f"v{i}" for i in range(n)]
    lines=[]
    for v in names:
        k = rng.randint(1, 3)
        regs = sorted(rng.sample(names, k))
        tt = [rng.randint(0,1) for _ in range(2**k)]
        lines.append(f"{v}, {tt_to_expr(regs, tt)}")
    return "\n".join(lines)
class TO(Exception): pass
def handler(s,f): raise TO()
def run(seed):
    import io, contextlib
    from biobalm import SuccessionDiagram
    rules = gen(seed)
    signal.signal(signal.SIGALRM, handler)
    out = []
    for mode in ("bfs_all", "unexpanded_root"):
        signal.alarm(25)
        try:
            sd = SuccessionDiagram.from_rules(rules)
            if mode == "bfs_all":
                sd.expand_bfs()
            for n in sd.node_ids():
                sd.node_attractor_seeds(n, compute=True)
            signal.alarm(0)
        except TO:
            out.append((seed, mode, "TIMEOUT", rules))
        except Exception as e:
            signal.alarm(0)
            out.append((seed, mode, "EXC %s %s" % (type(e).__name__, e), rules))
    return out
if __name__ == "__main__":
    lo, hi = int(sys.argv[1]), int(sys.argv[2])
    with Pool(14) as p:
        for res in p.imap_unordered(run, range(lo, hi), chunksize=20):
            for r in res:
                print(repr(r), flush=True)
    print("DONE")
