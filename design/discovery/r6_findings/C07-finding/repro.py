"""
Reproducer: for the target {} (the whole state space) the unchanged library does not
return the "no control needed" answer when the root of the diagram fixes no variable.

Run as:  cd <worktree> && /venv/bin/python repro.py     (exits non-zero on the clean tree)
"""
import biobalm
from biobalm import SuccessionDiagram
from biobalm.control import succession_control, successions_to_target

RULES = """
a1, a2
a2, a1
"""

# Every minimal trap space lies inside the target {}, so the outermost trap space all of
# whose minimal trap spaces lie in the target is the root itself: the expected answer is the
# single empty succession [[]] ("no control needed"), as for test_no_control_needed.
sd = SuccessionDiagram.from_rules(RULES)
succ = successions_to_target(sd, {})
print("successions for target {}:", succ)
for i in succession_control(SuccessionDiagram.from_rules(RULES), {}):
    print("  ", repr(i))

# The same network with an additional constant: the root space is {c: 1}, the
# intersection with the target is a non-empty dict, and the answer is [[]].
sd2 = SuccessionDiagram.from_rules(RULES + "c, true\n")
succ2 = successions_to_target(sd2, {})
print("same network plus a constant:", succ2)

assert succ2 == [[]]
assert succ == [[]], f"expected [[]], got {succ}"
