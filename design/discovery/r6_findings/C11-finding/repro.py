"""percolation_conflicts(..., strict_percolation=True) (the default) never reports anything.

Run as: cd <worktree> && /venv/bin/python repro.py   (exits 1 on the unchanged library)
"""
from biodivine_aeon import AsynchronousGraph, BooleanNetwork

import biobalm  # noqa: F401
from biobalm.space_utils import percolate_space_strict, percolation_conflicts

# b is given as 0, but its update function !c is constant 1 on the given space.
g = AsynchronousGraph(BooleanNetwork.from_bnet("a, b\nb, !c\nc, a\n"))
space = {"a": 0, "b": 0, "c": 0}
print("strict result     :", percolate_space_strict(g, space))  # {'a': 0, 'c': 0}; b left out = conflict
print("non-strict        :", percolation_conflicts(g, space, strict_percolation=False))  # {'b'}
print("strict (default)  :", percolation_conflicts(g, space))  # set()

# x=1 drives y=1, which drives x towards 0.
g2 = AsynchronousGraph(BooleanNetwork.from_bnet("x, !y\ny, x\n"))
print("non-strict        :", percolation_conflicts(g2, {"x": 1}, strict_percolation=False))  # {'x'}
print("strict (default)  :", percolation_conflicts(g2, {"x": 1}))  # set()

assert percolation_conflicts(g, space) == {"b"}
assert percolation_conflicts(g2, {"x": 1}) == {"x"}
