import random, itertools, sys
import networkx as nx
from biobalm import SuccessionDiagram
from biodivine_aeon import BooleanNetwork

def longest_depths(sd):
    d = {}
    for n in nx.topological_sort(sd.dag):
        preds = list(sd.dag.predecessors(n))
        d[n] = 0 if not preds else max(d[p] + 1 for p in preds)
    return d

def rand_net(n, rng):
    names = [f"x{i}" for i in range(n)]
    lines = []
    for v in names:
        k = rng.randint(1, min(3, n))
        regs = rng.sample(names, k)
        # random DNF
        terms = []
        for _ in range(rng.randint(1, 2)):
            lits = [(("!" if rng.random() < 0.4 else "") + r) for r in rng.sample(regs, rng.randint(1, k))]
            terms.append("(" + " & ".join(lits) + ")")
        lines.append(f"{v}, " + " | ".join(terms))
    return "\n".join(lines)

rng = random.Random(1)
found = 0
for it in range(3000):
    rules = rand_net(rng.randint(3, 6), rng)
    try:
        sd = SuccessionDiagram.from_rules(rules)
    except Exception as e:
        continue
    for strat in ("bfs", "dfs"):
        sd = SuccessionDiagram.from_rules(rules)
        (sd.expand_bfs if strat == "bfs" else sd.expand_dfs)()
        ld = longest_depths(sd)
        bad = [(n, sd.node_data(n)["depth"], ld[n]) for n in sd.node_ids() if sd.node_data(n)["depth"] != ld[n]]
        if bad:
            found += 1
            print("DEPTH MISMATCH", strat, repr(rules), bad, "sd.depth()", sd.depth(), "true", max(ld.values()))
            break
    if found >= 3: break
print("done", found)
