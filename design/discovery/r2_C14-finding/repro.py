"""
C14 finding: the UNCHANGED library keeps stale attractor candidates when an unexpanded node
receives successors through the source-node shortcut of `expand_block` (expand_source_blocks)
or `expand_scc` (expand_source_SCCs, root). Both shortcuts set `attractor_seeds = []` and
`attractor_sets = []` but leave `attractor_candidates` untouched.

Run as: cd <worktree> && /venv/bin/python repro.py
Exits 1 if the violation is observed, 0 otherwise.
"""

import sys

import biobalm  # noqa: F401
from biobalm import SuccessionDiagram

# `I` is an input (source) variable; for I=1, A/B oscillate, for I=0, A/B is a bistable switch.
RULES = """targets,factors
I, I
A, !B & I | A & !I
B, A
"""


def in_space(state, space):
    return all(state[k] == v for k, v in space.items())


violations = 0
for name in ["expand_block", "expand_scc", "expand_bfs"]:
    sd = SuccessionDiagram.from_rules(RULES)
    root = sd.root()
    before = sd.node_attractor_candidates(root, compute=True)  # query the unexpanded root
    assert len(before) == 3
    getattr(sd, name)()  # gives the root its successors
    assert sd.node_data(root)["expanded"] and len(sd.node_successors(root)) == 2

    try:
        reported = sd.node_attractor_candidates(root, compute=False)
    except KeyError:
        reported = None

    # Ground truth: the same expansion on a diagram that was never queried.
    ref = SuccessionDiagram.from_rules(RULES)
    getattr(ref, name)()
    correct = ref.node_attractor_candidates(ref.root(), compute=True)
    assert correct == []  # every state lies in one of the two successors (I=0 / I=1)

    succ_spaces = [sd.node_data(s)["space"] for s in sd.node_successors(root)]
    stale = reported is not None and any(
        in_space(c, sp) for c in reported for sp in succ_spaces
    )
    print(f"{name:12s}: reported without recomputation = {reported}; correct = {correct}")
    if stale:
        violations += 1
        listed = sd.expanded_attractor_candidates()
        print(f"{'':12s}  expanded_attractor_candidates() lists the root: {root in listed}")

sys.exit(1 if violations else 0)
