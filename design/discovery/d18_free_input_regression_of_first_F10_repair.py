"""
Reproducer for a C17 violation of the UNCHANGED library (see finding.md).
Run as: cd <tree> && /venv/bin/python /tmp/seed_out/C17/finding_repro.py
"""
import os
import sys

sys.path.insert(0, os.getcwd())

from biodivine_aeon import BooleanNetwork
from biobalm import SuccessionDiagram

# `i` is an input that `a` depends on only syntactically. In the first text the input
# is written as an identity rule, in the second it is left undeclared (a free input).
with_identity = "a, (a & i) | (a & !i)\nb, !a\ni, i\n"
free_input = "a, (a & i) | (a & !i)\nb, !a\n"

ok = SuccessionDiagram.from_rules(with_identity)
ok.expand_bfs()
print("identity input :", ok.network.variable_names(), "->", len(ok), "nodes")

sd = SuccessionDiagram.from_rules(free_input)
print("free input     : BooleanNetwork has", BooleanNetwork.from_bnet(free_input).variable_names())
print("                 sd.network has    ", sd.network.variable_names())
print("                 sd.petri_net places", sorted(n for n in sd.petri_net.nodes if n.startswith("b0_")))
try:
    sd.expand_bfs()
    print("                 ->", len(sd), "nodes")
except Exception as e:
    print("                 expand_bfs raised", repr(e))

# Silent variant: an isolated free input (expressible in SBML) disappears.
bn = BooleanNetwork.from_bnet("x0, x0\nx1, x1\nx2, x1\n")
ref = SuccessionDiagram(bn)
ref.build()
for v in ["x0", "x1"]:
    bn.set_update_function(v, None)
    bn.remove_regulation(v, v)
sbml = bn.to_sbml()
print("sbml network   :", BooleanNetwork.from_sbml(sbml).variable_names())
sd2 = SuccessionDiagram.from_rules(sbml, format="sbml")
sd2.build()
print("identity inputs:", len(ref), "nodes; minimal trap spaces", [ref.node_data(i)["space"] for i in ref.minimal_trap_spaces()])
print("free inputs    :", len(sd2), "nodes; minimal trap spaces", [sd2.node_data(i)["space"] for i in sd2.minimal_trap_spaces()])
