import pickle
from biodivine_aeon import BooleanNetwork, RegulatoryGraph
from biobalm import SuccessionDiagram
bn = BooleanNetwork.from_bnet("zeta, alpha\nalpha, zeta\nmid, !mid | alpha")
print("bnet order:", bn.variable_names())
rg = RegulatoryGraph(["zeta","alpha","mid"])
bn2 = BooleanNetwork(["zeta","alpha","mid"])
print("programmatic order:", bn2.variable_names())
bn2.add_regulation("alpha -> zeta"); bn2.add_regulation("zeta -> alpha"); bn2.add_regulation("mid -? mid"); bn2.add_regulation("alpha -> mid")
bn2.set_update_function("zeta","alpha"); bn2.set_update_function("alpha","zeta"); bn2.set_update_function("mid","!mid | alpha")
print("aeon text roundtrip order:", BooleanNetwork.from_aeon(bn2.to_aeon()).variable_names())
sd = SuccessionDiagram(bn2); sd.expand_bfs()
print("nodes:", [(n, sd.node_data(n)["space"]) for n in sd.node_ids()])
sd2 = pickle.loads(pickle.dumps(sd))
print("orig find:", [sd.find_node(sd.node_data(n)["space"]) for n in sd.node_ids()])
print("copy find:", [sd2.find_node(sd2.node_data(n)["space"]) for n in sd2.node_ids()])
print("copy network order:", sd2.network.variable_names(), " orig:", sd.network.variable_names())
# sanitize
bn3 = BooleanNetwork(["a{1}", "a_1_", "b"])
from biobalm.petri_net_translation import sanitize_network_names
try:
    print("sanitized:", sanitize_network_names(bn3).variable_names())
except Exception as e: print("sanitize exc", e)
print(hash(bn.variables()[0]) == hash(bn.variables()[0]), type(bn.variables()[0]).__hash__)
