"""Loading of the analysed package and the resolved program model.

* reads the package list from pyproject.toml ([tool.setuptools].packages)
* parses every module, indexes functions (methods, nested functions)
* import map, call resolution, whole-program call graph
"""

from __future__ import annotations

import ast
import os
import re
import tomllib
from dataclasses import dataclass, field
from pathlib import Path
from typing import Iterator, Optional


class AnalysisError(Exception):
    """The analyser cannot decide (vanished anchor, unparsable input...). Exit 2."""


# --------------------------------------------------------------------------- model


@dataclass
class Module:
    name: str
    path: Path
    src: str
    tree: ast.Module
    imports: dict[str, str] = field(default_factory=dict)  # local alias -> dotted target

    @property
    def rel(self) -> str:
        return str(self.path)


@dataclass
class Func:
    module: Module
    qualname: str  # e.g. SuccessionDiagram._ensure_node, expand_minimal_spaces.make_skip_node
    node: ast.FunctionDef
    cls: Optional[str]
    parent: Optional["Func"]
    _parents: dict | None = None
    _cfg: object = None
    _canon: object = None
    _local_names_cache: object = None

    @property
    def key(self) -> str:
        return f"{self.module.name}:{self.qualname}"

    @property
    def name(self) -> str:
        return self.node.name

    def where(self, node: ast.AST | None = None) -> str:
        line = getattr(node, "lineno", self.node.lineno) if node is not None else self.node.lineno
        return f"{self.module.rel}:{line} ({self.qualname})"

    # parent pointers of the AST inside this function (nested defs excluded)
    @property
    def parents(self) -> dict:
        if self._parents is None:
            p: dict = {}
            for n in own_walk(self.node):
                for c in ast.iter_child_nodes(n):
                    p[c] = n
            self._parents = p
        return self._parents

    def stmt_of(self, node: ast.AST) -> ast.stmt:
        n = node
        while not isinstance(n, ast.stmt):
            n = self.parents[n]
        return n

    def ancestors(self, node: ast.AST) -> Iterator[ast.AST]:
        n = node
        while n in self.parents:
            n = self.parents[n]
            yield n

    def params(self) -> list[str]:
        a = self.node.args
        return [x.arg for x in a.posonlyargs + a.args + a.kwonlyargs]

    def param_defaults(self) -> dict[str, ast.expr]:
        a = self.node.args
        pos = a.posonlyargs + a.args
        res: dict[str, ast.expr] = {}
        for p, d in zip(pos[len(pos) - len(a.defaults):], a.defaults):
            res[p.arg] = d
        for p, d in zip(a.kwonlyargs, a.kw_defaults):
            if d is not None:
                res[p.arg] = d
        return res

    def param_annotation(self, name: str) -> str | None:
        a = self.node.args
        for p in a.posonlyargs + a.args + a.kwonlyargs:
            if p.arg == name and p.annotation is not None:
                return ast.unparse(p.annotation)
        return None


def own_walk(root: ast.AST) -> Iterator[ast.AST]:
    """ast.walk that does not descend into nested function/class definitions
    (the root itself may be a FunctionDef)."""
    stack = [root]
    first = True
    while stack:
        n = stack.pop()
        if not first and isinstance(n, (ast.FunctionDef, ast.AsyncFunctionDef, ast.ClassDef)):
            yield n  # the def statement itself is part of the enclosing body
            continue
        first = False
        yield n
        stack.extend(reversed(list(ast.iter_child_nodes(n))))


def own_stmts(body: list[ast.stmt]) -> Iterator[ast.stmt]:
    """All statements nested in `body` (not descending into nested defs)."""
    for s in body:
        yield s
        if isinstance(s, (ast.FunctionDef, ast.AsyncFunctionDef, ast.ClassDef)):
            continue
        for fld in ("body", "orelse", "finalbody"):
            sub = getattr(s, fld, None)
            if sub and isinstance(sub, list) and sub and isinstance(sub[0], ast.stmt):
                yield from own_stmts(sub)
        if isinstance(s, ast.Try):
            for h in s.handlers:
                yield from own_stmts(h.body)


def _lower_comp(comp, emit, counter: list) -> list[ast.stmt]:
    """Nested for/if statements equivalent to the comprehension; `emit(elt)` builds the innermost statement. Targets are
    renamed apart (a comprehension has its own scope)."""
    import copy
    comp = copy.deepcopy(comp)
    counter[0] += 1
    names = {y.id for g in comp.generators for y in ast.walk(g.target) if isinstance(y, ast.Name)}
    ren = {x: f"{x}__c{counter[0]}" for x in names}

    class R(ast.NodeTransformer):
        def visit_Name(self, n):
            return ast.copy_location(ast.Name(ren[n.id], n.ctx), n) if n.id in ren else n
    # the first iterable is evaluated outside the comprehension's scope
    first_iter = comp.generators[0].iter
    comp = R().visit(comp)
    comp.generators[0].iter = first_iter
    inner: list[ast.stmt] = [emit(comp.elt if not isinstance(comp, ast.DictComp) else (comp.key, comp.value))]
    for g in reversed(comp.generators):
        for c in reversed(g.ifs):
            inner = [ast.If(c, inner, [])]
        inner = [ast.For(g.target, g.iter, inner, [])]
        for y in ast.walk(g.target):
            if isinstance(y, ast.Name):
                y.ctx = ast.Store()
    return inner



def _containment_from_quantifier(n: ast.Call) -> ast.expr | None:
    """all((k, v) == x or M.get(k) == v for k, v in A.items())  ->  A.items() <= (M.items() | {x})
    (the values of these mappings are never None, so `M.get(k) == v` says that (k, v) is an item of M)."""
    if not (isinstance(n.func, ast.Name) and n.func.id == "all" and len(n.args) == 1 and not n.keywords
            and isinstance(n.args[0], (ast.GeneratorExp, ast.ListComp)) and len(n.args[0].generators) == 1):
        return None
    g = n.args[0].generators[0]
    if not g.ifs and not g.is_async and isinstance(g.target, ast.Name) and isinstance(g.iter, ast.Call) \
            and isinstance(g.iter.func, ast.Attribute) and g.iter.func.attr == "items" and not g.iter.args:
        # all(item == x or item in M.items() for item in A.items())  ->  A.items() <= (M.items() | {x})
        I = g.target.id
        elt = n.args[0].elt
        parts = elt.values if isinstance(elt, ast.BoolOp) and isinstance(elt.op, ast.Or) else [elt]
        items_, singles_ = [], []
        for p_ in parts:
            if isinstance(p_, ast.Compare) and len(p_.ops) == 1 and isinstance(p_.left, ast.Name) and p_.left.id == I \
                    and not any(isinstance(y, ast.Name) and y.id == I for y in ast.walk(p_.comparators[0])):
                if isinstance(p_.ops[0], ast.Eq):
                    singles_.append(p_.comparators[0])
                    continue
                if isinstance(p_.ops[0], ast.In) and isinstance(p_.comparators[0], ast.Call) and isinstance(p_.comparators[0].func, ast.Attribute) \
                        and p_.comparators[0].func.attr == "items" and not p_.comparators[0].args:
                    items_.append(p_.comparators[0])
                    continue
            return None
        if not items_:
            return None
        rhs_: ast.expr = items_[0]
        for x_ in items_[1:]:
            rhs_ = ast.BinOp(rhs_, ast.BitOr(), x_)
        if singles_:
            rhs_ = ast.BinOp(rhs_, ast.BitOr(), ast.Set(singles_))
        out_ = ast.Compare(g.iter, [ast.LtE()], [rhs_])
        for y in ast.walk(out_):
            ast.copy_location(y, n)
        return out_
    if g.ifs or g.is_async or not (isinstance(g.target, ast.Tuple) and len(g.target.elts) == 2
                                   and all(isinstance(t, ast.Name) for t in g.target.elts)):
        return None
    it = g.iter
    if not (isinstance(it, ast.Call) and isinstance(it.func, ast.Attribute) and it.func.attr == "items" and not it.args):
        return None
    K, V = g.target.elts[0].id, g.target.elts[1].id
    if any(isinstance(y, ast.Name) and y.id in (K, V) for y in ast.walk(it)):
        return None

    def is_pair(e) -> bool:
        return isinstance(e, ast.Tuple) and len(e.elts) == 2 and isinstance(e.elts[0], ast.Name) and e.elts[0].id == K \
            and isinstance(e.elts[1], ast.Name) and e.elts[1].id == V

    def free_of_kv(e) -> bool:
        return not any(isinstance(y, ast.Name) and y.id in (K, V) for y in ast.walk(e))

    def is_get(e):
        if isinstance(e, ast.Call) and isinstance(e.func, ast.Attribute) and e.func.attr == "get" and 1 <= len(e.args) <= 2 \
                and isinstance(e.args[0], ast.Name) and e.args[0].id == K and free_of_kv(e.func.value) \
                and (len(e.args) == 1 or isinstance(e.args[1], ast.Constant) and e.args[1].value is None):
            return e.func.value
        return None
    elt = n.args[0].elt
    parts = elt.values if isinstance(elt, ast.BoolOp) and isinstance(elt.op, ast.Or) else [elt]
    items: list[ast.expr] = []
    singles: list[ast.expr] = []
    for d in parts:
        if isinstance(d, ast.Compare) and len(d.ops) == 1 and isinstance(d.ops[0], ast.Eq):
            a, b = d.left, d.comparators[0]
            if is_pair(a) and free_of_kv(b):
                singles.append(b)
                continue
            if is_pair(b) and free_of_kv(a):
                singles.append(a)
                continue
            m = is_get(a) if isinstance(b, ast.Name) and b.id == V else is_get(b) if isinstance(a, ast.Name) and a.id == V else None
            if m is not None:
                items.append(ast.Call(ast.Attribute(m, "items", ast.Load()), [], []))
                continue
        if isinstance(d, ast.Compare) and len(d.ops) == 1 and isinstance(d.ops[0], ast.In) and is_pair(d.left):
            c = d.comparators[0]
            if isinstance(c, ast.Call) and isinstance(c.func, ast.Attribute) and c.func.attr == "items" and not c.args and free_of_kv(c):
                items.append(c)
                continue
        return None
    if not items:
        return None
    rhs: ast.expr = items[0]
    for x in items[1:]:
        rhs = ast.BinOp(rhs, ast.BitOr(), x)
    if singles:
        rhs = ast.BinOp(rhs, ast.BitOr(), ast.Set(singles))
    out = ast.Compare(it, [ast.LtE()], [rhs])
    for y in ast.walk(out):
        ast.copy_location(y, n)
    return out


_SPLIT_ALL_IFEXP = True     # X = A if c else B  ->  if c: X = A  else: X = B   (always the same thing; done for None sentinels)


def _none_sentinel_ifexp(v: ast.IfExp) -> bool:
    """`None if p is None else F(p)` / `a if x is None else x`: a conditional expression about a None sentinel, which the
    path-condition logic reads better as statements"""
    def is_none_c(e):
        return isinstance(e, ast.Constant) and e.value is None
    t = v.test
    while isinstance(t, ast.UnaryOp) and isinstance(t.op, ast.Not):
        t = t.operand
    none_test = isinstance(t, ast.Compare) and len(t.ops) == 1 and isinstance(t.ops[0], (ast.Is, ast.IsNot)) and is_none_c(t.comparators[0])
    return none_test and (is_none_c(v.body) or is_none_c(v.orelse) or isinstance(t.left, ast.Name))


def _classifying_setcomp(c: ast.expr) -> bool:
    """`{s for s in ids if <test on spaces>}`: a set of nodes chosen by a classification; written as a loop with `add`, it is
    read by the rules that follow such classifications"""
    return isinstance(c, ast.SetComp) and len(c.generators) == 1 and bool(c.generators[0].ifs) \
        and isinstance(c.elt, ast.Name) and isinstance(c.generators[0].target, ast.Name) and c.elt.id == c.generators[0].target.id \
        and any(isinstance(y, ast.Call) and ((isinstance(y.func, ast.Name) and y.func.id in ("intersect", "is_subspace"))
                                             or (isinstance(y.func, ast.Attribute) and y.func.attr == "node_is_minimal"))
                for t in c.generators[0].ifs for y in ast.walk(t))


def _reach_map_dictcomp(c: ast.expr) -> bool:
    """`{s: <.. nx.descendants(G, s) ..> for s in ids}`: a reachability table, read by the rules as the loop that fills it"""
    return isinstance(c, ast.DictComp) and len(c.generators) == 1 and not c.generators[0].ifs and isinstance(c.generators[0].target, ast.Name) \
        and isinstance(c.key, ast.Name) and c.key.id == c.generators[0].target.id \
        and any(isinstance(y, ast.Call) and ((isinstance(y.func, ast.Attribute) and y.func.attr in ("descendants", "ancestors"))
                                             or (isinstance(y.func, ast.Name) and y.func.id in ("descendants", "ancestors")))
                for y in ast.walk(c.value))


class _DropAnn(ast.NodeTransformer):
    """`x: T = v` inside functions -> `x = v` (annotation kept as `_ann`): annotations of locals have no run-time
    meaning, and rules should not depend on whether a local is annotated."""

    def __init__(self):
        self.depth = 0

    def visit_FunctionDef(self, n):
        self.depth += 1
        outer = getattr(self, "local_lists", set())
        params = {a.arg for a in n.args.posonlyargs + n.args.args + n.args.kwonlyargs}
        # locals that hold a list built in this function (literal, comprehension, list()/sorted() call)
        self.local_lists = {t.id for x in ast.walk(n) if isinstance(x, (ast.Assign, ast.AnnAssign)) and x.value is not None
                            and isinstance(x.value, (ast.List, ast.ListComp)) or
                            (isinstance(x, (ast.Assign, ast.AnnAssign)) and isinstance(x.value, ast.Call)
                             and isinstance(x.value.func, ast.Name) and x.value.func.id in ("list", "sorted"))
                            for t in ((x.targets if isinstance(x, ast.Assign) else [x.target]))
                            if isinstance(t, ast.Name)} - params
        self.generic_visit(n)
        self.local_lists = outer
        self.depth -= 1
        return n

    def visit_For(self, n):
        # for i, data in G.nodes(data=True) / G.nodes.items() / G.nodes.data():   ->   for i in G.nodes: data = G.nodes[i]
        self.generic_visit(n)
        # for p in range(a, b): x = L[p]; BODY   ->   for x in L[a:b]: BODY        (p used for nothing else)
        if self.depth > 0 and isinstance(n.target, ast.Name) and isinstance(n.iter, ast.Call) and isinstance(n.iter.func, ast.Name) \
                and n.iter.func.id == "range" and 1 <= len(n.iter.args) <= 2 and not n.iter.keywords and n.body \
                and isinstance(n.body[0], ast.Assign) and len(n.body[0].targets) == 1 and isinstance(n.body[0].targets[0], ast.Name) \
                and isinstance(n.body[0].value, ast.Subscript) and isinstance(n.body[0].value.value, ast.Name) \
                and isinstance(n.body[0].value.slice, ast.Name) and n.body[0].value.slice.id == n.target.id:
            p_ = n.target.id
            uses = sum(1 for st in n.body + n.orelse for y in ast.walk(st) if isinstance(y, ast.Name) and y.id == p_)
            if uses == 1 and len(n.body) > 1:
                lo = n.iter.args[0] if len(n.iter.args) == 2 else None
                hi = n.iter.args[-1]
                sl = ast.Subscript(n.body[0].value.value, ast.Slice(lo, hi, None), ast.Load())
                new = ast.For(ast.Name(n.body[0].targets[0].id, ast.Store()), sl, n.body[1:], n.orelse)
                ast.copy_location(new, n)
                for y in (new.target, sl, sl.slice):
                    ast.copy_location(y, n.target)
                ast.fix_missing_locations(new)
                n = new
        it = n.iter
        G = None
        if isinstance(it, ast.Call) and isinstance(it.func, ast.Attribute):
            f = it.func
            if f.attr == "nodes" and not it.args and len(it.keywords) == 1 and it.keywords[0].arg == "data" \
                    and isinstance(it.keywords[0].value, ast.Constant) and it.keywords[0].value.value is True:
                G = f.value
            elif f.attr in ("items", "data") and not it.args and not it.keywords and isinstance(f.value, ast.Attribute) \
                    and f.value.attr == "nodes":
                G = f.value.value
        if self.depth > 0 and G is not None and isinstance(n.target, ast.Tuple) and len(n.target.elts) == 2 \
                and all(isinstance(t, ast.Name) for t in n.target.elts) \
                and not any(isinstance(y, ast.Call) for y in ast.walk(G)):
            import copy as _copy
            i_, d_ = n.target.elts[0].id, n.target.elts[1].id
            if i_ == "_" or i_ == d_:
                self.nid = getattr(self, "nid", 0) + 1
                i_ = f"_nid{self.nid}"
            nodes = ast.Attribute(_copy.deepcopy(G), "nodes", ast.Load())
            bind = ast.Assign([ast.Name(d_, ast.Store())], ast.Subscript(_copy.deepcopy(nodes), ast.Name(i_, ast.Load()), ast.Load()))
            new = ast.For(ast.Name(i_, ast.Store()), nodes, [bind] + n.body, n.orelse)
            ast.copy_location(new, n)
            for y in [new.target, new.iter, bind] + list(ast.walk(bind)) + list(ast.walk(new.iter)):
                ast.copy_location(y, n.target)
            ast.fix_missing_locations(new)
            return new
        return n

    def visit_Match(self, n):
        # match subject: case "a": A  case "b" | "c": B  case _: C   ->   if subject == "a": A  elif subject in ("b", "c"): B  else: C
        # (value, singleton and wildcard patterns only; anything that binds or destructures stays a `match`)
        self.generic_visit(n)
        if self.depth == 0:
            return n
        import copy as _copy

        def tests(pat, subj):
            if isinstance(pat, ast.MatchValue):
                return ast.Compare(_copy.deepcopy(subj), [ast.Eq()], [pat.value])
            if isinstance(pat, ast.MatchSingleton):
                return ast.Compare(_copy.deepcopy(subj), [ast.Is()], [ast.Constant(pat.value)])
            if isinstance(pat, ast.MatchOr):
                parts = [tests(p_, subj) for p_ in pat.patterns]
                if any(p_ is None for p_ in parts):
                    return None
                if all(isinstance(p_, ast.MatchValue) for p_ in pat.patterns):
                    return ast.Compare(_copy.deepcopy(subj), [ast.In()], [ast.Tuple([p_.value for p_ in pat.patterns], ast.Load())])
                return ast.BoolOp(ast.Or(), parts)
            if isinstance(pat, ast.MatchAs) and pat.pattern is None and pat.name is None:
                return True
            return None
        pre = []
        subj = n.subject
        if not isinstance(subj, (ast.Name, ast.Constant)) and not (isinstance(subj, ast.Attribute) and isinstance(subj.value, ast.Name)):
            self.mn = getattr(self, "mn", 0) + 1
            tmp = f"_m{self.mn}"
            pre = [ast.copy_location(ast.Assign([ast.Name(tmp, ast.Store())], subj), n)]
            subj = ast.Name(tmp, ast.Load())
        chain = []
        for c in n.cases:
            t = tests(c.pattern, subj)
            if t is None:
                return n
            if c.guard is not None:
                t = c.guard if t is True else ast.BoolOp(ast.And(), [t, c.guard])
            chain.append((t, c.body))
        node = None
        for t, body in reversed(chain):
            if t is True:
                node = body
            else:
                node = [ast.If(t, body, node or [])]
        if node is None:
            return n
        out = pre + node
        for st in out:
            ast.copy_location(st, n)
            for y in ast.walk(st):
                if not hasattr(y, "lineno"):
                    ast.copy_location(y, n)
            ast.fix_missing_locations(st)
        return out

    def visit_ClassDef(self, n):
        d, self.depth = self.depth, 0
        self.generic_visit(n)
        self.depth = d
        return n

    def visit_AnnAssign(self, n):
        self.generic_visit(n)
        if self.depth > 0 and n.value is not None and isinstance(n.target, ast.Name):
            a = ast.copy_location(ast.Assign([n.target], n.value), n)
            a._ann = n.annotation
            return self.visit_Assign(a)
        return n


    def visit_Return(self, n):
        # return {.. for a in A for b in B}  ->  _collected = {..}; return _collected   (and then as for assignments)
        if self.depth > 0 and isinstance(n.value, (ast.SetComp, ast.ListComp, ast.DictComp)) and len(n.value.generators) >= 2 \
                and not any(g.is_async for g in n.value.generators) \
                and not any(isinstance(y, ast.Name) and y.id == "_collected" for y in ast.walk(n.value)):
            asg = ast.copy_location(ast.Assign([ast.Name("_collected", ast.Store())], n.value), n)
            ast.fix_missing_locations(asg)
            out = self.visit_Assign(asg)
            ret = ast.copy_location(ast.Return(ast.Name("_collected", ast.Load())), n)
            ast.fix_missing_locations(ret)
            return (out if isinstance(out, list) else [out]) + [ret]
        self.generic_visit(n)
        return n

    def visit_Assign(self, n):
        self.generic_visit(n)
        # label = "a" if c else "b"   ->   if c: label = "a"  else: label = "b"      (two constant texts chosen by a test)
        if self.depth > 0 and len(n.targets) == 1 and isinstance(n.targets[0], ast.Name) and isinstance(n.value, ast.IfExp) \
                and (all(isinstance(x, ast.Constant) and isinstance(x.value, str) for x in (n.value.body, n.value.orelse))
                     or (_SPLIT_ALL_IFEXP and _none_sentinel_ifexp(n.value))):
            import copy as _copy
            a = ast.copy_location(ast.Assign([_copy.deepcopy(n.targets[0])], n.value.body), n)
            b = ast.copy_location(ast.Assign([_copy.deepcopy(n.targets[0])], n.value.orelse), n)
            new = ast.copy_location(ast.If(n.value.test, [a], [b]), n)
            return new
        # X = f(a if c else b, k=(d if c else e))  ->  if c: X = f(a, k=d)  else: X = f(b, k=e)    (two calls merged into one
        # by conditional arguments that all test the same side-effect-free condition)
        if self.depth > 0 and len(n.targets) == 1 and isinstance(n.targets[0], ast.Name) and isinstance(n.value, ast.Call):
            c = n.value
            conds = [a for a in list(c.args) + [k.value for k in c.keywords] if isinstance(a, ast.IfExp)]
            if conds and len({ast.unparse(a.test) for a in conds}) == 1 and _pure_test(conds[0].test) \
                    and not any(isinstance(y, ast.Name) and y.id == n.targets[0].id for y in ast.walk(conds[0].test)):
                import copy as _copy

                def pick(call, arm):
                    call = _copy.deepcopy(call)
                    call.args = [getattr(a, arm) if isinstance(a, ast.IfExp) else a for a in call.args]
                    for k in call.keywords:
                        if isinstance(k.value, ast.IfExp):
                            k.value = getattr(k.value, arm)
                    return call
                a_ = ast.copy_location(ast.Assign([_copy.deepcopy(n.targets[0])], pick(c, "body")), n)
                b_ = ast.copy_location(ast.Assign([_copy.deepcopy(n.targets[0])], pick(c, "orelse")), n)
                new = ast.copy_location(ast.If(_copy.deepcopy(conds[0].test), [a_], [b_]), n)
                ast.fix_missing_locations(new)
                return new
        # X = {e for a in A for b in B ..}  ->  X = set(); for a in A: for b in B: .. X.add(e)    (several generators)
        if self.depth > 0 and len(n.targets) == 1 and isinstance(n.targets[0], ast.Name) \
                and isinstance(n.value, (ast.SetComp, ast.ListComp, ast.DictComp)) \
                and (len(n.value.generators) >= 2 or _classifying_setcomp(n.value) or _reach_map_dictcomp(n.value)) \
                and not any(g.is_async for g in n.value.generators):
            X = n.targets[0].id
            if not any(isinstance(y, ast.Name) and y.id == X for y in ast.walk(n.value)):
                meth = "add" if isinstance(n.value, ast.SetComp) else "append"
                init = ast.Assign([ast.Name(X, ast.Store())], ast.Dict([], []) if isinstance(n.value, ast.DictComp)
                                  else ast.Call(ast.Name("set", ast.Load()), [], []) if meth == "add" else ast.List([], ast.Load()))
                self.cc = getattr(self, "cc", [0])
                if isinstance(n.value, ast.DictComp):
                    emit = lambda kv: ast.Assign([ast.Subscript(ast.Name(X, ast.Load()), kv[0], ast.Store())], kv[1])  # noqa: E731
                else:
                    emit = lambda e: ast.Expr(ast.Call(ast.Attribute(ast.Name(X, ast.Load()), meth, ast.Load()), [e], []))  # noqa: E731
                out = [init] + _lower_comp(n.value, emit, self.cc)
                for st in out:
                    ast.copy_location(st, n)
                    ast.fix_missing_locations(st)
                    for y in ast.walk(st):
                        if hasattr(y, "lineno"):
                            y.lineno = y.end_lineno = n.lineno
                return out
        # a, b = e1, e2  ->  a = e1; b = e2     when no later right-hand side reads an earlier target
        if self.depth > 0 and len(n.targets) == 1 and isinstance(n.targets[0], ast.Tuple) and isinstance(n.value, ast.Tuple) \
                and len(n.targets[0].elts) == len(n.value.elts) >= 2 and all(isinstance(t, ast.Name) for t in n.targets[0].elts):
            names = [t.id for t in n.targets[0].elts]
            ok = True
            for j, e in enumerate(n.value.elts):
                used = {x.id for x in ast.walk(e) if isinstance(x, ast.Name)}
                if used & set(names[:j]):
                    ok = False
            if ok:
                return [ast.copy_location(ast.Assign([t], e), n) for t, e in zip(n.targets[0].elts, n.value.elts)]
        # x, node["f"] = g(..)  ->  _tupK = g(..); x = _tupK[0]; node["f"] = _tupK[1]    (a store into a container among the targets)
        if self.depth > 0 and len(n.targets) == 1 and isinstance(n.targets[0], ast.Tuple) and isinstance(n.value, ast.Call) \
                and any(isinstance(t, (ast.Subscript, ast.Attribute)) for t in n.targets[0].elts) \
                and all(isinstance(t, (ast.Name, ast.Subscript, ast.Attribute)) for t in n.targets[0].elts):
            self.tk = getattr(self, "tk", 0) + 1
            tmp = f"_tup{self.tk}"
            out = [ast.Assign([ast.Name(tmp, ast.Store())], n.value)]
            for j, t in enumerate(n.targets[0].elts):
                out.append(ast.Assign([t], ast.Subscript(ast.Name(tmp, ast.Load()), ast.Constant(j), ast.Load())))
            for st in out:
                ast.copy_location(st, n)
                ast.fix_missing_locations(st)
            return out
        # self.a, self.b = e1, e2  ->  self.a = e1; self.b = e2     when no right-hand side reads one of the attributes
        if self.depth > 0 and len(n.targets) == 1 and isinstance(n.targets[0], ast.Tuple) and isinstance(n.value, ast.Tuple) \
                and len(n.targets[0].elts) == len(n.value.elts) >= 2 \
                and all(isinstance(t, ast.Attribute) and isinstance(t.value, ast.Name) for t in n.targets[0].elts):
            tnames = {ast.unparse(t) for t in n.targets[0].elts}
            reads = {ast.unparse(x) for e in n.value.elts for x in ast.walk(e) if isinstance(x, ast.Attribute)}
            calls = any(isinstance(x, ast.Call) for e in n.value.elts for x in ast.walk(e))
            if not (tnames & reads) and not calls:
                return [ast.copy_location(ast.Assign([t], e), n) for t, e in zip(n.targets[0].elts, n.value.elts)]
        return n

    def visit_Call(self, n):
        self.generic_visit(n)
        if self.depth > 0:
            r = _containment_from_quantifier(n)
            if r is not None:
                return r
            # set(..).difference(B) -> set(..) - B   (and union/intersection/symmetric_difference) for receivers that are sets by
            # their spelling
            if isinstance(n.func, ast.Attribute) and n.func.attr in ("difference", "union", "intersection", "symmetric_difference") \
                    and len(n.args) == 1 and not n.keywords and (
                        isinstance(n.func.value, (ast.Set, ast.SetComp)) or isinstance(n.func.value, ast.Call)
                        and isinstance(n.func.value.func, ast.Name) and n.func.value.func.id in ("set", "frozenset")):
                op = {"difference": ast.Sub, "union": ast.BitOr, "intersection": ast.BitAnd, "symmetric_difference": ast.BitXor}[n.func.attr]()
                out = ast.BinOp(n.func.value, op, n.args[0])
                return ast.copy_location(out, n)
            # pairwise(X)  ->  zip(X[:-1], X[1:])
            if (isinstance(n.func, ast.Name) and n.func.id == "pairwise" or isinstance(n.func, ast.Attribute) and n.func.attr == "pairwise") \
                    and len(n.args) == 1 and not n.keywords and isinstance(n.args[0], ast.Name):
                import copy as _copy
                X = n.args[0]
                a = ast.Subscript(_copy.deepcopy(X), ast.Slice(None, ast.UnaryOp(ast.USub(), ast.Constant(1)), None), ast.Load())
                b = ast.Subscript(_copy.deepcopy(X), ast.Slice(ast.Constant(1), None, None), ast.Load())
                out = ast.Call(ast.Name("zip", ast.Load()), [a, b], [])
                for y in ast.walk(out):
                    ast.copy_location(y, n)
                return out
            # A.issubset(B)  ->  all(e in B for e in A)        B.issuperset(A) likewise
            if isinstance(n.func, ast.Attribute) and n.func.attr in ("issubset", "issuperset") and len(n.args) == 1 and not n.keywords:
                A, B = (n.func.value, n.args[0]) if n.func.attr == "issubset" else (n.args[0], n.func.value)
                self.qv = getattr(self, "qv", 0) + 1
                v = f"_e{self.qv}"
                g = ast.comprehension(ast.Name(v, ast.Store()), A, [], 0)
                out = ast.Call(ast.Name("all", ast.Load()), [ast.GeneratorExp(ast.Compare(ast.Name(v, ast.Load()), [ast.In()], [B]), [g])], [])
                for y in ast.walk(out):
                    ast.copy_location(y, n)
                return out
        return n

    def visit_Compare(self, n):
        self.generic_visit(n)
        # len(G.mk_update_function(v).support_set()) > 0  ->  not (F.is_true() or F.is_false())   (a BDD has an empty support
        # exactly when it is constant); == 0 the other way round
        if self.depth > 0 and len(n.ops) == 1 and isinstance(n.left, ast.Call) and isinstance(n.left.func, ast.Name) and n.left.func.id == "len" \
                and len(n.left.args) == 1 and isinstance(n.comparators[0], ast.Constant) and n.comparators[0].value == 0 \
                and isinstance(n.ops[0], (ast.Gt, ast.NotEq, ast.Eq)):
            c = n.left.args[0]
            if isinstance(c, ast.Call) and isinstance(c.func, ast.Attribute) and c.func.attr == "support_set" and not c.args \
                    and isinstance(c.func.value, ast.Call) and isinstance(c.func.value.func, ast.Attribute) \
                    and c.func.value.func.attr == "mk_update_function":
                import copy as _copy
                F = c.func.value
                const = ast.BoolOp(ast.Or(), [ast.Call(ast.Attribute(_copy.deepcopy(F), "is_true", ast.Load()), [], []),
                                              ast.Call(ast.Attribute(_copy.deepcopy(F), "is_false", ast.Load()), [], [])])
                out = const if isinstance(n.ops[0], ast.Eq) else ast.UnaryOp(ast.Not(), const)
                for y in ast.walk(out):
                    ast.copy_location(y, n)
                return out
        return n

    def visit_Dict(self, n):
        # {**a, **b}  ->  a | b      (the union of two mappings, later entries win in both spellings)
        self.generic_visit(n)
        if self.depth > 0 and len(n.values) >= 2 and all(k is None for k in n.keys):
            e = n.values[0]
            for v in n.values[1:]:
                e = ast.copy_location(ast.BinOp(e, ast.BitOr(), v), n)
            return e
        return n

    def visit_AugAssign(self, n):
        # X += [a, b]  ->  X.append(a); X.append(b)        X |= {a}  ->  X.add(a)
        if self.depth > 0 and isinstance(n.target, ast.Name):
            meth = None
            if isinstance(n.op, ast.Add) and isinstance(n.value, ast.List) and n.value.elts:
                meth = "append"
            elif isinstance(n.op, ast.BitOr) and isinstance(n.value, ast.Set) and n.value.elts:
                meth = "add"
            if meth and not any(isinstance(e, ast.Starred) for e in n.value.elts):
                return [ast.copy_location(ast.Expr(ast.copy_location(ast.Call(ast.copy_location(
                    ast.Attribute(ast.copy_location(ast.Name(n.target.id, ast.Load()), n), meth, ast.Load()), n), [e], []), n)), n)
                    for e in n.value.elts]
        return n

    def visit_Expr(self, n):
        self.generic_visit(n)
        # yield from E  ->  for _y in E: yield _y     (plain iteration; generators of this package take no send())
        if self.depth > 0 and isinstance(n.value, ast.YieldFrom):
            self.yf = getattr(self, "yf", 0) + 1
            v = f"_y{self.yf}"
            lp = ast.For(ast.Name(v, ast.Store()), n.value.value, [ast.Expr(ast.Yield(ast.Name(v, ast.Load())))], [])
            ast.copy_location(lp, n)
            ast.fix_missing_locations(lp)
            for x in ast.walk(lp):
                if hasattr(x, "lineno"):
                    x.lineno = x.end_lineno = n.lineno
            return lp
        # X.sort(k..)  ->  X = sorted(X, k..)   for a local list X (the marker the ordering rules look for; an alias of X
        # would be treated as still unsorted, which errs on the reporting side)
        c0 = n.value
        if self.depth > 0 and isinstance(c0, ast.Call) and isinstance(c0.func, ast.Attribute) and c0.func.attr == "sort" \
                and isinstance(c0.func.value, ast.Name) and not c0.args and c0.func.value.id in getattr(self, "local_lists", set()):
            x = c0.func.value.id
            call = ast.Call(ast.Name("sorted", ast.Load()), [ast.Name(x, ast.Load())], c0.keywords)
            a = ast.Assign([ast.Name(x, ast.Store())], call)
            ast.copy_location(a, n)
            ast.fix_missing_locations(a)
            for y in ast.walk(a):
                if hasattr(y, "lineno"):
                    y.lineno = y.end_lineno = n.lineno
            return a
        # D.update({x: E(x) for x in xs if x not in D})  ->  for x in xs: if x not in D: D[x] = E(x)   (the key is the loop
        # variable itself, so an entry written earlier in the loop can only make a later, equal key be skipped)
        c = n.value
        if self.depth > 0 and isinstance(c, ast.Call) and isinstance(c.func, ast.Attribute) and c.func.attr == "update" \
                and isinstance(c.func.value, ast.Name) and len(c.args) == 1 and not c.keywords and isinstance(c.args[0], ast.DictComp) \
                and len(c.args[0].generators) == 1 and not c.args[0].generators[0].is_async \
                and isinstance(c.args[0].generators[0].target, ast.Name) and isinstance(c.args[0].key, ast.Name) \
                and c.args[0].key.id == c.args[0].generators[0].target.id:
            dc = c.args[0]
            D = c.func.value.id
            self.cc = getattr(self, "cc", [0])
            out = _lower_comp(dc, lambda kv: ast.Assign([ast.Subscript(ast.Name(D, ast.Load()), kv[0], ast.Store())], kv[1]), self.cc)
            for st in out:
                ast.copy_location(st, n)
                ast.fix_missing_locations(st)
                for y in ast.walk(st):
                    if hasattr(y, "lineno"):
                        y.lineno = y.end_lineno = n.lineno
            return out
        # D.update(a=1, b=2) / D.update({"a": 1, "b": 2})  ->  D["a"] = 1; D["b"] = 2
        c = n.value
        if self.depth > 0 and isinstance(c, ast.Call) and isinstance(c.func, ast.Attribute) and c.func.attr == "update" \
                and isinstance(c.func.value, (ast.Name, ast.Attribute, ast.Subscript)) \
                and not any(isinstance(y, ast.Call) for y in ast.walk(c.func.value)):
            pairs = None
            if not c.args and c.keywords and all(k.arg is not None for k in c.keywords):
                pairs = [(ast.Constant(k.arg), k.value) for k in c.keywords]
            elif len(c.args) == 1 and not c.keywords and isinstance(c.args[0], ast.Dict) and c.args[0].keys \
                    and all(isinstance(k, ast.Constant) and isinstance(k.value, str) for k in c.args[0].keys):
                pairs = list(zip(c.args[0].keys, c.args[0].values))
            if pairs:
                import copy as _copy
                out = []
                for k_, v_ in pairs:
                    a = ast.Assign([ast.Subscript(_copy.deepcopy(c.func.value), k_, ast.Store())], v_)
                    ast.copy_location(a, n)
                    ast.fix_missing_locations(a)
                    for y in ast.walk(a):
                        if hasattr(y, "lineno"):
                            y.lineno = y.end_lineno = n.lineno
                    out.append(a)
                return out
        # X.update(e for ..) / X.extend(e for ..)  ->  for ..: X.add(e) / X.append(e)
        if self.depth > 0 and isinstance(c, ast.Call) and isinstance(c.func, ast.Attribute) and c.func.attr in ("update", "extend") \
                and isinstance(c.func.value, ast.Name) and len(c.args) == 1 and not c.keywords \
                and isinstance(c.args[0], (ast.GeneratorExp, ast.ListComp, ast.SetComp)) \
                and not (c.func.attr == "update" and isinstance(c.args[0].elt, ast.Tuple)) \
                and not any(g.is_async for g in c.args[0].generators):
            meth = "add" if c.func.attr == "update" else "append"
            X = c.func.value.id
            self.cc = getattr(self, "cc", [0])
            out = _lower_comp(c.args[0], lambda e: ast.Expr(ast.Call(ast.Attribute(ast.Name(X, ast.Load()), meth, ast.Load()), [e], [])),
                              self.cc)
            for st in out:
                ast.copy_location(st, n)
                ast.fix_missing_locations(st)
                for y in ast.walk(st):
                    if hasattr(y, "lineno"):
                        y.lineno = y.end_lineno = n.lineno
            return out
        # X.extend([a, b]) -> X.append(a); X.append(b)
        if self.depth > 0 and isinstance(c, ast.Call) and isinstance(c.func, ast.Attribute) and c.func.attr == "extend" \
                and isinstance(c.func.value, ast.Name) and len(c.args) == 1 and isinstance(c.args[0], ast.List) and c.args[0].elts \
                and not any(isinstance(e, ast.Starred) for e in c.args[0].elts):
            return [ast.copy_location(ast.Expr(ast.copy_location(ast.Call(ast.copy_location(
                ast.Attribute(c.func.value, "append", ast.Load()), n), [e], []), n)), n) for e in c.args[0].elts]
        return n


LOCAL_REWRITES: dict[str, int] = {}


def _count(what: str, n) -> None:
    n = int(n) if not isinstance(n, bool) else (1 if n else 0)
    if n:
        LOCAL_REWRITES[what] = LOCAL_REWRITES.get(what, 0) + n


def _iterator_frames_to_lists(fn: ast.FunctionDef) -> int:
    """A local that holds `iter(sorted(E))` and is advanced only by `next((x for x in R if C(x)), None)` / `next(R, None)`
    is read as the list `sorted(E, reverse=True)` consumed from the back:
        s = next((x for x in R if C(x)), None)
    becomes
        while len(R) > 0 and not C(R[-1]): R.pop()
        if len(R) > 0: s = R.pop()   else: s = None
    (the same elements are skipped and the same element is taken; what remains in R is what the iterator would still
    yield). R may travel through tuple frames of a work list in between."""
    import copy as _copy
    iters = set()
    for n in ast.walk(fn):
        if isinstance(n, ast.Assign) and len(n.targets) == 1 and isinstance(n.targets[0], ast.Name) and isinstance(n.value, ast.Call) \
                and isinstance(n.value.func, ast.Name) and n.value.func.id == "iter" and len(n.value.args) == 1 \
                and isinstance(n.value.args[0], ast.Call) and isinstance(n.value.args[0].func, ast.Name) and n.value.args[0].func.id == "sorted" \
                and not any(k.arg == "reverse" for k in n.value.args[0].keywords):
            iters.add(n.targets[0].id)
    if not iters:
        return 0
    # every load of R is: the argument of next(..) in one of the two forms, an element of a tuple (frame), or `R is None`
    for R in list(iters):
        for n in ast.walk(fn):
            if isinstance(n, ast.Name) and n.id == R and isinstance(n.ctx, ast.Load):
                ok = False
                for p_ in ast.walk(fn):
                    if isinstance(p_, ast.Tuple) and n in p_.elts:
                        ok = True
                    if isinstance(p_, ast.Compare) and p_.left is n and len(p_.ops) == 1 and isinstance(p_.ops[0], (ast.Is, ast.IsNot)):
                        ok = True
                    if isinstance(p_, ast.Call) and isinstance(p_.func, ast.Name) and p_.func.id == "next" and len(p_.args) == 2 \
                            and isinstance(p_.args[1], ast.Constant) and p_.args[1].value is None:
                        a0 = p_.args[0]
                        if a0 is n:
                            ok = True
                        if isinstance(a0, ast.GeneratorExp) and len(a0.generators) == 1 and a0.generators[0].iter is n \
                                and isinstance(a0.generators[0].target, ast.Name) and isinstance(a0.elt, ast.Name) \
                                and a0.elt.id == a0.generators[0].target.id:
                            ok = True
                if not ok:
                    iters.discard(R)
    if not iters:
        return 0
    count = 0

    def block(body: list) -> None:
        nonlocal count
        i = 0
        while i < len(body):
            st = body[i]
            if isinstance(st, ast.Assign) and len(st.targets) == 1 and isinstance(st.targets[0], ast.Name):
                v = st.value
                if st.targets[0].id in iters and isinstance(v, ast.Call) and isinstance(v.func, ast.Name) and v.func.id == "iter":
                    srt = v.args[0]
                    srt.keywords.append(ast.keyword("reverse", ast.Constant(True)))
                    st.value = srt
                    count += 1
                elif isinstance(v, ast.Call) and isinstance(v.func, ast.Name) and v.func.id == "next" and len(v.args) == 2:
                    a0 = v.args[0]
                    R = a0.id if isinstance(a0, ast.Name) else a0.generators[0].iter.id if isinstance(a0, ast.GeneratorExp) and isinstance(a0.generators[0].iter, ast.Name) else None
                    if R in iters:
                        S = st.targets[0].id
                        last = ast.Subscript(ast.Name(R, ast.Load()), ast.UnaryOp(ast.USub(), ast.Constant(1)), ast.Load())
                        nonempty = ast.Compare(ast.Call(ast.Name("len", ast.Load()), [ast.Name(R, ast.Load())], []), [ast.Gt()], [ast.Constant(0)])
                        pop = ast.Call(ast.Attribute(ast.Name(R, ast.Load()), "pop", ast.Load()), [], [])
                        out = []
                        if isinstance(a0, ast.GeneratorExp) and a0.generators[0].ifs:
                            x = a0.generators[0].target.id

                            class Sub(ast.NodeTransformer):
                                def visit_Name(self, n_):
                                    return _copy.deepcopy(last) if n_.id == x and isinstance(n_.ctx, ast.Load) else n_
                            conds = [Sub().visit(_copy.deepcopy(c)) for c in a0.generators[0].ifs]
                            keep = conds[0] if len(conds) == 1 else ast.BoolOp(ast.And(), conds)
                            skip = keep.operand if isinstance(keep, ast.UnaryOp) and isinstance(keep.op, ast.Not) else \
                                ast.Compare(keep.left, [ast.In()], keep.comparators) if isinstance(keep, ast.Compare) and len(keep.ops) == 1 and isinstance(keep.ops[0], ast.NotIn) \
                                else ast.UnaryOp(ast.Not(), keep)
                            out.append(ast.While(ast.BoolOp(ast.And(), [_copy.deepcopy(nonempty), skip]), [ast.Expr(_copy.deepcopy(pop))], []))
                        nxt = body[i + 1] if i + 1 < len(body) else None
                        if isinstance(nxt, ast.If) and not nxt.orelse and isinstance(nxt.test, ast.Compare) and len(nxt.test.ops) == 1 \
                                and isinstance(nxt.test.ops[0], ast.Is) and isinstance(nxt.test.left, ast.Name) and nxt.test.left.id == S \
                                and isinstance(nxt.test.comparators[0], ast.Constant) and nxt.test.comparators[0].value is None \
                                and nxt.body and isinstance(nxt.body[-1], (ast.Continue, ast.Return, ast.Break, ast.Raise)) \
                                and not any(isinstance(y, ast.Name) and y.id == S for b_ in nxt.body for y in ast.walk(b_)):
                            # `if s is None: <leave>` right behind it: the emptiness test takes its place
                            empty = ast.Compare(ast.Call(ast.Name("len", ast.Load()), [ast.Name(R, ast.Load())], []), [ast.Eq()], [ast.Constant(0)])
                            out.append(ast.If(empty, nxt.body, []))
                            out.append(ast.Assign([ast.Name(S, ast.Store())], _copy.deepcopy(pop)))
                            del body[i + 1]
                        else:
                            out.append(ast.If(_copy.deepcopy(nonempty), [ast.Assign([ast.Name(S, ast.Store())], _copy.deepcopy(pop))],
                                              [ast.Assign([ast.Name(S, ast.Store())], ast.Constant(None))]))
                        for o in out:
                            ast.copy_location(o, st)
                            ast.fix_missing_locations(o)
                            for y in ast.walk(o):
                                if hasattr(y, "lineno"):
                                    y.lineno = y.end_lineno = st.lineno
                        body[i:i + 1] = out
                        i += len(out) - 1
                        count += 1
            if not isinstance(st, (ast.FunctionDef, ast.ClassDef)):
                for fld in ("body", "orelse", "finalbody"):
                    sub = getattr(st, fld, None)
                    if isinstance(sub, list) and sub and isinstance(sub[0], ast.stmt):
                        block(sub)
                for h in getattr(st, "handlers", []) or []:
                    block(h.body)
            i += 1
    block(fn.body)
    if count:
        ast.fix_missing_locations(fn)
    return count


def _hoist_if_walrus(fn: ast.AST) -> int:
    """`if (v := E) is not None: B`  ->  `v = E; if v is not None: B`  (the assignment expression is the first thing the test
    evaluates, so binding it in a statement before the `if` changes nothing)."""
    count = 0

    def block(body: list) -> None:
        nonlocal count
        i = 0
        while i < len(body):
            st = body[i]
            if isinstance(st, ast.If):
                t = st.test
                first = t.left if isinstance(t, ast.Compare) else t.operand if isinstance(t, ast.UnaryOp) and isinstance(t.op, ast.Not) else t
                if isinstance(first, ast.NamedExpr) and isinstance(first.target, ast.Name) \
                        and sum(1 for y in ast.walk(t) if isinstance(y, ast.NamedExpr)) == 1:
                    asg = ast.copy_location(ast.Assign([ast.Name(first.target.id, ast.Store())], first.value), st)
                    nm = ast.copy_location(ast.Name(first.target.id, ast.Load()), first)
                    if isinstance(t, ast.Compare):
                        t.left = nm
                    elif isinstance(t, ast.UnaryOp):
                        t.operand = nm
                    else:
                        st.test = nm
                    ast.fix_missing_locations(asg)
                    body.insert(i, asg)
                    count += 1
                    i += 1
            if not isinstance(st, (ast.FunctionDef, ast.ClassDef)):
                for fld in ("body", "orelse", "finalbody"):
                    sub = getattr(st, fld, None)
                    if isinstance(sub, list) and sub and isinstance(sub[0], ast.stmt):
                        block(sub)
                for h in getattr(st, "handlers", []) or []:
                    block(h.body)
            i += 1
    if hasattr(fn, "body"):
        block(fn.body)
    return count


def _while_true_flag(fn: ast.FunctionDef) -> int:
    """`while True: F = False; BODY; if not F: return E` (no `continue` at this level, F only ever raised in BODY)
        ->  `F = True; while F: F = False; BODY` followed by `return E`: the fixpoint loop with its flag in the condition."""
    count = 0

    def own_level(stmts):
        for st in stmts:
            yield st
            if isinstance(st, (ast.For, ast.While, ast.FunctionDef, ast.ClassDef)):
                continue
            for fld in ("body", "orelse", "finalbody"):
                sub = getattr(st, fld, None)
                if isinstance(sub, list) and sub and isinstance(sub[0], ast.stmt):
                    yield from own_level(sub)
            for h in getattr(st, "handlers", []) or []:
                yield from own_level(h.body)

    def block(body: list) -> None:
        nonlocal count
        for i, st in enumerate(list(body)):
            if isinstance(st, ast.While) and isinstance(st.test, ast.Constant) and st.test.value is True and not st.orelse and len(st.body) >= 3:
                first, last = st.body[0], st.body[-1]
                if isinstance(first, ast.Assign) and len(first.targets) == 1 and isinstance(first.targets[0], ast.Name) \
                        and isinstance(first.value, ast.Constant) and first.value.value is False \
                        and isinstance(last, ast.If) and not last.orelse and len(last.body) == 1 and isinstance(last.body[0], (ast.Return, ast.Break)) \
                        and isinstance(last.test, ast.UnaryOp) and isinstance(last.test.op, ast.Not) and isinstance(last.test.operand, ast.Name) \
                        and last.test.operand.id == first.targets[0].id:
                    F = first.targets[0].id
                    mid = st.body[1:-1]
                    if any(isinstance(y, (ast.Continue, ast.Break)) for y in own_level(mid)):
                        continue
                    stores = [y for m in mid for y in ast.walk(m) if isinstance(y, ast.Assign) and any(isinstance(t, ast.Name) and t.id == F for t in y.targets)]
                    if not stores or not all(isinstance(y.value, ast.Constant) and y.value.value is True for y in stores):
                        continue
                    init = ast.copy_location(ast.Assign([ast.Name(F, ast.Store())], ast.Constant(True)), st)
                    new = ast.copy_location(ast.While(ast.Name(F, ast.Load()), [first] + mid, []), st)
                    tail = [last.body[0]] if isinstance(last.body[0], ast.Return) else []
                    k = body.index(st)
                    body[k:k + 1] = [init, new] + tail
                    count += 1
        for st in body:
            if not isinstance(st, (ast.FunctionDef, ast.ClassDef)):
                for fld in ("body", "orelse", "finalbody"):
                    sub = getattr(st, fld, None)
                    if isinstance(sub, list) and sub and isinstance(sub[0], ast.stmt):
                        block(sub)
                for h in getattr(st, "handlers", []) or []:
                    block(h.body)
    block(fn.body)
    if count:
        ast.fix_missing_locations(fn)
    return count


def _split_joined_adds(fn: ast.FunctionDef) -> int:
    """`rules = []` ... `rules.append(X)` ... `ctl.add("base", [], "\n".join(rules))` (the list has no other use): every
    append is the add of that piece -- a logic program is the concatenation of what was added, in order."""
    import copy as _copy
    count = 0
    inits = [st for st in fn.body if isinstance(st, (ast.Assign, ast.AnnAssign)) and getattr(st, "value", None) is not None
             and isinstance(st.value, ast.List) and not st.value.elts
             and isinstance(st.targets[0] if isinstance(st, ast.Assign) else st.target, ast.Name)]
    for init in inits:
        R = (init.targets[0] if isinstance(init, ast.Assign) else init.target).id
        uses = [y for y in ast.walk(fn) if isinstance(y, ast.Name) and y.id == R]
        apps = [c for c in ast.walk(fn) if isinstance(c, ast.Call) and isinstance(c.func, ast.Attribute) and c.func.attr == "append"
                and isinstance(c.func.value, ast.Name) and c.func.value.id == R and len(c.args) == 1]
        joins = [c for c in ast.walk(fn) if isinstance(c, ast.Call) and isinstance(c.func, ast.Attribute) and c.func.attr == "join"
                 and isinstance(c.func.value, ast.Constant) and isinstance(c.func.value.value, str) and c.func.value.value.strip() == ""
                 and len(c.args) == 1 and isinstance(c.args[0], ast.Name) and c.args[0].id == R]
        if len(joins) != 1 or not apps or len(uses) != 1 + len(apps) + 1:
            continue
        # the join is the program argument of an `X.add(name, params, <join>)` statement of the function body
        adds = [st for st in fn.body if isinstance(st, ast.Expr) and isinstance(st.value, ast.Call) and isinstance(st.value.func, ast.Attribute)
                and st.value.func.attr == "add" and len(st.value.args) == 3 and st.value.args[2] is joins[0]]
        if len(adds) != 1:
            continue
        tmpl = adds[0].value

        class RW(ast.NodeTransformer):
            def visit_Expr(self, st):
                c = st.value
                if isinstance(c, ast.Call) and c in apps:
                    new = _copy.deepcopy(tmpl)
                    new.args[2] = c.args[0]
                    out = ast.Expr(new)
                    ast.copy_location(out, st)
                    for y in ast.walk(out):
                        if hasattr(y, "lineno"):
                            y.lineno = y.end_lineno = st.lineno
                    return out
                return self.generic_visit(st)
        if not all(any(isinstance(st, ast.Expr) and st.value is c for st in ast.walk(fn)) for c in apps):
            continue
        RW().visit(fn)
        fn.body = [ast.copy_location(ast.Pass(), st) if st is adds[0] or st is init else st for st in fn.body]
        count += 1
    if count:
        ast.fix_missing_locations(fn)
    return count


_MUTATORS = {"add", "append", "extend", "update", "pop", "remove", "clear", "insert", "discard", "setdefault", "sort", "reverse",
             "popitem", "add_edge", "add_node", "remove_node", "remove_edge", "_ensure_node", "_ensure_edge", "_expand_one_node",
             "build", "expand_bfs", "expand_dfs", "expand_minimal_spaces", "expand_attractor_seeds", "expand_to_target", "expand_scc",
             "expand_block", "skip_to_minimal", "skip_remaining", "reclaim_node_data"}


def _strip_bool_in_tests(e: ast.expr) -> ast.expr:
    """`bool(E)` in a test position is E"""
    if isinstance(e, ast.Call) and isinstance(e.func, ast.Name) and e.func.id == "bool" and len(e.args) == 1 and not e.keywords:
        return _strip_bool_in_tests(e.args[0])
    if isinstance(e, ast.UnaryOp) and isinstance(e.op, ast.Not):
        e.operand = _strip_bool_in_tests(e.operand)
    elif isinstance(e, ast.BoolOp):
        e.values = [_strip_bool_in_tests(v) for v in e.values]
    elif isinstance(e, ast.Call) and isinstance(e.func, ast.Name) and e.func.id in ("any", "all") and len(e.args) == 1 \
            and isinstance(e.args[0], (ast.GeneratorExp, ast.ListComp)):
        e.args[0].elt = _strip_bool_in_tests(e.args[0].elt)
    return e


def _fuse_filter_pipeline(fn: ast.FunctionDef) -> int:
    """A = [x for x in SRC if C1];  B = [x for x in A if C2];  flag = len(A) > 0;  for s in B: BODY      (A, B read nowhere else)
       ->   flag = False;  for s in SRC: if not C1: continue;  flag = True;  if not C2: continue;  BODY

    Selecting by two comprehension filters and looping afterwards is the loop with two skip tests, provided BODY changes nothing
    that the filters read (checked on names: no store, no mutating method, no growth call on a name the filters mention)."""
    import copy as _copy
    count = 0

    def comp_of(st, want_src=None):
        if not (isinstance(st, ast.Assign) and len(st.targets) == 1 and isinstance(st.targets[0], ast.Name) and isinstance(st.value, ast.ListComp)):
            return None
        c = st.value
        if len(c.generators) != 1 or c.generators[0].is_async or not c.generators[0].ifs:
            return None
        g = c.generators[0]
        if not (isinstance(g.target, ast.Name) and isinstance(c.elt, ast.Name) and c.elt.id == g.target.id):
            return None
        return st.targets[0].id, g.target.id, g.iter, g.ifs

    def uses(name):
        return [y for y in ast.walk(fn) if isinstance(y, ast.Name) and y.id == name]

    def block(body: list) -> None:
        nonlocal count
        for j, L in enumerate(body):
            if not (isinstance(L, ast.For) and isinstance(L.iter, ast.Name) and isinstance(L.target, ast.Name) and not L.orelse):
                continue
            # walk back over the statements right before the loop
            pre = {}
            k = j - 1
            while k >= 0 and isinstance(body[k], ast.Assign) and len(body[k].targets) == 1 and isinstance(body[k].targets[0], ast.Name):
                pre[body[k].targets[0].id] = (k, body[k])
                k -= 1
            E = L.iter.id
            chain = [E]
            while E in pre and isinstance(pre[E][1].value, ast.Name):
                E = pre[E][1].value.id
                chain.append(E)
            if E not in pre:
                continue
            cb = comp_of(pre[E][1])
            if cb is None or not isinstance(cb[2], ast.Name) or cb[2].id not in pre:
                continue
            A = cb[2].id
            ca = comp_of(pre[A][1])
            if ca is None:
                continue
            # the flag: the one other reader of A
            flag = None
            for nm, (k_, st_) in pre.items():
                v = st_.value
                if isinstance(v, ast.Compare) and len(v.ops) == 1 and isinstance(v.left, ast.Call) and isinstance(v.left.func, ast.Name) \
                        and v.left.func.id == "len" and len(v.left.args) == 1 and isinstance(v.left.args[0], ast.Name) and v.left.args[0].id == A \
                        and isinstance(v.comparators[0], ast.Constant) and ((isinstance(v.ops[0], (ast.Gt, ast.NotEq)) and v.comparators[0].value == 0)
                                                                            or (isinstance(v.ops[0], ast.GtE) and v.comparators[0].value == 1)):
                    flag = (nm, k_)
            # every name of the chain is read exactly once (by the next link), A twice at most (B and the flag)
            okc = all(len([u for u in uses(n_) if isinstance(u.ctx, ast.Load)]) == 1 and len([u for u in uses(n_) if isinstance(u.ctx, ast.Store)]) == 1
                      for n_ in chain)
            a_reads = len([u for u in uses(A) if isinstance(u.ctx, ast.Load)])
            if not okc or a_reads != (2 if flag else 1) or len([u for u in uses(A) if isinstance(u.ctx, ast.Store)]) != 1:
                continue
            involved = {pre[n_][0] for n_ in chain} | {pre[A][0]} | ({flag[1]} if flag else set())
            lo = min(involved)
            if any(i not in involved for i in range(lo, j)):
                continue      # something else sits between the comprehensions and the loop
            # BODY leaves alone what the filters read
            fvars = {ca[1], cb[1]}
            read = {y.id for t in list(ca[3]) + list(cb[3]) + [ca[2]] for y in ast.walk(t) if isinstance(y, ast.Name)} - fvars
            touched = set()
            for st_ in L.body:
                for y in ast.walk(st_):
                    if isinstance(y, ast.Name) and isinstance(y.ctx, (ast.Store, ast.Del)):
                        touched.add(y.id)
                    if isinstance(y, (ast.Subscript, ast.Attribute)) and isinstance(y.ctx, (ast.Store, ast.Del)):
                        b_ = y.value
                        while isinstance(b_, (ast.Subscript, ast.Attribute)):
                            b_ = b_.value
                        if isinstance(b_, ast.Name):
                            touched.add(b_.id)
                    if isinstance(y, ast.Call) and isinstance(y.func, ast.Attribute) and y.func.attr in _MUTATORS:
                        b_ = y.func.value
                        while isinstance(b_, (ast.Subscript, ast.Attribute, ast.Call)):
                            b_ = b_.value if not isinstance(b_, ast.Call) else b_.func
                        if isinstance(b_, ast.Name):
                            touched.add(b_.id)
            s_ = L.target.id
            if read & touched or (s_ in read) or (flag and flag[0] in read):
                continue

            class _Ren(ast.NodeTransformer):
                def __init__(self, old):
                    self.old = old

                def visit_Name(self, n):
                    return ast.copy_location(ast.Name(s_, n.ctx), n) if n.id == self.old else n

            def skip_unless(tests, var):
                out = []
                for t in tests:
                    t = _strip_bool_in_tests(_Ren(var).visit(_copy.deepcopy(t)))
                    neg = t.operand if isinstance(t, ast.UnaryOp) and isinstance(t.op, ast.Not) else ast.UnaryOp(ast.Not(), t)
                    out.append(ast.If(neg, [ast.Continue()], []))
                return out
            new_body = skip_unless(ca[3], ca[1])
            if flag:
                new_body.append(ast.Assign([ast.Name(flag[0], ast.Store())], ast.Constant(True)))
            new_body += skip_unless(cb[3], cb[1]) + L.body
            L.body = new_body
            L.iter = ca[2]
            repl = [ast.Assign([ast.Name(flag[0], ast.Store())], ast.Constant(False))] if flag else []
            for st_ in repl + [L]:
                ast.copy_location(st_, body[lo]) if st_ is not L else None
                ast.fix_missing_locations(st_)
            for st_ in repl:
                for y in ast.walk(st_):
                    if hasattr(y, "lineno"):
                        y.lineno = y.end_lineno = body[lo].lineno
            for st_ in L.body[:len(new_body) - len(L.body) if False else None]:
                pass
            for st_ in new_body[:len(ca[3]) + len(cb[3]) + (1 if flag else 0)]:
                for y in ast.walk(st_):
                    y.lineno = y.end_lineno = L.lineno
                    y.col_offset = y.end_col_offset = 0
            body[lo:j + 1] = repl + [L]
            count += 1
            return block(body)
        for st in body:
            if not isinstance(st, (ast.FunctionDef, ast.ClassDef)):
                for fld in ("body", "orelse", "finalbody"):
                    sub = getattr(st, fld, None)
                    if isinstance(sub, list) and sub and isinstance(sub[0], ast.stmt):
                        block(sub)
    block(fn.body)
    if count:
        ast.fix_missing_locations(fn)
    return count


def _expand_partials(fn: ast.FunctionDef) -> int:
    """`f = partial(F, a, k=v)` bound once and only ever called: `f(b, k2=w)` is `F(a, b, k=v, k2=w)`. The frozen arguments are
    names that are bound once (or parameters never re-bound), so their values at the calls are their values at the definition."""
    import copy as _copy
    stores: dict[str, int] = {}
    for n in ast.walk(fn):
        if isinstance(n, ast.Name) and isinstance(n.ctx, (ast.Store, ast.Del)):
            stores[n.id] = stores.get(n.id, 0) + 1
        if isinstance(n, (ast.Global, ast.Nonlocal)):
            return 0
    params = {a.arg for a in fn.args.posonlyargs + fn.args.args + fn.args.kwonlyargs}
    count = 0
    for parent in ast.walk(fn):
        blk = getattr(parent, "body", None)
        if not isinstance(blk, list):
            continue
        for i, st in enumerate(blk):
            if not (isinstance(st, ast.Assign) and len(st.targets) == 1 and isinstance(st.targets[0], ast.Name) and isinstance(st.value, ast.Call)):
                continue
            c = st.value
            fname = c.func.id if isinstance(c.func, ast.Name) else c.func.attr if isinstance(c.func, ast.Attribute) else None
            if fname != "partial" or not c.args or not isinstance(c.args[0], (ast.Name, ast.Attribute)):
                continue
            a = st.targets[0].id
            if stores.get(a) != 1 or a in params:
                continue
            frozen = list(c.args[1:]) + [k.value for k in c.keywords]
            if any(k.arg is None for k in c.keywords) or any(isinstance(x, ast.Starred) for x in c.args):
                continue
            names = {y.id for e in frozen for y in ast.walk(e) if isinstance(y, ast.Name)}
            late = {y.id for y in ast.walk(fn) if isinstance(y, ast.Name) and isinstance(y.ctx, (ast.Store, ast.Del))
                    and getattr(y, "lineno", 0) >= st.lineno and y.id in names}
            if any(not isinstance(e, (ast.Name, ast.Constant, ast.Attribute)) for e in frozen) or late or parent is not fn:
                continue      # (defined at the top level of the function, after the last binding of everything it freezes)
            uses = [y for y in ast.walk(fn) if isinstance(y, ast.Name) and y.id == a and isinstance(y.ctx, ast.Load)]
            calls = [y for y in ast.walk(fn) if isinstance(y, ast.Call) and isinstance(y.func, ast.Name) and y.func.id == a]
            if not uses or len(uses) != len(calls) or any(isinstance(x, ast.Starred) for y in calls for x in y.args) \
                    or any(k.arg is None for y in calls for k in y.keywords):
                continue
            for y in calls:
                given = {k.arg for k in y.keywords}
                y.func = _copy.deepcopy(c.args[0])
                y.args = [_copy.deepcopy(e) for e in c.args[1:]] + y.args
                y.keywords = [_copy.deepcopy(k) for k in c.keywords if k.arg not in given] + y.keywords
            blk[i] = ast.copy_location(ast.Pass(), st)
            count += 1
    if count:
        ast.fix_missing_locations(fn)
    return count


def _map_loops(fn: ast.FunctionDef) -> int:
    """`for v in map(list, IT): BODY`  ->  `for _mK in IT: v = list(_mK); BODY`   (a builtin converter applied element by element)"""
    count = 0
    for lp in ast.walk(fn):
        if isinstance(lp, ast.For) and isinstance(lp.iter, ast.Call) and isinstance(lp.iter.func, ast.Name) and lp.iter.func.id == "map" \
                and len(lp.iter.args) == 2 and not lp.iter.keywords and isinstance(lp.iter.args[0], ast.Name) \
                and lp.iter.args[0].id in ("list", "tuple", "dict", "set", "frozenset", "sorted") and isinstance(lp.target, ast.Name):
            count += 1
            m = f"_m{count}_{lp.target.id}"
            conv = ast.Assign([ast.Name(lp.target.id, ast.Store())], ast.Call(ast.Name(lp.iter.args[0].id, ast.Load()), [ast.Name(m, ast.Load())], []))
            ast.copy_location(conv, lp)
            lp.iter = lp.iter.args[1]
            lp.target = ast.copy_location(ast.Name(m, ast.Store()), lp.target)
            lp.body.insert(0, conv)
            ast.fix_missing_locations(lp)
    return count


def _bulk_none_writes(fn: ast.FunctionDef) -> int:
    """`nx.set_node_attributes(X.dag, None, name="f")`  ->  `for _bk in X.node_ids(): X.node_data(_bk)["f"] = None`
    (only the constant None: discarding a cached field on every node; other bulk writes stay calls, which C20-M1 reports)"""
    count = 0
    for parent in ast.walk(fn):
        for fld in ("body", "orelse", "finalbody"):
            blk = getattr(parent, fld, None)
            if not isinstance(blk, list):
                continue
            for i, st in enumerate(blk):
                c = st.value if isinstance(st, ast.Expr) else None
                if not (isinstance(c, ast.Call) and (dotted(c.func) or "").split(".")[-1] == "set_node_attributes"):
                    continue
                args = list(c.args)
                kw = {k.arg: k.value for k in c.keywords}
                G = args[0] if args else kw.get("G")
                val = args[1] if len(args) > 1 else kw.get("values")
                name = args[2] if len(args) > 2 else kw.get("name")
                if isinstance(G, ast.Attribute) and G.attr == "dag" and isinstance(G.value, ast.Name) \
                        and isinstance(val, ast.Constant) and val.value is None and isinstance(name, ast.Constant) and isinstance(name.value, str):
                    count += 1
                    v = f"_bk{count}"
                    X = G.value.id
                    tgt = ast.Subscript(ast.Call(ast.Attribute(ast.Name(X, ast.Load()), "node_data", ast.Load()), [ast.Name(v, ast.Load())], []),
                                        ast.Constant(name.value), ast.Store())
                    lp = ast.For(ast.Name(v, ast.Store()), ast.Call(ast.Attribute(ast.Name(X, ast.Load()), "node_ids", ast.Load()), [], []),
                                 [ast.Assign([tgt], ast.Constant(None))], [])
                    ast.copy_location(lp, st)
                    ast.fix_missing_locations(lp)
                    for y in ast.walk(lp):
                        if hasattr(y, "lineno"):
                            y.lineno = y.end_lineno = st.lineno
                    blk[i] = lp
    return count


def _flag_snapshots(fn: ast.FunctionDef) -> int:
    """`w = H["f"]; H["f"] = C; if <test over w>: <stores into H only>`  ->  `if <test over H["f"]>: ...; H["f"] = C`.

    The snapshot of a flag taken right before the flag is overwritten, and read only by the test of the next statement, is the
    flag itself tested before the store. Sound when the `if` neither reads nor writes `H["f"]`, calls nothing, and `w` is not
    read anywhere else."""
    count = 0

    def block(body: list) -> None:
        nonlocal count
        import copy as _copy
        i = 0
        while i + 2 < len(body):
            a, b, c = body[i], body[i + 1], body[i + 2]
            ok = isinstance(a, ast.Assign) and len(a.targets) == 1 and isinstance(a.targets[0], ast.Name) \
                and isinstance(a.value, ast.Subscript) and isinstance(a.value.value, ast.Name) and isinstance(a.value.slice, ast.Constant) \
                and isinstance(b, ast.Assign) and len(b.targets) == 1 and isinstance(b.targets[0], ast.Subscript) \
                and ast.unparse(b.targets[0]) == ast.unparse(a.value) and isinstance(b.value, ast.Constant) \
                and isinstance(c, ast.If) and not c.orelse
            if ok:
                w, flag = a.targets[0].id, ast.unparse(a.value)
                reads = sum(1 for y in ast.walk(fn) if isinstance(y, ast.Name) and y.id == w and isinstance(y.ctx, ast.Load))
                in_test = sum(1 for y in ast.walk(c.test) if isinstance(y, ast.Name) and y.id == w)
                stores = sum(1 for y in ast.walk(fn) if isinstance(y, ast.Name) and y.id == w and isinstance(y.ctx, ast.Store))
                body_ok = all(isinstance(st, ast.Assign) and len(st.targets) == 1 and isinstance(st.targets[0], ast.Subscript)
                              and isinstance(st.value, ast.Constant) and ast.unparse(st.targets[0]) != flag for st in c.body)
                test_ok = not any(isinstance(y, (ast.Call, ast.NamedExpr, ast.Await)) for y in ast.walk(c.test))
                if reads == in_test >= 1 and stores == 1 and body_ok and test_ok:
                    class _R(ast.NodeTransformer):
                        def visit_Name(self, n):
                            return ast.copy_location(_copy.deepcopy(a.value), n) if n.id == w else n
                    c.test = _R().visit(c.test)
                    ast.fix_missing_locations(c)
                    body[i:i + 3] = [c, b]
                    count += 1
                    continue
            i += 1
        for st in body:
            if not isinstance(st, (ast.FunctionDef, ast.ClassDef)):
                for fld in ("body", "orelse", "finalbody"):
                    sub = getattr(st, fld, None)
                    if isinstance(sub, list) and sub and isinstance(sub[0], ast.stmt):
                        block(sub)
                for h in getattr(st, "handlers", []) or []:
                    block(h.body)
    block(fn.body)
    return count


def _merge_complementary_ifs(fn: ast.FunctionDef) -> int:
    """`if c: A else: B` directly followed by `if c: C` / `if not c: C [else: D]` (c a side-effect-free test over names that
    A and B do not re-bind): the second test has the outcome of the first, so C (D) joins the matching arm."""
    count = 0

    def polar(e):
        neg = False
        while True:
            if isinstance(e, ast.UnaryOp) and isinstance(e.op, ast.Not):
                e, neg = e.operand, not neg
            elif isinstance(e, ast.Compare) and len(e.ops) == 1 and isinstance(e.ops[0], (ast.IsNot, ast.NotIn, ast.NotEq)):
                op = {ast.IsNot: ast.Is, ast.NotIn: ast.In, ast.NotEq: ast.Eq}[type(e.ops[0])]()
                e, neg = ast.Compare(e.left, [op], e.comparators), not neg
            else:
                return ast.unparse(e), neg

    def block(body: list) -> None:
        nonlocal count
        i = 0
        while i + 1 < len(body):
            s1, s2 = body[i], body[i + 1]
            if isinstance(s1, ast.If) and isinstance(s2, ast.If) and s1.orelse and _pure_test(s1.test) and _pure_test(s2.test):
                t1, n1 = polar(s1.test)
                t2, n2 = polar(s2.test)
                names = {y.id for y in ast.walk(s1.test) if isinstance(y, ast.Name)}
                stored = {y.id for st in s1.body + s1.orelse for y in ast.walk(st) if isinstance(y, ast.Name) and isinstance(y.ctx, (ast.Store, ast.Del))}
                leaves = any(isinstance(y, (ast.Return, ast.Raise, ast.Break, ast.Continue)) for st in s1.body + s1.orelse for y in ast.walk(st))
                has_attr = any(isinstance(y, (ast.Attribute, ast.Subscript)) for y in ast.walk(s1.test))
                if t1 == t2 and not (names & stored) and not leaves and not has_attr:
                    same = n1 == n2
                    s1.body = s1.body + (s2.body if same else s2.orelse)
                    s1.orelse = s1.orelse + (s2.orelse if same else s2.body)
                    if not s1.orelse:
                        s1.orelse = []
                    del body[i + 1]
                    count += 1
                    continue
            i += 1
        for st in body:
            if not isinstance(st, (ast.FunctionDef, ast.ClassDef)):
                for fld in ("body", "orelse", "finalbody"):
                    sub = getattr(st, fld, None)
                    if isinstance(sub, list) and sub and isinstance(sub[0], ast.stmt):
                        block(sub)
                for h in getattr(st, "handlers", []) or []:
                    block(h.body)
    block(fn.body)
    if count:
        ast.fix_missing_locations(fn)
    return count


def _edge_data_locals(fn: ast.FunctionDef) -> int:
    """`e = G.get_edge_data(a, b)` (networkx: the edge's own attribute dictionary, or None when there is no such edge; bound
    once, a and b plain names that are not re-bound): `e is None` is `not G.has_edge(a, b)`, any other read of `e` is
    `G.edges[a, b]`."""
    import copy as _copy
    stores: dict[str, int] = {}
    for n in ast.walk(fn):
        if isinstance(n, ast.Name) and isinstance(n.ctx, (ast.Store, ast.Del)):
            stores[n.id] = stores.get(n.id, 0) + 1
        if isinstance(n, (ast.Global, ast.Nonlocal)):
            return 0
    params = {a.arg for a in fn.args.posonlyargs + fn.args.args + fn.args.kwonlyargs}
    count = 0

    def block(body: list) -> None:
        nonlocal count
        for i, st in enumerate(body):
            if isinstance(st, ast.Assign) and len(st.targets) == 1 and isinstance(st.targets[0], ast.Name):
                v = st.value
                while isinstance(v, ast.Call) and isinstance(v.func, ast.Name) and v.func.id == "cast" and len(v.args) == 2:
                    v = v.args[1]
                e = st.targets[0].id
                if isinstance(v, ast.Call) and isinstance(v.func, ast.Attribute) and v.func.attr == "get_edge_data" and len(v.args) == 2 \
                        and not v.keywords and all(isinstance(a, ast.Name) for a in v.args) and stores.get(e) == 1 and e not in params \
                        and all(stores.get(a.id, 0) == 0 or (a.id not in params and stores.get(a.id) == 1) for a in v.args):
                    G, a_, b_ = v.func.value, v.args[0], v.args[1]
                    rest = body[i + 1:]
                    if any(isinstance(y, (ast.FunctionDef, ast.Lambda)) for r in rest for y in ast.walk(r)):
                        continue

                    def has_edge():
                        return ast.Call(ast.Attribute(_copy.deepcopy(G), "has_edge", ast.Load()), [_copy.deepcopy(a_), _copy.deepcopy(b_)], [])

                    class RN(ast.NodeTransformer):
                        def visit_Compare(self, n_):
                            if len(n_.ops) == 1 and isinstance(n_.left, ast.Name) and n_.left.id == e and isinstance(n_.ops[0], (ast.Is, ast.IsNot)) \
                                    and isinstance(n_.comparators[0], ast.Constant) and n_.comparators[0].value is None:
                                h = has_edge()
                                out = h if isinstance(n_.ops[0], ast.IsNot) else ast.UnaryOp(ast.Not(), h)
                                for y in ast.walk(out):
                                    ast.copy_location(y, n_)
                                return out
                            return self.generic_visit(n_)

                        def visit_Name(self, n_):
                            if n_.id == e and isinstance(n_.ctx, ast.Load):
                                out = ast.Subscript(ast.Attribute(_copy.deepcopy(G), "edges", ast.Load()),
                                                    ast.Tuple([_copy.deepcopy(a_), _copy.deepcopy(b_)], ast.Load()), ast.Load())
                                for y in ast.walk(out):
                                    ast.copy_location(y, n_)
                                return out
                            return n_
                    for k in range(i + 1, len(body)):
                        body[k] = RN().visit(body[k])
                    body[i] = ast.copy_location(ast.Pass(), st)
                    count += 1
            if not isinstance(st, (ast.FunctionDef, ast.ClassDef)):
                for fld in ("body", "orelse", "finalbody"):
                    sub = getattr(st, fld, None)
                    if isinstance(sub, list) and sub and isinstance(sub[0], ast.stmt):
                        block(sub)
                for h in getattr(st, "handlers", []) or []:
                    block(h.body)
    block(fn.body)
    if count:
        ast.fix_missing_locations(fn)
    return count


def _inline_local_constant_tuples(fn: ast.FunctionDef) -> int:
    """`values = (0, 1)` (bound once to a short tuple/list of constants, never mutated: read only as the iterable of loops /
    comprehensions or on the right of `in`): the name is the literal."""
    import copy as _copy
    stores: dict[str, int] = {}
    for n in ast.walk(fn):
        if isinstance(n, ast.Name) and isinstance(n.ctx, (ast.Store, ast.Del)):
            stores[n.id] = stores.get(n.id, 0) + 1
        if isinstance(n, (ast.Global, ast.Nonlocal)):
            return 0
    params = {a.arg for a in fn.args.posonlyargs + fn.args.args + fn.args.kwonlyargs}
    count = 0
    for i, st in enumerate(fn.body):
        if not (isinstance(st, (ast.Assign, ast.AnnAssign)) and getattr(st, "value", None) is not None):
            continue
        tg = st.targets[0] if isinstance(st, ast.Assign) and len(st.targets) == 1 else st.target if isinstance(st, ast.AnnAssign) else None
        v = st.value
        if not (isinstance(tg, ast.Name) and stores.get(tg.id) == 1 and tg.id not in params and isinstance(v, (ast.Tuple, ast.List))
                and 1 <= len(v.elts) <= 4 and all(isinstance(e, ast.Constant) for e in v.elts)):
            continue
        a = tg.id
        uses = [y for r in fn.body for y in ast.walk(r) if isinstance(y, ast.Name) and y.id == a and isinstance(y.ctx, ast.Load)]
        iters = {id(x.iter) for r in fn.body for x in ast.walk(r) if isinstance(x, (ast.For, ast.comprehension))}
        ins = {id(c.comparators[0]) for r in fn.body for c in ast.walk(r) if isinstance(c, ast.Compare) and len(c.ops) == 1
               and isinstance(c.ops[0], (ast.In, ast.NotIn))}
        if not uses or not all(id(u) in iters or id(u) in ins for u in uses):
            continue

        class RN(ast.NodeTransformer):
            def visit_Name(self, n_):
                if n_.id == a and isinstance(n_.ctx, ast.Load):
                    return ast.copy_location(ast.Tuple([_copy.deepcopy(e) for e in v.elts], ast.Load()), n_)
                return n_
        for k in range(i + 1, len(fn.body)):
            fn.body[k] = RN().visit(fn.body[k])
        fn.body[i] = ast.copy_location(ast.Pass(), st)
        count += 1
    if count:
        ast.fix_missing_locations(fn)
    return count


def _inline_row_tables(fn: ast.FunctionDef) -> int:
    """`rows = ((E1, True), (E2, False))` bound once in some block and read only later in the same block (the iterable of a
    loop, a generator in a debug print): the rows' computed elements get temporaries at the place of the definition and every
    read of `rows` is the literal over them, which the unroller then takes apart. Tuples cannot be mutated, so nothing is lost."""
    import copy as _copy
    stores: dict[str, int] = {}
    for n in ast.walk(fn):
        if isinstance(n, ast.Name) and isinstance(n.ctx, (ast.Store, ast.Del)):
            stores[n.id] = stores.get(n.id, 0) + 1
        if isinstance(n, (ast.Global, ast.Nonlocal)):
            return 0
    count = 0
    for parent in ast.walk(fn):
        for fld in ("body", "orelse", "finalbody"):
            blk = getattr(parent, fld, None)
            if not isinstance(blk, list):
                continue
            i = 0
            while i < len(blk):
                st = blk[i]
                tg = st.targets[0] if isinstance(st, ast.Assign) and len(st.targets) == 1 else st.target if isinstance(st, ast.AnnAssign) else None
                v = getattr(st, "value", None)
                if not (isinstance(tg, ast.Name) and stores.get(tg.id) == 1 and isinstance(v, (ast.Tuple, ast.List)) and 2 <= len(v.elts) <= 4
                        and all(isinstance(r, ast.Tuple) and 2 <= len(r.elts) <= 3 and len(r.elts) == len(v.elts[0].elts) for r in v.elts)
                        and not all(isinstance(e, ast.Constant) for r in v.elts for e in r.elts)):
                    i += 1
                    continue
                a = tg.id
                all_reads = [y for y in ast.walk(fn) if isinstance(y, ast.Name) and y.id == a and isinstance(y.ctx, ast.Load)]
                later = [y for r in blk[i + 1:] for y in ast.walk(r) if isinstance(y, ast.Name) and y.id == a and isinstance(y.ctx, ast.Load)]
                if not later or len(all_reads) != len(later) or any(isinstance(y, (ast.Starred, ast.Yield, ast.Lambda)) for r in v.elts for y in ast.walk(r)):
                    i += 1
                    continue
                temps, rows = [], []
                for ri, r in enumerate(v.elts):
                    row = []
                    for ci, e in enumerate(r.elts):
                        if isinstance(e, (ast.Constant, ast.Name)):
                            row.append(e)
                        else:
                            t = f"_row_{a}_{ri}_{ci}"
                            temps.append(ast.copy_location(ast.Assign([ast.Name(t, ast.Store())], e), st))
                            row.append(ast.Name(t, ast.Load()))
                    rows.append(row)

                class RN(ast.NodeTransformer):
                    def visit_Name(self, n_):
                        if n_.id == a and isinstance(n_.ctx, ast.Load):
                            return ast.copy_location(ast.Tuple([ast.Tuple([_copy.deepcopy(e) for e in row], ast.Load()) for row in rows], ast.Load()), n_)
                        return n_
                for k in range(i + 1, len(blk)):
                    blk[k] = RN().visit(blk[k])
                blk[i:i + 1] = temps or [ast.copy_location(ast.Pass(), st)]
                count += 1
                i += max(1, len(temps))
    if count:
        ast.fix_missing_locations(fn)
    return count


def _drop_local_annotations(tree: ast.Module) -> None:
    for x in ast.walk(tree):
        if isinstance(x, ast.FunctionDef):
            _count("local_constant_tuples", _inline_local_constant_tuples(x))
            _count("row_tables", _inline_row_tables(x))
            _count("partials_expanded", _expand_partials(x))
            _count("edge_data_locals", _edge_data_locals(x))
            _count("iterator_frames_read_as_lists", _iterator_frames_to_lists(x))
    _DropAnn().visit(tree)
    # loops over short literal sequences are unrolled (`for v in (0, 1): ...`, `for bdd, up in ((p, True), (n, False)): ...`)
    from . import peval

    def unroll_in(body: list) -> None:
        for i, st in enumerate(body):
            if isinstance(st, ast.FunctionDef):
                if any(isinstance(x, ast.For) and isinstance(x.iter, (ast.Tuple, ast.List)) for x in ast.walk(st)):
                    f2 = peval._Fold({}, unroll=True)
                    st.body = f2._block(st.body) or st.body
                    ast.fix_missing_locations(st)
            elif isinstance(st, ast.ClassDef):
                unroll_in(st.body)
            elif isinstance(st, (ast.If, ast.Try)):
                unroll_in(st.body)
                unroll_in(getattr(st, "orelse", []))
    unroll_in(tree.body)
    for x in ast.walk(tree):
        if isinstance(x, ast.FunctionDef):
            _count("flag_snapshots", _flag_snapshots(x))
            _count("bulk_none_writes", _bulk_none_writes(x))
            _count("map_loops", _map_loops(x))
            _count("filter_pipelines_fused", _fuse_filter_pipeline(x))
            _count("complementary_ifs_merged", _merge_complementary_ifs(x))
            _count("joined_program_texts_split", _split_joined_adds(x))
            _count("while_true_fixpoints", _while_true_flag(x))
            _count("walrus_tests_hoisted", _hoist_if_walrus(x))
            _count("dag_view_aliases", _inline_dag_view_aliases(x))
            _count("quantifiers_over_literal_tuples", _unroll_literal_quantifiers(x))
    for x in ast.walk(tree):
        if isinstance(x, ast.ClassDef):
            for y in x.body:
                if isinstance(y, ast.FunctionDef) and y.args.args and not any(
                        isinstance(d, ast.Name) and d.id == "staticmethod" for d in y.decorator_list):
                    _count("explicit_stacks_read_as_recursion", _worklist_to_recursion(y, True))
    for y in tree.body:
        if isinstance(y, ast.FunctionDef):
            _count("explicit_stacks_read_as_recursion", _worklist_to_recursion(y, False))
            _propagate_local_copies(y)
            _count("cursor_frames_read_as_consumed_lists", _cursor_frames_to_lists(y))
    from . import memo
    for x in ast.walk(tree):
        if isinstance(x, ast.FunctionDef):
            _flatten_chains(x)
            _count("decorate_sort_undecorate", _dsu_to_sorted(x))
            _count("size_snapshot_loops", _size_snapshot_loops(x))
            _count("length_shadows", _drop_length_shadows(x))
            _count("named_conditions_inlined", _inline_flag_locals(x))
            _count("memo_tables_dissolved", len(memo.dissolve(x)))


def _unroll_literal_quantifiers(fn: ast.AST) -> int:
    """any(E(t) for t in (a, b))  ->  E(a) or E(b);  all(...)  ->  and  (a literal tuple/list of at most four plain names or
    constants, one generator without filter; evaluation order and short-circuiting are the same)."""
    import copy as _copy
    count = [0]

    class Q(ast.NodeTransformer):
        def visit_Call(self, n):
            self.generic_visit(n)
            if isinstance(n.func, ast.Name) and n.func.id in ("any", "all") and len(n.args) == 1 and not n.keywords \
                    and isinstance(n.args[0], (ast.GeneratorExp, ast.ListComp)) and len(n.args[0].generators) == 1:
                g = n.args[0].generators[0]
                if not g.ifs and not g.is_async and isinstance(g.target, ast.Name) and isinstance(g.iter, (ast.Tuple, ast.List)) \
                        and 1 <= len(g.iter.elts) <= 4 and all(isinstance(e, (ast.Name, ast.Constant)) for e in g.iter.elts) \
                        and not any(isinstance(y, (ast.NamedExpr, ast.Lambda, ast.GeneratorExp, ast.ListComp, ast.SetComp, ast.DictComp))
                                    for y in ast.walk(n.args[0].elt)):
                    t = g.target.id

                    def inst(e):
                        class S(ast.NodeTransformer):
                            def visit_Name(self, x):
                                return ast.copy_location(_copy.deepcopy(e), x) if x.id == t and isinstance(x.ctx, ast.Load) else x
                        return S().visit(_copy.deepcopy(n.args[0].elt))
                    vals = [inst(e) for e in g.iter.elts]
                    out = vals[0] if len(vals) == 1 else ast.BoolOp(ast.Or() if n.func.id == "any" else ast.And(), vals)
                    if len(vals) == 1:
                        out = ast.Call(ast.Name("bool", ast.Load()), [out], [])
                    for y in ast.walk(out):
                        ast.copy_location(y, n)
                    count[0] += 1
                    return out
            return n
    Q().visit(fn)
    if count[0]:
        ast.fix_missing_locations(fn)
    return count[0]


def _inline_dag_view_aliases(fn: ast.FunctionDef) -> int:
    """`nodes = self.dag.nodes` / `edges = sd.dag.edges` / `dag = sd.dag` (bound once, at the top level of the function, from
    a parameter that is never re-bound; `.dag` is never assigned in the function): the local is the view it names."""
    params = {a.arg for a in fn.args.posonlyargs + fn.args.args + fn.args.kwonlyargs}
    stores: dict[str, int] = {}
    for n in ast.walk(fn):
        if isinstance(n, ast.Name) and isinstance(n.ctx, (ast.Store, ast.Del)):
            stores[n.id] = stores.get(n.id, 0) + 1
        if isinstance(n, (ast.Global, ast.Nonlocal)):
            return 0
        if isinstance(n, ast.Attribute) and isinstance(n.ctx, (ast.Store, ast.Del)) and n.attr == "dag":
            return 0
    count = 0
    for i, st in enumerate(fn.body):
        if not (isinstance(st, ast.Assign) and len(st.targets) == 1 and isinstance(st.targets[0], ast.Name)):
            continue
        a, v = st.targets[0].id, st.value
        if stores.get(a) != 1 or a in params:
            continue
        chain = []
        e = v
        while isinstance(e, ast.Attribute):
            chain.append(e.attr)
            e = e.value
        chain.reverse()
        if not (isinstance(e, ast.Name) and e.id in params and stores.get(e.id, 0) == 0 and chain in (["dag"], ["dag", "nodes"], ["dag", "edges"])):
            continue
        if any(isinstance(y, (ast.FunctionDef, ast.Lambda)) and any(isinstance(z, ast.Name) and z.id == a for z in ast.walk(y))
               for r in fn.body[i + 1:] for y in ast.walk(r)):
            continue
        import copy as _copy

        class RN(ast.NodeTransformer):
            def visit_Name(self, n_):
                if n_.id == a and isinstance(n_.ctx, ast.Load):
                    return ast.copy_location(_copy.deepcopy(v), n_)
                return n_
        for k in range(i + 1, len(fn.body)):
            fn.body[k] = RN().visit(fn.body[k])
        fn.body[i] = ast.copy_location(ast.Pass(), st)
        count += 1
    if count:
        ast.fix_missing_locations(fn)
    return count


_MUTATORS = {"append", "extend", "add", "remove", "discard", "pop", "clear", "sort", "update", "insert", "reverse", "popleft",
             "appendleft", "setdefault", "popitem", "difference_update", "intersection_update", "symmetric_difference_update"}


def _pure_flag_expr(e: ast.expr) -> bool:
    """A comparison / and / or / not over names, constants, len(name) and `x.config[const]` reads."""
    if isinstance(e, ast.BoolOp):
        return all(_pure_flag_expr(v) for v in e.values)
    if isinstance(e, ast.UnaryOp) and isinstance(e.op, ast.Not):
        return _pure_flag_expr(e.operand)
    if isinstance(e, ast.Compare):
        return all(_pure_operand(x) for x in [e.left] + e.comparators)
    return False


def _pure_test(e: ast.expr) -> bool:
    """a side-effect-free test: a flag expression, or a plain (possibly negated) Boolean local"""
    while isinstance(e, ast.UnaryOp) and isinstance(e.op, ast.Not):
        e = e.operand
    return isinstance(e, ast.Name) or _pure_flag_expr(e)


def _pure_operand(e: ast.expr) -> bool:
    if isinstance(e, (ast.Name, ast.Constant)):
        return True
    if isinstance(e, ast.Call) and isinstance(e.func, ast.Name) and e.func.id == "len" and len(e.args) == 1 and not e.keywords:
        return isinstance(e.args[0], ast.Name)
    if isinstance(e, ast.Subscript) and isinstance(e.slice, ast.Constant) and isinstance(e.value, ast.Attribute) \
            and e.value.attr == "config" and isinstance(e.value.value, ast.Name):
        return True
    if isinstance(e, ast.UnaryOp) and isinstance(e.op, ast.USub):
        return _pure_operand(e.operand)
    return False


def _touches(st: ast.AST, names: set[str]) -> bool:
    """Does the statement (anywhere inside) rebind or mutate one of the names?"""
    for n in ast.walk(st):
        if isinstance(n, ast.Name) and isinstance(n.ctx, (ast.Store, ast.Del)) and n.id in names:
            return True
        if isinstance(n, (ast.Global, ast.Nonlocal)) and set(n.names) & names:
            return True
        if isinstance(n, ast.Call) and isinstance(n.func, ast.Attribute) and n.func.attr in _MUTATORS \
                and isinstance(n.func.value, ast.Name) and n.func.value.id in names:
            return True
        if isinstance(n, ast.Subscript) and isinstance(n.ctx, (ast.Store, ast.Del)) and isinstance(n.value, ast.Name) \
                and n.value.id in names:
            return True
    return False


def _inline_flag_locals(fn: ast.FunctionDef) -> int:
    """`b = <comparison>` stored once: later reads of `b` in the same block (and below it) are replaced by the comparison as
    long as none of its operands was rebound or mutated in between. Named conditions then look like the conditions they name."""
    stores: dict[str, int] = {}
    own: list[ast.AST] = []
    stack: list[ast.AST] = list(fn.body)
    nested_names: set[str] = set()
    while stack:
        n = stack.pop()
        own.append(n)
        for c in ast.iter_child_nodes(n):
            if isinstance(c, (ast.FunctionDef, ast.Lambda, ast.ClassDef)):
                for y in ast.walk(c):
                    if isinstance(y, (ast.Nonlocal, ast.Global)):
                        nested_names.update(y.names)
                continue
            stack.append(c)
    for n in own:
        if isinstance(n, ast.Name) and isinstance(n.ctx, (ast.Store, ast.Del)):
            stores[n.id] = stores.get(n.id, 0) + 1
    params = {a.arg for a in fn.args.posonlyargs + fn.args.args + fn.args.kwonlyargs}
    count = 0

    def replace_in(st: ast.AST, name: str, value: ast.expr) -> None:
        nonlocal count
        for fld, v in ast.iter_fields(st):
            items = v if isinstance(v, list) else [v]
            for i, c in enumerate(items):
                if not isinstance(c, ast.AST) or isinstance(c, (ast.FunctionDef, ast.Lambda, ast.ClassDef)):
                    continue
                if isinstance(c, ast.Name) and isinstance(c.ctx, ast.Load) and c.id == name:
                    import copy
                    k = copy.deepcopy(value)
                    for y in ast.walk(k):
                        ast.copy_location(y, c)
                    count += 1
                    if isinstance(v, list):
                        v[i] = k
                    else:
                        setattr(st, fld, k)
                else:
                    replace_in(c, name, value)

    def block(body: list) -> None:
        for i, st in enumerate(body):
            if isinstance(st, ast.Assign) and len(st.targets) == 1 and isinstance(st.targets[0], ast.Name) \
                    and stores.get(st.targets[0].id) == 1 and st.targets[0].id not in params \
                    and st.targets[0].id not in nested_names and _pure_flag_expr(st.value):
                free = {y.id for y in ast.walk(st.value) if isinstance(y, ast.Name)} - {"len"}
                if st.targets[0].id in free:
                    continue
                for later in body[i + 1:]:
                    if _touches(later, free):
                        break
                    replace_in(later, st.targets[0].id, st.value)
            for fld in ("body", "orelse", "finalbody"):
                sub = getattr(st, fld, None)
                if isinstance(sub, list) and sub and isinstance(sub[0], ast.stmt) and not isinstance(st, (ast.FunctionDef, ast.ClassDef)):
                    block(sub)
            for h in getattr(st, "handlers", []) or []:
                block(h.body)
    block(fn.body)
    if count:
        # a named condition that is no longer read anywhere is gone
        loads = {y.id for y in ast.walk(fn) if isinstance(y, ast.Name) and isinstance(y.ctx, ast.Load)}

        def prune(body: list) -> None:
            for k, st in enumerate(body):
                if isinstance(st, ast.Assign) and len(st.targets) == 1 and isinstance(st.targets[0], ast.Name) \
                        and st.targets[0].id not in loads and stores.get(st.targets[0].id) == 1 \
                        and st.targets[0].id not in params and st.targets[0].id not in nested_names and _pure_flag_expr(st.value):
                    body[k] = ast.copy_location(ast.Pass(), st)
                for fld in ("body", "orelse", "finalbody"):
                    sub = getattr(st, fld, None)
                    if isinstance(sub, list) and sub and isinstance(sub[0], ast.stmt) and not isinstance(st, (ast.FunctionDef, ast.ClassDef)):
                        prune(sub)
                for h in getattr(st, "handlers", []) or []:
                    prune(h.body)
        prune(fn.body)
        # `pass` among other statements says nothing
        def squeeze(body: list) -> None:
            if len(body) > 1:
                body[:] = [st for st in body if not isinstance(st, ast.Pass)] or [body[0]]
            for st in body:
                for fld in ("body", "orelse", "finalbody"):
                    sub = getattr(st, fld, None)
                    if isinstance(sub, list) and sub and isinstance(sub[0], ast.stmt) and not isinstance(st, (ast.FunctionDef, ast.ClassDef)):
                        squeeze(sub)
                for h in getattr(st, "handlers", []) or []:
                    squeeze(h.body)
        squeeze(fn.body)
    return count


def _worklist_to_recursion(fn: ast.FunctionDef, in_class: bool) -> bool:
    """A function that only drives a private stack of frames made of its own parameters

        def f(self, a, b):  [asserts]
            todo = [(a, b)]
            while todo:
                x, y = todo.pop()
                BODY ... todo.append((e1, e2)) ...

    is read as the recursion it replaces: `[asserts]; BODY[x:=a, y:=b]` with `self.f(e1, e2)` for every push. The order in
    which frames are handled differs (deferred instead of immediate); the rules on such helpers (what is stored under which
    guard, which frames are created) do not depend on it."""
    params = [a.arg for a in fn.args.posonlyargs + fn.args.args]
    if fn.args.vararg or fn.args.kwarg or fn.args.kwonlyargs or fn.decorator_list:
        return False
    body = [s_ for s_ in fn.body if not isinstance(s_, ast.Pass)]
    i = 0
    while i < len(body) and (isinstance(body[i], ast.Assert) or isinstance(body[i], ast.Expr) and isinstance(body[i].value, ast.Constant)):
        i += 1
    if len(body) - i != 2:
        return False
    init, loop = body[i], body[i + 1]
    if isinstance(init, ast.AnnAssign) and init.value is not None and isinstance(init.target, ast.Name):
        Q, iv = init.target.id, init.value
    elif isinstance(init, ast.Assign) and len(init.targets) == 1 and isinstance(init.targets[0], ast.Name):
        Q, iv = init.targets[0].id, init.value
    else:
        return False
    if isinstance(iv, ast.Call) and isinstance(iv.func, ast.Name) and iv.func.id == "deque" and len(iv.args) == 1:
        iv = iv.args[0]
    if not (isinstance(iv, ast.List) and len(iv.elts) == 1):
        return False
    f0 = iv.elts[0]
    frame0 = list(f0.elts) if isinstance(f0, ast.Tuple) else [f0]
    if not all(isinstance(e, ast.Name) and e.id in params and (not in_class or e.id != params[0]) for e in frame0) \
            or len({e.id for e in frame0}) != len(frame0):
        return False
    if not isinstance(loop, ast.While) or loop.orelse or not loop.body:
        return False
    t = loop.test
    ok_test = isinstance(t, ast.Name) and t.id == Q or (
        isinstance(t, ast.Compare) and len(t.ops) == 1 and isinstance(t.left, ast.Call) and isinstance(t.left.func, ast.Name)
        and t.left.func.id == "len" and len(t.left.args) == 1 and isinstance(t.left.args[0], ast.Name) and t.left.args[0].id == Q
        and isinstance(t.comparators[0], ast.Constant) and t.comparators[0].value == 0 and isinstance(t.ops[0], (ast.Gt, ast.NotEq)))
    if not ok_test:
        return False
    draw = loop.body[0]
    if not (isinstance(draw, ast.Assign) and len(draw.targets) == 1 and isinstance(draw.value, ast.Call)
            and isinstance(draw.value.func, ast.Attribute) and isinstance(draw.value.func.value, ast.Name)
            and draw.value.func.value.id == Q and draw.value.func.attr in ("pop", "popleft")
            and (not draw.value.args or draw.value.func.attr == "pop" and len(draw.value.args) == 1
                 and isinstance(draw.value.args[0], ast.Constant) and draw.value.args[0].value in (0, -1))):
        return False
    tg = draw.targets[0]
    fvars = list(tg.elts) if isinstance(tg, ast.Tuple) else [tg]
    if len(fvars) != len(frame0) or not all(isinstance(v, ast.Name) for v in fvars) or len({v.id for v in fvars}) != len(fvars):
        return False
    rest = loop.body[1:]
    ren = {v.id: p.id for v, p in zip(fvars, frame0)}
    # every other use of the stack is a push of a frame of the same shape; no break; frame variables and parameters are
    # not rebound in the body
    pushes = []
    for st in rest:
        for n in ast.walk(st):
            if isinstance(n, (ast.FunctionDef, ast.Lambda)):
                return False
            if isinstance(n, ast.Name) and n.id == Q:
                par_ok = False
                for c in ast.walk(st):
                    if isinstance(c, ast.Call) and isinstance(c.func, ast.Attribute) and c.func.value is n \
                            and c.func.attr == "append" and len(c.args) == 1 and not c.keywords:
                        a = c.args[0]
                        els = list(a.elts) if isinstance(a, ast.Tuple) and len(frame0) > 1 else [a]
                        if len(els) == len(frame0):
                            par_ok = True
                            pushes.append((c, els))
                if not par_ok:
                    return False
            if isinstance(n, ast.Name) and isinstance(n.ctx, (ast.Store, ast.Del)) and (n.id in ren or n.id in params):
                return False
            if isinstance(n, ast.Name) and n.id in ren.values() and ren.get(n.id) != n.id and n.id not in ren:
                # the parameter itself is still read in the body next to the frame variable: keep apart
                if any(v != p for v, p in ren.items()):
                    return False

    def own_level(stmts, in_inner_loop: bool) -> bool:
        for st in stmts:
            if isinstance(st, ast.Break) and not in_inner_loop:
                return False
            if isinstance(st, (ast.Return, ast.Yield, ast.YieldFrom)):
                return False
            inner = in_inner_loop or isinstance(st, (ast.For, ast.While))
            for fld in ("body", "orelse", "finalbody"):
                sub = getattr(st, fld, None)
                if isinstance(sub, list) and sub and isinstance(sub[0], ast.stmt):
                    if not own_level(sub, inner if fld == "body" else in_inner_loop):
                        return False
            for h in getattr(st, "handlers", []) or []:
                if not own_level(h.body, in_inner_loop):
                    return False
        return True
    if not own_level(rest, False) or not pushes:
        return False
    if any(isinstance(n, (ast.Yield, ast.YieldFrom, ast.Return)) for st in rest for n in ast.walk(st)):
        return False
    # pushes must be statements of their own
    push_calls = {id(c) for c, _ in pushes}
    for st in rest:
        for n in ast.walk(st):
            if isinstance(n, ast.Call) and id(n) in push_calls:
                pass
    pos = {p.id: k for k, p in enumerate(frame0)}

    class R(ast.NodeTransformer):
        def visit_Name(self, n):
            if n.id in ren:
                return ast.copy_location(ast.Name(ren[n.id], n.ctx), n)
            return n

        def visit_Continue(self, n):
            return n

        def visit_Call(self, n):
            if id(n) in push_calls:
                els = next(e for c, e in pushes if c is n)
                els = [self.visit(e) for e in els]
                args = []
                for p_ in params[(1 if in_class else 0):]:
                    args.append(els[pos[p_]] if p_ in pos else ast.Name(p_, ast.Load()))
                f_ = ast.Attribute(ast.Name(params[0], ast.Load()), fn.name, ast.Load()) if in_class else ast.Name(fn.name, ast.Load())
                call = ast.Call(f_, args, [])
                ast.copy_location(call, n)
                ast.fix_missing_locations(call)
                for y in ast.walk(call):
                    if hasattr(y, "lineno"):
                        y.lineno = y.end_lineno = n.lineno
                return call
            return self.generic_visit(n)

    def cont_to_return(stmts, in_inner_loop: bool):
        for k, st in enumerate(stmts):
            if isinstance(st, ast.Continue) and not in_inner_loop:
                stmts[k] = ast.copy_location(ast.Return(None), st)
                continue
            inner = in_inner_loop or isinstance(st, (ast.For, ast.While))
            for fld in ("body", "orelse", "finalbody"):
                sub = getattr(st, fld, None)
                if isinstance(sub, list) and sub and isinstance(sub[0], ast.stmt):
                    cont_to_return(sub, inner if fld == "body" else in_inner_loop)
            for h in getattr(st, "handlers", []) or []:
                cont_to_return(h.body, in_inner_loop)
    new_rest = [R().visit(st) for st in rest]
    cont_to_return(new_rest, False)
    fn.body = body[:i] + new_rest
    ast.fix_missing_locations(fn)
    return True


def _drop_length_shadows(fn: ast.FunctionDef) -> int:
    """A local that is kept equal to `len(X)` -- set from `len(X)` only, and again right after every re-binding of X, X
    never changed in place -- is read as `len(X)`."""
    own: list[ast.AST] = []
    stack: list[ast.AST] = list(fn.body)
    while stack:
        n = stack.pop()
        own.append(n)
        for c in ast.iter_child_nodes(n):
            if isinstance(c, (ast.FunctionDef, ast.Lambda, ast.ClassDef)):
                if any(isinstance(y, (ast.Nonlocal, ast.Global)) for y in ast.walk(c)):
                    return 0
                continue
            stack.append(c)
    params = {a.arg for a in fn.args.posonlyargs + fn.args.args + fn.args.kwonlyargs}
    cands: dict[str, str] = {}
    bad: set[str] = set()
    for n in own:
        if isinstance(n, ast.Name) and isinstance(n.ctx, (ast.Store, ast.Del)):
            pass
    assigns: dict[str, list[ast.Assign]] = {}
    other_stores: set[str] = set()
    for n in own:
        if isinstance(n, ast.Assign) and len(n.targets) == 1 and isinstance(n.targets[0], ast.Name):
            assigns.setdefault(n.targets[0].id, []).append(n)
    plain = {id(t) for lst in assigns.values() for a in lst for t in a.targets}
    for n in own:
        if isinstance(n, ast.Name) and isinstance(n.ctx, (ast.Store, ast.Del)) and id(n) not in plain:
            other_stores.add(n.id)
    for S, lst in assigns.items():
        if S in params or S in other_stores:
            continue
        xs = set()
        for a in lst:
            v = a.value
            if isinstance(v, ast.Call) and isinstance(v.func, ast.Name) and v.func.id == "len" and len(v.args) == 1 \
                    and isinstance(v.args[0], ast.Name) and not v.keywords:
                xs.add(v.args[0].id)
            else:
                xs.add("")
        if len(xs) == 1 and "" not in xs and len(lst) >= 2:
            cands[S] = xs.pop()
    count = 0
    for S, X in cands.items():
        if X in other_stores or X == S:
            continue
        # X is not changed in place
        if any(isinstance(n, ast.Call) and isinstance(n.func, ast.Attribute) and isinstance(n.func.value, ast.Name)
               and n.func.value.id == X and n.func.attr in _MUTATORS for n in own) or \
                any(isinstance(n, ast.Subscript) and isinstance(n.ctx, (ast.Store, ast.Del)) and isinstance(n.value, ast.Name)
                    and n.value.id == X for n in own) or \
                any(isinstance(n, ast.AugAssign) and isinstance(n.target, ast.Name) and n.target.id == X for n in own):
            continue
        sdefs = assigns[S]
        first = next((st for st in fn.body if st in sdefs), None)
        if first is None:
            continue
        k0 = fn.body.index(first)
        xdefs = assigns.get(X, [])
        if X not in params and not any(st in xdefs for st in fn.body[:k0]):
            continue
        # X stores before the first S def are all at top level before it; the others are followed by the refresh
        ok = True
        pending = [d for d in xdefs if d not in fn.body[:k0]]
        early_nested = [d for st in fn.body[:k0] for d in ast.walk(st) if d in xdefs and d is not st]
        if early_nested:
            continue

        def followed(body: list) -> None:
            nonlocal ok
            for i, st in enumerate(body):
                if st in pending:
                    good = False
                    for nxt in body[i + 1:]:
                        if nxt in sdefs:
                            good = True
                            break
                        if not isinstance(nxt, (ast.Assign, ast.Expr)) or any(isinstance(y, ast.Name) and y.id in (S, X) for y in ast.walk(nxt)):
                            break
                    if not good:
                        ok = False
                for fld in ("body", "orelse", "finalbody"):
                    sub = getattr(st, fld, None)
                    if isinstance(sub, list) and sub and isinstance(sub[0], ast.stmt) and not isinstance(st, (ast.FunctionDef, ast.ClassDef)):
                        followed(sub)
                for h in getattr(st, "handlers", []) or []:
                    followed(h.body)
        followed(fn.body)
        if not ok:
            continue

        class R(ast.NodeTransformer):
            def visit_FunctionDef(self, n):
                return n if n is not fn else self.generic_visit(n)

            def visit_Lambda(self, n):
                return n

            def visit_Assign(self, n):
                if n in sdefs:
                    return ast.copy_location(ast.Pass(), n)
                return self.generic_visit(n)

            def visit_Name(self, n):
                if n.id == S and isinstance(n.ctx, ast.Load):
                    c = ast.Call(ast.Name("len", ast.Load()), [ast.Name(X, ast.Load())], [])
                    for y in ast.walk(c):
                        ast.copy_location(y, n)
                    return c
                return n
        R().visit(fn)
        count += 1
    if count:
        ast.fix_missing_locations(fn)
    return count


def _cursor_frames_to_lists(fn: ast.FunctionDef) -> bool:
    """Stack frames `(node, items, position)` that walk a fixed list with a cursor are read as frames `(node, items)`
    whose list is consumed from the back:

        items[position]            ->  items[-1]                 position += 1            ->  items.pop()
        position < len(items)      ->  len(items) > 0            position == len(items)   ->  len(items) == 0
        x = items[position] ... push((node, items, position + 1))   ->   x = items.pop() ... push((node, items))
        items = sorted(E)          ->  items = sorted(E, reverse=True)      (same visiting order)

    Only when `position` and `items` are used in no other way (in particular the list is never changed in place)."""
    import copy as _copy
    pops = [n for n in ast.walk(fn) if isinstance(n, ast.Assign) and len(n.targets) == 1 and isinstance(n.targets[0], ast.Tuple)
            and len(n.targets[0].elts) == 3 and all(isinstance(t, ast.Name) for t in n.targets[0].elts)
            and isinstance(n.value, ast.Call) and isinstance(n.value.func, ast.Attribute) and n.value.func.attr == "pop"
            and isinstance(n.value.func.value, ast.Name) and not n.value.args]
    if len(pops) != 1:
        return False
    fp = pops[0]
    A, L, I = (t.id for t in fp.targets[0].elts)
    S = fp.value.func.value.id
    parents: dict[int, ast.AST] = {}
    for p_ in ast.walk(fn):
        for c_ in ast.iter_child_nodes(p_):
            parents[id(c_)] = p_
    plan: list = []

    def len_of_L(e) -> bool:
        return isinstance(e, ast.Call) and isinstance(e.func, ast.Name) and e.func.id == "len" and len(e.args) == 1 \
            and isinstance(e.args[0], ast.Name) and e.args[0].id == L

    # every use of the cursor
    for n in ast.walk(fn):
        if not (isinstance(n, ast.Name) and n.id == I):
            continue
        p_ = parents.get(id(n))
        if p_ is fp.targets[0]:
            continue
        if isinstance(p_, ast.Subscript) and p_.slice is n and isinstance(p_.value, ast.Name) and p_.value.id == L and isinstance(p_.ctx, ast.Load):
            plan.append(("index", p_))
            continue
        if isinstance(p_, ast.Compare) and len(p_.ops) == 1:
            a_, b_ = p_.left, p_.comparators[0]
            op = type(p_.ops[0])
            if a_ is n and len_of_L(b_) and op in (ast.Lt, ast.NotEq, ast.Eq, ast.GtE):
                plan.append(("cmp", p_, op in (ast.Lt, ast.NotEq)))
                continue
            if b_ is n and len_of_L(a_) and op in (ast.Gt, ast.NotEq, ast.Eq, ast.LtE):
                plan.append(("cmp", p_, op in (ast.Gt, ast.NotEq)))
                continue
            return False
        if isinstance(p_, ast.AugAssign) and p_.target is n and isinstance(p_.op, ast.Add) and isinstance(p_.value, ast.Constant) and p_.value.value == 1:
            plan.append(("step", p_))
            continue
        if isinstance(p_, ast.Assign) and len(p_.targets) == 1 and p_.targets[0] is n and isinstance(p_.value, ast.Constant) \
                and p_.value.value == 0:
            # the cursor is put back to the start where the list itself is (re)computed: a fresh list, nothing consumed yet
            par_ = parents.get(id(p_))
            blk_ = next((getattr(par_, fld) for fld in ("body", "orelse", "finalbody")
                         if isinstance(getattr(par_, fld, None), list) and p_ in getattr(par_, fld)), None)
            if blk_ is not None and any(isinstance(x, ast.Assign) and len(x.targets) == 1 and isinstance(x.targets[0], ast.Name)
                                        and x.targets[0].id == L for x in blk_):
                plan.append(("reset", p_, blk_))
                continue
            return False
        if isinstance(p_, ast.Tuple) and len(p_.elts) == 3 and p_.elts[2] is n:
            plan.append(("push-same", p_))
            continue
        if isinstance(p_, ast.BinOp) and isinstance(p_.op, ast.Add) and p_.left is n and isinstance(p_.right, ast.Constant) and p_.right.value == 1 \
                and isinstance(parents.get(id(p_)), ast.Tuple) and len(parents[id(p_)].elts) == 3 and parents[id(p_)].elts[2] is p_:
            plan.append(("push-next", parents[id(p_)]))
            continue
        return False
    if not any(k[0] in ("index", "step", "push-next") for k in plan):
        return False
    # the list itself is only read
    for n in ast.walk(fn):
        if isinstance(n, ast.Call) and isinstance(n.func, ast.Attribute) and isinstance(n.func.value, ast.Name) and n.func.value.id == L \
                and n.func.attr in _MUTATORS:
            return False
        if isinstance(n, ast.Subscript) and isinstance(n.ctx, (ast.Store, ast.Del)) and isinstance(n.value, ast.Name) and n.value.id == L:
            return False
    # frames: every tuple pushed on / stored in the stack has three parts, the third being 0, the cursor or cursor + 1
    frames = []
    for n in ast.walk(fn):
        tup = None
        if isinstance(n, ast.Call) and isinstance(n.func, ast.Attribute) and n.func.attr == "append" and isinstance(n.func.value, ast.Name) \
                and n.func.value.id == S and len(n.args) == 1:
            tup = n.args[0]
        elif isinstance(n, (ast.Assign, ast.AnnAssign)) and getattr(n, "value", None) is not None \
                and isinstance(n.targets[0] if isinstance(n, ast.Assign) else n.target, ast.Name) \
                and (n.targets[0] if isinstance(n, ast.Assign) else n.target).id == S and isinstance(n.value, ast.List):
            for e in n.value.elts:
                frames.append(e)
            continue
        if tup is not None:
            frames.append(tup)
    for t in frames:
        if not (isinstance(t, ast.Tuple) and len(t.elts) == 3):
            return False
        third = t.elts[2]
        if isinstance(third, ast.Constant) and third.value == 0:
            continue
        if any(k[0] in ("push-same", "push-next") and k[1] is t for k in plan):
            if not (isinstance(t.elts[1], ast.Name) and t.elts[1].id == L):
                return False
            continue
        return False
    # sorted() definitions of the list: the order is reversed
    sorts = []
    for n in ast.walk(fn):
        if isinstance(n, ast.Assign) and len(n.targets) == 1 and isinstance(n.targets[0], ast.Name) and n.targets[0].id == L \
                and isinstance(n.value, ast.Call) and isinstance(n.value.func, ast.Name) and n.value.func.id == "sorted":
            rv = next((k for k in n.value.keywords if k.arg == "reverse"), None)
            if rv is not None and not (isinstance(rv.value, ast.Constant) and isinstance(rv.value.value, bool)):
                return False
            sorts.append((n.value, rv))
    # ---- rewrite
    for kind, node, *more in plan:
        if kind == "index":
            node.slice = ast.copy_location(ast.UnaryOp(ast.USub(), ast.Constant(1)), node.slice)
        elif kind == "cmp":
            nonempty = more[0]
            node.left = ast.copy_location(ast.Call(ast.Name("len", ast.Load()), [ast.Name(L, ast.Load())], []), node)
            node.ops = [ast.Gt() if nonempty else ast.Eq()]
            node.comparators = [ast.copy_location(ast.Constant(0), node)]
    for kind, node, *more in plan:
        if kind == "reset":
            more[0][more[0].index(node)] = ast.copy_location(ast.Pass(), node)
    for kind, node, *more in plan:
        if kind == "step":
            par = parents.get(id(node))
            for fld in ("body", "orelse", "finalbody"):
                blk = getattr(par, fld, None)
                if isinstance(blk, list) and node in blk:
                    blk[blk.index(node)] = ast.copy_location(ast.Expr(ast.Call(ast.Attribute(ast.Name(L, ast.Load()), "pop", ast.Load()), [], [])), node)
    for kind, node, *more in plan:
        if kind in ("push-same", "push-next"):
            if kind == "push-next":
                # the element taken just before: `x = items[-1]` in the same block becomes `x = items.pop()`
                st = node
                while id(st) in parents and not isinstance(st, ast.stmt):
                    st = parents[id(st)]
                par = parents.get(id(st))
                done = False
                for fld in ("body", "orelse", "finalbody"):
                    blk = getattr(par, fld, None)
                    if isinstance(blk, list) and st in blk:
                        k = blk.index(st)
                        for j in range(k - 1, -1, -1):
                            b_ = blk[j]
                            if isinstance(b_, ast.Assign) and len(b_.targets) == 1 and isinstance(b_.targets[0], ast.Name) \
                                    and isinstance(b_.value, ast.Subscript) and isinstance(b_.value.value, ast.Name) and b_.value.value.id == L \
                                    and isinstance(b_.value.slice, ast.UnaryOp):
                                b_.value = ast.copy_location(ast.Call(ast.Attribute(ast.Name(L, ast.Load()), "pop", ast.Load()), [], []), b_.value)
                                done = True
                                break
                            if not isinstance(b_, (ast.Assign, ast.Expr)) or any(isinstance(y, ast.Name) and y.id == L for y in ast.walk(b_)):
                                break
                        if not done:
                            blk.insert(k, ast.copy_location(ast.Expr(ast.Call(ast.Attribute(ast.Name(L, ast.Load()), "pop", ast.Load()), [], [])), st))
            node.elts = node.elts[:2]
    for t in frames:
        if len(t.elts) == 3:
            t.elts = t.elts[:2]
    fp.targets[0].elts = fp.targets[0].elts[:2]

    # `x = items[-1]` directly followed by `items.pop()` is `x = items.pop()`
    def merge(body: list) -> None:
        k = 0
        while k + 1 < len(body):
            a_, b_ = body[k], body[k + 1]
            if isinstance(a_, ast.Assign) and len(a_.targets) == 1 and isinstance(a_.targets[0], ast.Name) \
                    and isinstance(a_.value, ast.Subscript) and isinstance(a_.value.value, ast.Name) and a_.value.value.id == L \
                    and isinstance(a_.value.slice, ast.UnaryOp) and isinstance(a_.value.slice.op, ast.USub) \
                    and isinstance(b_, ast.Expr) and isinstance(b_.value, ast.Call) and isinstance(b_.value.func, ast.Attribute) \
                    and b_.value.func.attr == "pop" and isinstance(b_.value.func.value, ast.Name) and b_.value.func.value.id == L \
                    and not b_.value.args:
                a_.value = b_.value
                del body[k + 1]
                continue
            k += 1
        for st in body:
            if not isinstance(st, (ast.FunctionDef, ast.ClassDef)):
                for fld in ("body", "orelse", "finalbody"):
                    sub = getattr(st, fld, None)
                    if isinstance(sub, list) and sub and isinstance(sub[0], ast.stmt):
                        merge(sub)
    merge(fn.body)
    for call, rv in sorts:
        if rv is None:
            call.keywords.append(ast.keyword("reverse", ast.Constant(True)))
        elif rv.value.value is True:
            call.keywords.remove(rv)
        else:
            rv.value = ast.Constant(True)
    ast.fix_missing_locations(fn)
    return True


def _size_snapshot_loops(fn: ast.FunctionDef) -> int:
    """`while True: n0 = len(R); BODY; if len(R) == n0: break`  ->  `again = True; while again: again = False; BODY'` with
    `again = True` right after every statement of BODY that puts something into R. Progress measured by the size of the
    result is progress signalled where the result grows."""
    count = 0

    def grows(st: ast.stmt, R: str) -> bool:
        if isinstance(st, ast.Assign) and len(st.targets) == 1 and isinstance(st.targets[0], ast.Subscript) \
                and isinstance(st.targets[0].value, ast.Name) and st.targets[0].value.id == R:
            return True
        if isinstance(st, ast.Expr) and isinstance(st.value, ast.Call) and isinstance(st.value.func, ast.Attribute) \
                and isinstance(st.value.func.value, ast.Name) and st.value.func.value.id == R \
                and st.value.func.attr in ("append", "add", "update", "extend", "setdefault", "insert"):
            return True
        return False

    def mark(body: list, R: str, flag: str) -> int:
        k, n = 0, 0
        while k < len(body):
            st = body[k]
            if grows(st, R):
                a = ast.Assign([ast.Name(flag, ast.Store())], ast.Constant(True))
                ast.copy_location(a, st)
                ast.fix_missing_locations(a)
                body.insert(k + 1, a)
                k += 1
                n += 1
            elif not isinstance(st, (ast.FunctionDef, ast.ClassDef)):
                for fld in ("body", "orelse", "finalbody"):
                    sub = getattr(st, fld, None)
                    if isinstance(sub, list) and sub and isinstance(sub[0], ast.stmt):
                        n += mark(sub, R, flag)
                for h in getattr(st, "handlers", []) or []:
                    n += mark(h.body, R, flag)
            k += 1
        return n

    def block(body: list) -> None:
        nonlocal count
        for i, st in enumerate(body):
            if isinstance(st, ast.While) and isinstance(st.test, ast.Constant) and st.test.value is True and not st.orelse \
                    and len(st.body) >= 3:
                first, last = st.body[0], st.body[-1]
                ok = isinstance(first, ast.Assign) and len(first.targets) == 1 and isinstance(first.targets[0], ast.Name) \
                    and isinstance(first.value, ast.Call) and isinstance(first.value.func, ast.Name) and first.value.func.id == "len" \
                    and len(first.value.args) == 1 and isinstance(first.value.args[0], ast.Name)
                if ok:
                    n0, R = first.targets[0].id, first.value.args[0].id
                    t = last.test if isinstance(last, ast.If) and not last.orelse and len(last.body) == 1 \
                        and isinstance(last.body[0], ast.Break) else None
                    same = isinstance(t, ast.Compare) and len(t.ops) == 1 and isinstance(t.ops[0], (ast.Eq, ast.LtE, ast.GtE)) and (
                        {ast.unparse(t.left), ast.unparse(t.comparators[0])} == {f"len({R})", n0})
                    mid = st.body[1:-1]
                    others = any(isinstance(y, ast.Name) and y.id == n0 for m in mid for y in ast.walk(m))
                    brk = any(isinstance(y, ast.Break) for m in mid if not isinstance(m, (ast.For, ast.While)) for y in ast.walk(m)
                              if True) and any(isinstance(m, ast.Break) for m in mid)
                    shrinks = any(isinstance(y, ast.Call) and isinstance(y.func, ast.Attribute) and isinstance(y.func.value, ast.Name)
                                  and y.func.value.id == R and y.func.attr in ("pop", "remove", "clear", "discard", "popitem")
                                  for m in mid for y in ast.walk(m)) or any(
                        isinstance(y, ast.Delete) for m in mid for y in ast.walk(m))
                    if same and not others and not brk and not shrinks:
                        flag = f"again__s{count + 1}"
                        if mark(mid, R, flag):
                            count += 1
                            init = ast.Assign([ast.Name(flag, ast.Store())], ast.Constant(True))
                            reset = ast.Assign([ast.Name(flag, ast.Store())], ast.Constant(False))
                            st.test = ast.Name(flag, ast.Load())
                            st.body = [reset] + mid
                            for x in (init, reset, st.test):
                                ast.copy_location(x, first)
                            body.insert(i, init)
                            ast.fix_missing_locations(st)
                            ast.fix_missing_locations(init)
                            block(body)       # indices moved: start over on this block
                            return
            if not isinstance(st, (ast.FunctionDef, ast.ClassDef)):
                for fld in ("body", "orelse", "finalbody"):
                    sub = getattr(st, fld, None)
                    if isinstance(sub, list) and sub and isinstance(sub[0], ast.stmt):
                        block(sub)
                for h in getattr(st, "handlers", []) or []:
                    block(h.body)
    block(fn.body)
    return count


def _dsu_to_sorted(fn: ast.FunctionDef) -> int:
    """decorate / sort by the decoration / undecorate  ->  sorted(.., key=..):
        D = [(K(x), x) for x in L];  D.sort(key=lambda t: t[0])  [or D = sorted(D, key=lambda t: t[0])];  R = [x for _, x in D]
    ->  R = sorted(L, key=lambda x: K(x))          (Python's sort is stable in both spellings)"""
    import copy as _copy
    count = 0
    uses: dict[str, int] = {}
    for n in ast.walk(fn):
        if isinstance(n, ast.Name):
            uses[n.id] = uses.get(n.id, 0) + 1

    def first_component_key(k: ast.expr) -> bool:
        return isinstance(k, ast.Lambda) and len(k.args.args) == 1 and isinstance(k.body, ast.Subscript) \
            and isinstance(k.body.value, ast.Name) and k.body.value.id == k.args.args[0].arg \
            and isinstance(k.body.slice, ast.Constant) and k.body.slice.value == 0

    def block(body: list) -> None:
        nonlocal count
        i = 0
        while i + 2 < len(body):
            a, b, c = body[i], body[i + 1], body[i + 2]
            ok = isinstance(a, ast.Assign) and len(a.targets) == 1 and isinstance(a.targets[0], ast.Name) \
                and isinstance(a.value, ast.ListComp) and len(a.value.generators) == 1 and not a.value.generators[0].ifs \
                and isinstance(a.value.generators[0].target, ast.Name) and isinstance(a.value.elt, ast.Tuple) and len(a.value.elt.elts) == 2 \
                and isinstance(a.value.elt.elts[1], ast.Name) and a.value.elt.elts[1].id == a.value.generators[0].target.id
            if ok:
                D = a.targets[0].id
                key = None
                if isinstance(b, ast.Expr) and isinstance(b.value, ast.Call) and isinstance(b.value.func, ast.Attribute) \
                        and b.value.func.attr == "sort" and isinstance(b.value.func.value, ast.Name) and b.value.func.value.id == D \
                        and not b.value.args and len(b.value.keywords) == 1 and b.value.keywords[0].arg == "key":
                    key = b.value.keywords[0].value
                elif isinstance(b, ast.Assign) and len(b.targets) == 1 and isinstance(b.targets[0], ast.Name) and b.targets[0].id == D \
                        and isinstance(b.value, ast.Call) and isinstance(b.value.func, ast.Name) and b.value.func.id == "sorted" \
                        and len(b.value.args) == 1 and isinstance(b.value.args[0], ast.Name) and b.value.args[0].id == D \
                        and len(b.value.keywords) == 1 and b.value.keywords[0].arg == "key":
                    key = b.value.keywords[0].value
                und = isinstance(c, ast.Assign) and len(c.targets) == 1 and isinstance(c.targets[0], ast.Name) \
                    and isinstance(c.value, ast.ListComp) and len(c.value.generators) == 1 and not c.value.generators[0].ifs \
                    and isinstance(c.value.generators[0].iter, ast.Name) and c.value.generators[0].iter.id == D \
                    and isinstance(c.value.generators[0].target, ast.Tuple) and len(c.value.generators[0].target.elts) == 2 \
                    and isinstance(c.value.generators[0].target.elts[1], ast.Name) and isinstance(c.value.elt, ast.Name) \
                    and c.value.elt.id == c.value.generators[0].target.elts[1].id
                n_uses = 3 if isinstance(b, ast.Expr) else 4
                if key is not None and first_component_key(key) and und and uses.get(D) == n_uses:
                    g = a.value.generators[0]
                    lam = ast.Lambda(ast.arguments([], [ast.arg(g.target.id)], None, [], [], None, []), _copy.deepcopy(a.value.elt.elts[0]))
                    call = ast.Call(ast.Name("sorted", ast.Load()), [g.iter], [ast.keyword("key", lam)])
                    new = ast.Assign([c.targets[0]], call)
                    ast.copy_location(new, a)
                    ast.fix_missing_locations(new)
                    for y in ast.walk(new):
                        if hasattr(y, "lineno"):
                            y.lineno = y.end_lineno = a.lineno
                    body[i:i + 3] = [new]
                    count += 1
                    continue
            i += 1
        for st in body:
            if not isinstance(st, (ast.FunctionDef, ast.ClassDef)):
                for fld in ("body", "orelse", "finalbody"):
                    sub = getattr(st, fld, None)
                    if isinstance(sub, list) and sub and isinstance(sub[0], ast.stmt):
                        block(sub)
                for h in getattr(st, "handlers", []) or []:
                    block(h.body)
    block(fn.body)
    return count


def _dataclass_frames(trees: list[ast.Module]) -> int:
    """Small mutable records that only travel through a stack or queue of one function

        @dataclass
        class Frame: node: int; items: list | None = None; position: int = 0
        ...
        frame = stack.pop(); frame.position += 1; stack.append(frame); stack.append(Frame(s))

    are read as tuples unpacked into locals: `(frame__node, frame__items, frame__position) = stack.pop()`, fields are the
    locals, `stack.append(frame)` pushes the tuple of the locals, `Frame(s)` is `(s, None, 0)`. A record that is popped,
    changed and pushed back is not shared with anybody, so the copy made by the tuple is not observable."""
    import copy as _copy
    count = 0
    for t in trees:
        classes: dict[str, list[tuple[str, ast.expr | None]]] = {}
        for c in t.body:
            if not isinstance(c, ast.ClassDef) or c.bases or c.keywords:
                continue
            if not any((isinstance(d, ast.Name) and d.id == "dataclass") or (isinstance(d, ast.Attribute) and d.attr == "dataclass")
                       or (isinstance(d, ast.Call) and ((isinstance(d.func, ast.Name) and d.func.id == "dataclass")
                                                        or (isinstance(d.func, ast.Attribute) and d.func.attr == "dataclass"))
                           and not d.args and not d.keywords) for d in c.decorator_list):
                continue
            fields = []
            ok = True
            for st in c.body:
                if isinstance(st, ast.Expr) and isinstance(st.value, ast.Constant):
                    continue
                if isinstance(st, ast.AnnAssign) and isinstance(st.target, ast.Name) and (
                        st.value is None or isinstance(st.value, ast.Constant)):
                    fields.append((st.target.id, st.value))
                else:
                    ok = False
            if ok and fields:
                classes[c.name] = fields
        if not classes:
            continue
        for fn in [n for n in ast.walk(t) if isinstance(n, ast.FunctionDef)]:
            for K, fields in classes.items():
                if not any(isinstance(n, ast.Name) and n.id == K for st in fn.body for n in ast.walk(st)):
                    continue
                parents: dict[int, ast.AST] = {}
                for p_ in ast.walk(fn):
                    for c_ in ast.iter_child_nodes(p_):
                        parents[id(c_)] = p_
                names = [f_ for f_, _ in fields]

                def build(call: ast.Call) -> ast.Tuple | None:
                    vals: dict[str, ast.expr] = {}
                    if len(call.args) > len(names) or any(isinstance(a, ast.Starred) for a in call.args):
                        return None
                    for nm, a in zip(names, call.args):
                        vals[nm] = a
                    for kw in call.keywords:
                        if kw.arg is None or kw.arg not in names or kw.arg in vals:
                            return None
                        vals[kw.arg] = kw.value
                    elts = []
                    for nm, dflt in fields:
                        if nm in vals:
                            elts.append(vals[nm])
                        elif dflt is not None:
                            elts.append(_copy.deepcopy(dflt))
                        else:
                            return None
                    return ast.copy_location(ast.Tuple(elts, ast.Load()), call)
                # constructor calls: only as the element pushed on / listed in a container
                ctor = [n for st in fn.body for n in ast.walk(st) if isinstance(n, ast.Call) and isinstance(n.func, ast.Name) and n.func.id == K]
                other_K = [n for st in fn.body for n in ast.walk(st) if isinstance(n, ast.Name) and n.id == K
                           and not (isinstance(parents.get(id(n)), ast.Call) and parents[id(n)].func is n)
                           and not _in_annotation(n, parents)]
                if other_K:
                    continue
                good = True
                for c_ in ctor:
                    p_ = parents.get(id(c_))
                    if isinstance(p_, ast.Call) and isinstance(p_.func, ast.Attribute) and p_.func.attr in ("append", "appendleft") \
                            and c_ in p_.args and build(c_) is not None:
                        continue
                    if isinstance(p_, ast.List) and build(c_) is not None:
                        continue
                    good = False
                # record variables: locals drawn from a container, used as v.field or pushed back
                drawn = {}
                for n in [x for st in fn.body for x in ast.walk(st)]:
                    if isinstance(n, ast.Assign) and len(n.targets) == 1 and isinstance(n.targets[0], ast.Name) \
                            and isinstance(n.value, ast.Call) and isinstance(n.value.func, ast.Attribute) \
                            and n.value.func.attr in ("pop", "popleft") and isinstance(n.value.func.value, ast.Name):
                        drawn.setdefault(n.targets[0].id, []).append(n)
                recs = {}
                for v, defs in drawn.items():
                    okv = True
                    fld_seen = False
                    for n in [x for st in fn.body for x in ast.walk(st)]:
                        if isinstance(n, ast.Name) and n.id == v:
                            p_ = parents.get(id(n))
                            if any(n is d.targets[0] for d in defs):
                                continue
                            if isinstance(p_, ast.Attribute) and p_.value is n and p_.attr in names:
                                fld_seen = True
                                continue
                            if isinstance(p_, ast.Call) and isinstance(p_.func, ast.Attribute) and p_.func.attr in ("append", "appendleft") \
                                    and n in p_.args and len(p_.args) == 1:
                                continue
                            okv = False
                    if okv and fld_seen:
                        recs[v] = defs
                if not good or not recs or not ctor:
                    continue
                # rewrite
                class R(ast.NodeTransformer):
                    def visit_FunctionDef(self, n):
                        return self.generic_visit(n) if n is fn else n

                    def visit_Attribute(self, n):
                        if isinstance(n.value, ast.Name) and n.value.id in recs and n.attr in names:
                            return ast.copy_location(ast.Name(f"{n.value.id}__{n.attr}", n.ctx), n)
                        return self.generic_visit(n)

                    def visit_Call(self, n):
                        self.generic_visit(n)
                        if isinstance(n.func, ast.Name) and n.func.id == K:
                            b_ = build(n)
                            return b_ if b_ is not None else n
                        if isinstance(n.func, ast.Attribute) and n.func.attr in ("append", "appendleft") and len(n.args) == 1 \
                                and isinstance(n.args[0], ast.Name) and n.args[0].id in recs:
                            v = n.args[0].id
                            n.args[0] = ast.copy_location(ast.Tuple([ast.Name(f"{v}__{f_}", ast.Load()) for f_ in names], ast.Load()), n.args[0])
                        return n

                    def visit_Assign(self, n):
                        for v, defs in recs.items():
                            if n in defs:
                                n.targets[0] = ast.copy_location(ast.Tuple([ast.Name(f"{v}__{f_}", ast.Store()) for f_ in names], ast.Store()),
                                                                 n.targets[0])
                                return n
                        return self.generic_visit(n)
                R().visit(fn)
                ast.fix_missing_locations(fn)
                count += 1
    return count


def _in_annotation(n: ast.AST, parents: dict) -> bool:
    x = n
    while id(x) in parents:
        p_ = parents[id(x)]
        if isinstance(p_, ast.AnnAssign) and p_.annotation is x:
            return True
        if isinstance(p_, ast.arg) or (isinstance(p_, ast.FunctionDef) and p_.returns is x):
            return True
        x = p_
    return False


def _propagate_local_copies(fn: ast.FunctionDef) -> int:
    """`a = b` (both locals, `a` bound only here) followed by statements that do not re-bind `b`: `a` is `b`."""
    stores: dict[str, int] = {}
    for n in ast.walk(fn):
        if isinstance(n, ast.Name) and isinstance(n.ctx, (ast.Store, ast.Del)):
            stores[n.id] = stores.get(n.id, 0) + 1
        if isinstance(n, (ast.Global, ast.Nonlocal)):
            return 0
    params = {a.arg for a in fn.args.posonlyargs + fn.args.args + fn.args.kwonlyargs}
    count = 0

    def block(body: list) -> None:
        nonlocal count
        i = 0
        while i < len(body):
            st = body[i]
            if isinstance(st, ast.Assign) and len(st.targets) == 1 and isinstance(st.targets[0], ast.Name) and isinstance(st.value, ast.Name) \
                    and st.targets[0].id != st.value.id and stores.get(st.targets[0].id) == 1 and st.targets[0].id not in params \
                    and "__" in st.value.id:
                a, b = st.targets[0].id, st.value.id
                rest = body[i + 1:]
                if not any(isinstance(y, ast.Name) and y.id == b and isinstance(y.ctx, (ast.Store, ast.Del)) for r in rest for y in ast.walk(r)) \
                        and not any(isinstance(y, (ast.FunctionDef, ast.Lambda)) for r in rest for y in ast.walk(r)):
                    class RN(ast.NodeTransformer):
                        def visit_Name(self, n_):
                            return ast.copy_location(ast.Name(b, n_.ctx), n_) if n_.id == a else n_
                    for k in range(i + 1, len(body)):
                        body[k] = RN().visit(body[k])
                    body[i] = ast.copy_location(ast.Pass(), st)
                    count += 1
            if not isinstance(st, (ast.FunctionDef, ast.ClassDef)):
                for fld in ("body", "orelse", "finalbody"):
                    sub = getattr(st, fld, None)
                    if isinstance(sub, list) and sub and isinstance(sub[0], ast.stmt):
                        block(sub)
                for h in getattr(st, "handlers", []) or []:
                    block(h.body)
            i += 1
    block(fn.body)
    return count


def _is_chain_from_iterable(e: ast.AST) -> ast.expr | None:
    if isinstance(e, ast.Call) and len(e.args) == 1 and not e.keywords and \
            ast.unparse(e.func) in ("chain.from_iterable", "itertools.chain.from_iterable") and \
            isinstance(e.args[0], (ast.GeneratorExp, ast.ListComp)) and len(e.args[0].generators) == 1 \
            and not e.args[0].generators[0].is_async and isinstance(e.args[0].generators[0].target, ast.Name):
        return e.args[0]
    return None


def _own_level_break(body: list) -> bool:
    for st in body:
        if isinstance(st, ast.Break):
            return True
        if isinstance(st, (ast.For, ast.While, ast.FunctionDef, ast.ClassDef)):
            if isinstance(st, (ast.For, ast.While)) and _own_level_break(st.orelse):
                return True
            continue
        for fld in ("body", "orelse", "finalbody", "handlers"):
            sub = getattr(st, fld, None)
            if isinstance(sub, list) and sub and isinstance(sub[0], ast.AST):
                if isinstance(sub[0], ast.ExceptHandler):
                    if any(_own_level_break(h.body) for h in sub):
                        return True
                elif _own_level_break(sub):
                    return True
    return False


def _flatten_chains(fn: ast.FunctionDef) -> None:
    """`for x in chain.from_iterable(G(i) for i in R): B`  ->  `for i in R: for x in G(i): B` (B has no `break`), also when
    the chained iterator is first stored in a local that is used only as this loop's iterable."""
    loads: dict[str, int] = {}
    stores: dict[str, int] = {}
    for n in ast.walk(fn):
        if isinstance(n, ast.Name):
            d = loads if isinstance(n.ctx, ast.Load) else stores
            d[n.id] = d.get(n.id, 0) + 1

    def block(body: list) -> None:
        i = 0
        while i < len(body):
            st = body[i]
            if isinstance(st, ast.For) and isinstance(st.iter, ast.Name) and loads.get(st.iter.id) == 1 \
                    and stores.get(st.iter.id) == 1:
                for j in range(i - 1, -1, -1):
                    d = body[j]
                    if isinstance(d, ast.Assign) and len(d.targets) == 1 and isinstance(d.targets[0], ast.Name) \
                            and d.targets[0].id == st.iter.id and _is_chain_from_iterable(d.value) is not None:
                        free = {x.id for x in ast.walk(d.value) if isinstance(x, ast.Name)}
                        between = body[j + 1:i]
                        written = {x.id for b in between for x in ast.walk(b) if isinstance(x, ast.Name)
                                   and isinstance(x.ctx, (ast.Store, ast.Del))}
                        calls = any(isinstance(x, ast.Call) and not (isinstance(x.func, ast.Attribute) and x.func.attr == "items")
                                    for b in between for x in ast.walk(b))
                        if not (free & written) and not calls:
                            st.iter = d.value
                            del body[j]
                            i -= 1
                        break
            if isinstance(st, ast.For) and not st.orelse and not _own_level_break(st.body):
                g = _is_chain_from_iterable(st.iter)
                if g is not None:
                    c = g.generators[0]
                    inner = ast.For(st.target, g.elt, st.body, [])
                    ast.copy_location(inner, st)
                    ib: list = [inner]
                    for cond in reversed(c.ifs):
                        w = ast.If(cond, ib, [])
                        ast.copy_location(w, st)
                        ib = [w]
                    outer = ast.For(ast.Name(c.target.id, ast.Store()), c.iter, ib, [])
                    ast.copy_location(outer, st)
                    ast.copy_location(outer.target, st)
                    body[i] = st = outer
            for fld in ("body", "orelse", "finalbody"):
                sub = getattr(st, fld, None)
                if isinstance(sub, list) and sub and isinstance(sub[0], ast.stmt) and not isinstance(st, (ast.FunctionDef, ast.ClassDef)):
                    block(sub)
            for h in getattr(st, "handlers", []) or []:
                block(h.body)
            i += 1

    if any(isinstance(x, ast.Attribute) and x.attr == "from_iterable" for x in ast.walk(fn)):
        block(fn.body)
        ast.fix_missing_locations(fn)


def _normalise_namedtuples(trees: list[ast.Module]) -> None:
    """A NamedTuple of the package is a tuple with names: `C(a=x, b=y)` -> `(x, y)`, `t.a` -> `t[0]` (for field names that
    no other object of the package uses), `t = E; u = t[0]; v = t[1]` -> `(u, v) = E`, `for t in X: .. t[0] .. t[1] ..` ->
    `for (t_a, t_b) in X`. Rules are written for plain tuples and see the same program either way."""
    classes: dict[str, list[str]] = {}
    defaults: dict[str, dict[str, ast.expr]] = {}
    for tree in trees:
        for c in ast.walk(tree):
            if isinstance(c, ast.ClassDef) and any((isinstance(b, ast.Name) and b.id == "NamedTuple") or
                                                   (isinstance(b, ast.Attribute) and b.attr == "NamedTuple") for b in c.bases):
                fields = [s.target.id for s in c.body if isinstance(s, ast.AnnAssign) and isinstance(s.target, ast.Name)]
                if fields:      # (methods stay methods; they see `self` as the tuple)
                    classes[c.name] = fields
                    defaults[c.name] = {s.target.id: s.value for s in c.body if isinstance(s, ast.AnnAssign)
                                        and isinstance(s.target, ast.Name) and s.value is not None}
    if not classes:
        return
    owner: dict[str, tuple[str, int]] = {}
    clash: set[str] = set()
    for cn, fs in classes.items():
        for i, f_ in enumerate(fs):
            if f_ in owner:
                clash.add(f_)
            owner[f_] = (cn, i)
    # a field name that is also an attribute of something else stays untouched
    for tree in trees:
        for n in ast.walk(tree):
            if isinstance(n, ast.Attribute) and isinstance(n.ctx, (ast.Store, ast.Del)) and n.attr in owner:
                clash.add(n.attr)
            if isinstance(n, ast.FunctionDef) and n.name in owner:
                clash.add(n.name)
    for f_ in clash:
        owner.pop(f_, None)

    class T(ast.NodeTransformer):
        def visit_Call(self, n: ast.Call):
            self.generic_visit(n)
            nm = n.func.id if isinstance(n.func, ast.Name) else n.func.attr if isinstance(n.func, ast.Attribute) else None
            if nm in classes and not any(isinstance(a, ast.Starred) for a in n.args) and all(k.arg for k in n.keywords):
                fs = classes[nm]
                vals: dict[str, ast.expr] = dict(zip(fs, n.args))
                for k in n.keywords:
                    vals[k.arg] = k.value
                for f_ in fs:
                    if f_ not in vals and f_ in defaults[nm]:
                        vals[f_] = defaults[nm][f_]
                if set(vals) == set(fs):
                    return ast.copy_location(ast.Tuple([vals[f_] for f_ in fs], ast.Load()), n)
            # Record(*f(..)): the record made from a tuple of the same arity is that tuple
            if nm in classes and len(n.args) == 1 and not n.keywords and isinstance(n.args[0], ast.Starred) \
                    and isinstance(n.args[0].value, ast.Call):
                return n.args[0].value
            return n

        def visit_Attribute(self, n: ast.Attribute):
            self.generic_visit(n)
            if isinstance(n.ctx, ast.Load) and n.attr in owner:
                return ast.copy_location(ast.Subscript(n.value, ast.Constant(owner[n.attr][1]), ast.Load()), n)
            return n

    arities = set(len(v) for v in classes.values())

    def fuse(body: list[ast.stmt]) -> None:
        i = 0
        while i < len(body):
            st = body[i]
            # t = E; a = t[0]; b = t[1]   ->   (a, b) = E
            if isinstance(st, ast.Assign) and len(st.targets) == 1 and isinstance(st.targets[0], ast.Name):
                t = st.targets[0].id
                for ar in sorted(arities):
                    nxt = body[i + 1:i + 1 + ar]
                    if len(nxt) == ar and all(
                            isinstance(x, ast.Assign) and len(x.targets) == 1 and isinstance(x.targets[0], ast.Name)
                            and isinstance(x.value, ast.Subscript) and isinstance(x.value.value, ast.Name) and x.value.value.id == t
                            and isinstance(x.value.slice, ast.Constant) and x.value.slice.value == j
                            for j, x in enumerate(nxt)):
                        new = ast.Assign([ast.Tuple([x.targets[0] for x in nxt], ast.Store())], st.value)
                        ast.copy_location(new, st)
                        ast.copy_location(new.targets[0], st)
                        keep = []
                        # `t` may still be read later: keep it as the tuple of the parts
                        keep.append(ast.copy_location(ast.Assign([ast.Name(t, ast.Store())],
                                                                 ast.Tuple([ast.Name(x.targets[0].id, ast.Load()) for x in nxt], ast.Load())), st))
                        body[i:i + 1 + ar] = [new] + keep
                        break
            # for t in X: uses only t[k]   ->   for (t_0, .., t_n) in X
            if isinstance(st, ast.For) and isinstance(st.target, ast.Name):
                t = st.target.id
                loads = [x for b_ in st.body + st.orelse for x in ast.walk(b_) if isinstance(x, ast.Name) and x.id == t]
                subs = [x for b_ in st.body + st.orelse for x in ast.walk(b_) if isinstance(x, ast.Subscript) and isinstance(x.value, ast.Name)
                        and x.value.id == t and isinstance(x.slice, ast.Constant) and isinstance(x.slice.value, int)
                        and isinstance(x.ctx, ast.Load)]
                if subs and len(loads) == len(subs) and all(isinstance(x.ctx, ast.Load) for x in loads):
                    ar = max(x.slice.value for x in subs) + 1
                    if ar in arities:
                        fields = next(fs for fs in classes.values() if len(fs) == ar)
                        names = [f"{t}_{f_}" for f_ in fields]

                        class R(ast.NodeTransformer):
                            def visit_Subscript(self, n):
                                if isinstance(n.value, ast.Name) and n.value.id == t and isinstance(n.slice, ast.Constant) \
                                        and isinstance(n.slice.value, int) and isinstance(n.ctx, ast.Load):
                                    return ast.copy_location(ast.Name(names[n.slice.value], ast.Load()), n)
                                return self.generic_visit(n)
                        st.body = [R().visit(b_) for b_ in st.body]
                        st.orelse = [R().visit(b_) for b_ in st.orelse]
                        st.target = ast.copy_location(ast.Tuple([ast.Name(x, ast.Store()) for x in names], ast.Store()), st.target)
            for fld in ("body", "orelse", "finalbody"):
                b_ = getattr(st, fld, None)
                if isinstance(b_, list) and b_ and isinstance(b_[0], ast.stmt):
                    fuse(b_)
            for h in getattr(st, "handlers", []) or []:
                fuse(h.body)
            i += 1

    for tree in trees:
        T().visit(tree)
        fuse(tree.body)
        ast.fix_missing_locations(tree)


DYNAMIC_FEATURES = {"exec", "eval", "setattr", "__import__", "globals", "locals", "vars"}


class Repo:
    def __init__(self, root: str | os.PathLike = "/repo", normalise: bool = True):
        self.root = Path(root)
        self.modules: dict[str, Module] = {}
        self.functions: dict[str, Func] = {}
        self.classes: dict[str, ast.ClassDef] = {}
        self.class_module: dict[str, Module] = {}
        self._callgraph = None
        self.normalise = normalise
        self._load()
        self.unresolved_calls: list[str] = []
        self.resolved_calls = 0
        self.inline_report: dict = {}
        if normalise:
            from . import inline
            self.inline_report = inline.apply(self)

    def reindex(self) -> None:
        """Rebuild the function index after the module trees were rewritten (inline pre-pass)."""
        self.functions.clear()
        self.classes.clear()
        self.class_module.clear()
        self._callgraph = None
        for k in ("_rc_memo", "_ca_memo", "_sdm", "_other_meths"):
            self.__dict__.pop(k, None)
        for m in self.modules.values():
            m.imports.clear()
            self._index_module(m)

    # ----------------------------------------------------------------- loading
    def _load(self) -> None:
        pp = self.root / "pyproject.toml"
        if not pp.exists():
            raise AnalysisError(f"{pp} not found")
        try:
            cfg = tomllib.loads(pp.read_text())
            packages = cfg["tool"]["setuptools"]["packages"]
        except Exception as e:  # noqa
            raise AnalysisError(f"cannot read package list from {pp}: {e}")
        self.packages = list(packages)
        for pkg in packages:
            d = self.root / pkg.replace(".", "/")
            if not d.is_dir():
                raise AnalysisError(f"package {pkg} listed in pyproject.toml is missing ({d})")
            for f in sorted(d.glob("*.py")):
                modname = pkg if f.name == "__init__.py" else f"{pkg}.{f.stem}"
                src = f.read_text()
                try:
                    tree = ast.parse(src, filename=str(f))
                except SyntaxError as e:
                    raise AnalysisError(f"{f} does not parse: {e}")
                m = Module(modname, f, src, tree)
                self.modules[modname] = m
        if self.normalise:
            from . import typefacts
            self.type_normalisation = typefacts.normalise({k: m.tree for k, m in self.modules.items()})
        LOCAL_REWRITES.clear()
        if self.normalise:
            _count("record_frames_read_as_tuples", _dataclass_frames([m.tree for m in self.modules.values()]))
        for m in self.modules.values():
            _drop_local_annotations(m.tree)
        self.local_rewrites = dict(LOCAL_REWRITES)
        if self.normalise:
            _normalise_namedtuples([m.tree for m in self.modules.values()])
        for m in self.modules.values():
            self._index_module(m)

    def _index_module(self, m: Module) -> None:
        for n in ast.walk(m.tree):
            if isinstance(n, ast.Import):
                for a in n.names:
                    m.imports[a.asname or a.name.split(".")[0]] = a.name if a.asname else a.name.split(".")[0]
            elif isinstance(n, ast.ImportFrom):
                base = n.module or ""
                for a in n.names:
                    m.imports[a.asname or a.name] = f"{base}.{a.name}"
            elif isinstance(n, ast.Call) and isinstance(n.func, ast.Name) and n.func.id in DYNAMIC_FEATURES:
                raise AnalysisError(
                    f"{m.rel}:{n.lineno}: dynamic feature `{n.func.id}` is outside the program model"
                )

        def visit(body, prefix: str, cls: str | None, parent: Func | None):
            for s in body:
                if isinstance(s, ast.FunctionDef):
                    q = f"{prefix}{s.name}"
                    f = Func(m, q, s, cls, parent)
                    self.functions[f.key] = f
                    visit_nested(s, q + ".", cls, f)
                elif isinstance(s, ast.ClassDef):
                    self.classes[s.name] = s
                    self.class_module[s.name] = m
                    visit(s.body, f"{prefix}{s.name}.", s.name, None)
                elif isinstance(s, (ast.If, ast.Try)):
                    for fld in ("body", "orelse", "finalbody"):
                        visit(getattr(s, fld, []) or [], prefix, cls, parent)

        def visit_nested(fn: ast.FunctionDef, prefix: str, cls, parent: Func):
            for s in own_stmts(fn.body):
                if isinstance(s, ast.FunctionDef):
                    q = f"{prefix}{s.name}"
                    f = Func(m, q, s, None, parent)
                    self.functions[f.key] = f
                    visit_nested(s, q + ".", None, f)

        visit(m.tree.body, "", None, None)

    # ----------------------------------------------------------------- lookup
    def func(self, module: str, qualname: str) -> Func:
        k = f"{module}:{qualname}"
        if k not in self.functions:
            # a function moved to another module of the package keeps its role
            same = [f for f in self.functions.values() if f.qualname == qualname]
            if len(same) == 1:
                return same[0]
            raise AnalysisError(f"anchor vanished: function {k} not found")
        return self.functions[k]

    def try_func(self, module: str, qualname: str) -> Func | None:
        return self.functions.get(f"{module}:{qualname}")

    def module(self, name: str) -> Module:
        if name not in self.modules:
            raise AnalysisError(f"anchor vanished: module {name} not found")
        return self.modules[name]

    def funcs(self) -> list[Func]:
        return list(self.functions.values())

    def sd_methods(self) -> dict[str, Func]:
        if "_sdm" not in self.__dict__:
            self._sdm = self._sd_methods()
        return self._sdm

    def _sd_methods(self) -> dict[str, Func]:
        return {
            f.name: f
            for f in self.functions.values()
            if f.cls == "SuccessionDiagram" and f.parent is None and f.qualname.count(".") == 1
        }

    def typeddict_keys(self, cls: str) -> list[str]:
        if cls not in self.classes:
            raise AnalysisError(f"anchor vanished: class {cls}")
        return [
            s.target.id
            for s in self.classes[cls].body
            if isinstance(s, ast.AnnAssign) and isinstance(s.target, ast.Name)
        ]

    # ----------------------------------------------------------------- call resolution
    GENERIC_ATTRS = {
        "copy", "items", "keys", "values", "append", "add", "remove", "pop", "update", "get",
        "extend", "sort", "union", "intersect", "minus", "is_empty", "format", "join", "startswith",
    }

    def resolve_call(self, f: Func, call: ast.Call) -> str | None:
        """Return the key of the repo function called, 'ext:<dotted>' for an external call, or None."""
        memo = self.__dict__.setdefault("_rc_memo", {})
        k = (f.key, id(call))
        if k not in memo:
            memo[k] = self._resolve_call(f, call)
        return memo[k]

    def _resolve_call(self, f: Func, call: ast.Call) -> str | None:
        fn = call.func
        m = f.module
        if isinstance(fn, ast.Name):
            # nested function of an enclosing function?
            g: Func | None = f
            while g is not None:
                k = f"{m.name}:{g.qualname}.{fn.id}"
                if k in self.functions:
                    return k
                g = g.parent
            k = f"{m.name}:{fn.id}"
            if k in self.functions:
                return k
            if fn.id in self.classes and self.class_module[fn.id] is m:
                return self._ctor(fn.id)
            if fn.id in m.imports:
                tgt = m.imports[fn.id]
                mod, _, name = tgt.rpartition(".")
                if mod in self.modules:
                    k = f"{mod}:{name}"
                    if k in self.functions:
                        return k
                    if name in self.classes:
                        return self._ctor(name)
                return f"ext:{tgt}"
            # single closure assigned to a local (e.g. `expander = default_expander`)
            tgt = self._closure_alias(f, fn.id)
            if tgt:
                return tgt
            return f"ext:builtins.{fn.id}"
        if isinstance(fn, ast.Attribute):
            # a local object of a known helper class (recorded by the inline pre-pass)
            if isinstance(fn.value, ast.Name) and (f.key, fn.value.id) in getattr(self, "local_objects", {}):
                cls_ = self.local_objects[(f.key, fn.value.id)]
                k = f"{self.class_module[cls_].name}:{cls_}.{fn.attr}" if cls_ in self.class_module else None
                if k in self.functions:
                    return k
            dotted = _dotted(fn)
            if dotted:
                head = dotted.split(".")[0]
                if head in m.imports and head not in _local_names(f):
                    tgt = m.imports[head] + dotted[len(head):]
                    mod, _, name = tgt.rpartition(".")
                    if mod in self.modules and f"{mod}:{name}" in self.functions:
                        return f"{mod}:{name}"
                    if mod.rpartition(".")[2] in self.classes:  # Class.static(...)
                        k = f"{self.class_module[mod.rpartition('.')[2]].name}:{mod.rpartition('.')[2]}.{name}"
                        if k in self.functions:
                            return k
                    if tgt.split(".")[0] != "biobalm" or mod not in self.modules:
                        return f"ext:{tgt}"
                if head in self.classes:
                    k = f"{self.class_module[head].name}:{dotted}"
                    if k in self.functions:
                        return k
            meths = self.sd_methods()
            if fn.attr in meths and fn.attr not in self.GENERIC_ATTRS:
                return meths[fn.attr].key
            # a method of a small helper class of the package whose name no other class of the package uses
            if "_other_meths" not in self.__dict__:
                tab: dict[str, list[Func]] = {}
                for g_ in self.functions.values():
                    if g_.cls is not None and g_.cls != "SuccessionDiagram" and g_.parent is None and g_.qualname.count(".") == 1 \
                            and not g_.name.startswith("__"):
                        tab.setdefault(g_.name, []).append(g_)
                self._other_meths = tab
            cands = self._other_meths.get(fn.attr, [])
            if len(cands) == 1 and fn.attr not in self.GENERIC_ATTRS and fn.attr not in meths:
                return cands[0].key
            return f"ext:?.{fn.attr}"
        return None

    def _ctor(self, cls: str) -> str:
        k = f"{self.class_module[cls].name}:{cls}.__init__"
        return k if k in self.functions else f"ext:{cls}"

    def _closure_alias(self, f: Func, name: str) -> str | None:
        memo = self.__dict__.setdefault("_ca_memo", {})
        if f.key not in memo:
            table: dict[str, set[str]] = {}
            for n in own_walk(f.node):
                if isinstance(n, ast.Assign) and len(n.targets) == 1 and isinstance(n.targets[0], ast.Name) \
                        and isinstance(n.value, ast.Name):
                    k = f"{f.module.name}:{f.qualname}.{n.value.id}"
                    if k in self.functions:
                        table.setdefault(n.targets[0].id, set()).add(k)
            memo[f.key] = table
        tgts = memo[f.key].get(name, set())
        return next(iter(tgts)) if len(tgts) == 1 else None

    def calls(self, f: Func) -> list[tuple[ast.Call, str | None]]:
        out = []
        for n in own_walk(f.node):
            if isinstance(n, ast.Call):
                out.append((n, self.resolve_call(f, n)))
        return out

    @property
    def callgraph(self) -> dict[str, set[str]]:
        if self._callgraph is None:
            cg: dict[str, set[str]] = {}
            for f in self.functions.values():
                s = set()
                for _, t in self.calls(f):
                    if t and not t.startswith("ext:"):
                        s.add(t)
                # a nested def that is passed around (callbacks) counts as called
                for k, g in self.functions.items():
                    if g.parent is f:
                        s.add(k)
                cg[f.key] = s
            self._callgraph = cg
        return self._callgraph

    def reachable_from(self, key: str) -> set[str]:
        seen = {key}
        todo = [key]
        while todo:
            k = todo.pop()
            for t in self.callgraph.get(k, ()):
                if t not in seen:
                    seen.add(t)
                    todo.append(t)
        return seen

    def stats(self) -> dict:
        res = 0
        unres = 0
        for f in self.functions.values():
            for _, t in self.calls(f):
                if t is None or t.startswith("ext:?."):
                    unres += 1
                else:
                    res += 1
        return {
            "modules": len(self.modules),
            "functions": len(self.functions),
            "lines": sum(m.src.count("\n") for m in self.modules.values()),
            "call_sites_resolved": res,
            "call_sites_receiver_unknown": unres,
        }


def _dotted(n: ast.AST) -> str | None:
    parts = []
    while isinstance(n, ast.Attribute):
        parts.append(n.attr)
        n = n.value
    if isinstance(n, ast.Name):
        parts.append(n.id)
        return ".".join(reversed(parts))
    return None


def _local_names(f: Func) -> set[str]:
    c = getattr(f, "_local_names_cache", None)
    if c is None:
        c = _local_names_uncached(f)
        try:
            f._local_names_cache = c
        except AttributeError:
            pass
    return c


def _local_names_uncached(f: Func) -> set[str]:
    names = set(f.params())
    for n in own_walk(f.node):
        if isinstance(n, ast.Name) and isinstance(n.ctx, ast.Store):
            names.add(n.id)
    return names


def dotted(n: ast.AST) -> str | None:
    return _dotted(n)


_ws = re.compile(r"\s+")


def text(n: ast.AST) -> str:
    """Normalised source text of a node (independent of formatting)."""
    return _ws.sub(" ", ast.unparse(n))
