"""Loading of the analysed package and the resolved program model.

* reads the package list from pyproject.toml ([tool.setuptools].packages)
* parses every module, indexes functions (methods, nested functions)
* import map, call resolution, whole-program call graph
"""

from __future__ import annotations

import ast
import os
import re
import tomllib
from dataclasses import dataclass, field
from pathlib import Path
from typing import Iterator, Optional


class AnalysisError(Exception):
    """The analyser cannot decide (vanished anchor, unparsable input...). Exit 2."""


# --------------------------------------------------------------------------- model


@dataclass
class Module:
    name: str
    path: Path
    src: str
    tree: ast.Module
    imports: dict[str, str] = field(default_factory=dict)  # local alias -> dotted target

    @property
    def rel(self) -> str:
        return str(self.path)


@dataclass
class Func:
    module: Module
    qualname: str  # e.g. SuccessionDiagram._ensure_node, expand_minimal_spaces.make_skip_node
    node: ast.FunctionDef
    cls: Optional[str]
    parent: Optional["Func"]
    _parents: dict | None = None
    _cfg: object = None
    _canon: object = None
    _local_names_cache: object = None

    @property
    def key(self) -> str:
        return f"{self.module.name}:{self.qualname}"

    @property
    def name(self) -> str:
        return self.node.name

    def where(self, node: ast.AST | None = None) -> str:
        line = getattr(node, "lineno", self.node.lineno) if node is not None else self.node.lineno
        return f"{self.module.rel}:{line} ({self.qualname})"

    # parent pointers of the AST inside this function (nested defs excluded)
    @property
    def parents(self) -> dict:
        if self._parents is None:
            p: dict = {}
            for n in own_walk(self.node):
                for c in ast.iter_child_nodes(n):
                    p[c] = n
            self._parents = p
        return self._parents

    def stmt_of(self, node: ast.AST) -> ast.stmt:
        n = node
        while not isinstance(n, ast.stmt):
            n = self.parents[n]
        return n

    def ancestors(self, node: ast.AST) -> Iterator[ast.AST]:
        n = node
        while n in self.parents:
            n = self.parents[n]
            yield n

    def params(self) -> list[str]:
        a = self.node.args
        return [x.arg for x in a.posonlyargs + a.args + a.kwonlyargs]

    def param_defaults(self) -> dict[str, ast.expr]:
        a = self.node.args
        pos = a.posonlyargs + a.args
        res: dict[str, ast.expr] = {}
        for p, d in zip(pos[len(pos) - len(a.defaults):], a.defaults):
            res[p.arg] = d
        for p, d in zip(a.kwonlyargs, a.kw_defaults):
            if d is not None:
                res[p.arg] = d
        return res

    def param_annotation(self, name: str) -> str | None:
        a = self.node.args
        for p in a.posonlyargs + a.args + a.kwonlyargs:
            if p.arg == name and p.annotation is not None:
                return ast.unparse(p.annotation)
        return None


def own_walk(root: ast.AST) -> Iterator[ast.AST]:
    """ast.walk that does not descend into nested function/class definitions
    (the root itself may be a FunctionDef)."""
    stack = [root]
    first = True
    while stack:
        n = stack.pop()
        if not first and isinstance(n, (ast.FunctionDef, ast.AsyncFunctionDef, ast.ClassDef)):
            yield n  # the def statement itself is part of the enclosing body
            continue
        first = False
        yield n
        stack.extend(reversed(list(ast.iter_child_nodes(n))))


def own_stmts(body: list[ast.stmt]) -> Iterator[ast.stmt]:
    """All statements nested in `body` (not descending into nested defs)."""
    for s in body:
        yield s
        if isinstance(s, (ast.FunctionDef, ast.AsyncFunctionDef, ast.ClassDef)):
            continue
        for fld in ("body", "orelse", "finalbody"):
            sub = getattr(s, fld, None)
            if sub and isinstance(sub, list) and sub and isinstance(sub[0], ast.stmt):
                yield from own_stmts(sub)
        if isinstance(s, ast.Try):
            for h in s.handlers:
                yield from own_stmts(h.body)


class _DropAnn(ast.NodeTransformer):
    """`x: T = v` inside functions -> `x = v` (annotation kept as `_ann`): annotations of locals have no run-time
    meaning, and rules should not depend on whether a local is annotated."""

    def __init__(self):
        self.depth = 0

    def visit_FunctionDef(self, n):
        self.depth += 1
        outer = getattr(self, "local_lists", set())
        params = {a.arg for a in n.args.posonlyargs + n.args.args + n.args.kwonlyargs}
        # locals that hold a list built in this function (literal, comprehension, list()/sorted() call)
        self.local_lists = {t.id for x in ast.walk(n) if isinstance(x, (ast.Assign, ast.AnnAssign)) and x.value is not None
                            and isinstance(x.value, (ast.List, ast.ListComp)) or
                            (isinstance(x, (ast.Assign, ast.AnnAssign)) and isinstance(x.value, ast.Call)
                             and isinstance(x.value.func, ast.Name) and x.value.func.id in ("list", "sorted"))
                            for t in ((x.targets if isinstance(x, ast.Assign) else [x.target]))
                            if isinstance(t, ast.Name)} - params
        self.generic_visit(n)
        self.local_lists = outer
        self.depth -= 1
        return n

    def visit_ClassDef(self, n):
        d, self.depth = self.depth, 0
        self.generic_visit(n)
        self.depth = d
        return n

    def visit_AnnAssign(self, n):
        if self.depth > 0 and n.value is not None and isinstance(n.target, ast.Name):
            a = ast.copy_location(ast.Assign([n.target], n.value), n)
            a._ann = n.annotation
            return a
        return n


    def visit_Assign(self, n):
        # a, b = e1, e2  ->  a = e1; b = e2     when no later right-hand side reads an earlier target
        if self.depth > 0 and len(n.targets) == 1 and isinstance(n.targets[0], ast.Tuple) and isinstance(n.value, ast.Tuple) \
                and len(n.targets[0].elts) == len(n.value.elts) >= 2 and all(isinstance(t, ast.Name) for t in n.targets[0].elts):
            names = [t.id for t in n.targets[0].elts]
            ok = True
            for j, e in enumerate(n.value.elts):
                used = {x.id for x in ast.walk(e) if isinstance(x, ast.Name)}
                if used & set(names[:j]):
                    ok = False
            if ok:
                return [ast.copy_location(ast.Assign([t], e), n) for t, e in zip(n.targets[0].elts, n.value.elts)]
        return n

    def visit_AugAssign(self, n):
        # X += [a, b]  ->  X.append(a); X.append(b)        X |= {a}  ->  X.add(a)
        if self.depth > 0 and isinstance(n.target, ast.Name):
            meth = None
            if isinstance(n.op, ast.Add) and isinstance(n.value, ast.List) and n.value.elts:
                meth = "append"
            elif isinstance(n.op, ast.BitOr) and isinstance(n.value, ast.Set) and n.value.elts:
                meth = "add"
            if meth and not any(isinstance(e, ast.Starred) for e in n.value.elts):
                return [ast.copy_location(ast.Expr(ast.copy_location(ast.Call(ast.copy_location(
                    ast.Attribute(ast.copy_location(ast.Name(n.target.id, ast.Load()), n), meth, ast.Load()), n), [e], []), n)), n)
                    for e in n.value.elts]
        return n

    def visit_Expr(self, n):
        # yield from E  ->  for _y in E: yield _y     (plain iteration; generators of this package take no send())
        if self.depth > 0 and isinstance(n.value, ast.YieldFrom):
            self.yf = getattr(self, "yf", 0) + 1
            v = f"_y{self.yf}"
            lp = ast.For(ast.Name(v, ast.Store()), n.value.value, [ast.Expr(ast.Yield(ast.Name(v, ast.Load())))], [])
            ast.copy_location(lp, n)
            ast.fix_missing_locations(lp)
            for x in ast.walk(lp):
                if hasattr(x, "lineno"):
                    x.lineno = x.end_lineno = n.lineno
            return lp
        # X.sort(k..)  ->  X = sorted(X, k..)   for a local list X (the marker the ordering rules look for; an alias of X
        # would be treated as still unsorted, which errs on the reporting side)
        c0 = n.value
        if self.depth > 0 and isinstance(c0, ast.Call) and isinstance(c0.func, ast.Attribute) and c0.func.attr == "sort" \
                and isinstance(c0.func.value, ast.Name) and not c0.args and c0.func.value.id in getattr(self, "local_lists", set()):
            x = c0.func.value.id
            call = ast.Call(ast.Name("sorted", ast.Load()), [ast.Name(x, ast.Load())], c0.keywords)
            a = ast.Assign([ast.Name(x, ast.Store())], call)
            ast.copy_location(a, n)
            ast.fix_missing_locations(a)
            for y in ast.walk(a):
                if hasattr(y, "lineno"):
                    y.lineno = y.end_lineno = n.lineno
            return a
        # X.extend([a, b]) -> X.append(a); X.append(b)
        c = n.value
        if self.depth > 0 and isinstance(c, ast.Call) and isinstance(c.func, ast.Attribute) and c.func.attr == "extend" \
                and isinstance(c.func.value, ast.Name) and len(c.args) == 1 and isinstance(c.args[0], ast.List) and c.args[0].elts \
                and not any(isinstance(e, ast.Starred) for e in c.args[0].elts):
            return [ast.copy_location(ast.Expr(ast.copy_location(ast.Call(ast.copy_location(
                ast.Attribute(c.func.value, "append", ast.Load()), n), [e], []), n)), n) for e in c.args[0].elts]
        return n


def _drop_local_annotations(tree: ast.Module) -> None:
    _DropAnn().visit(tree)
    # loops over short literal sequences are unrolled (`for v in (0, 1): ...`, `for bdd, up in ((p, True), (n, False)): ...`)
    from . import peval

    def unroll_in(body: list) -> None:
        for i, st in enumerate(body):
            if isinstance(st, ast.FunctionDef):
                if any(isinstance(x, ast.For) and isinstance(x.iter, (ast.Tuple, ast.List)) for x in ast.walk(st)):
                    f2 = peval._Fold({}, unroll=True)
                    st.body = f2._block(st.body) or st.body
                    ast.fix_missing_locations(st)
            elif isinstance(st, ast.ClassDef):
                unroll_in(st.body)
            elif isinstance(st, (ast.If, ast.Try)):
                unroll_in(st.body)
                unroll_in(getattr(st, "orelse", []))
    unroll_in(tree.body)
    for x in ast.walk(tree):
        if isinstance(x, ast.FunctionDef):
            _flatten_chains(x)


def _is_chain_from_iterable(e: ast.AST) -> ast.expr | None:
    if isinstance(e, ast.Call) and len(e.args) == 1 and not e.keywords and \
            ast.unparse(e.func) in ("chain.from_iterable", "itertools.chain.from_iterable") and \
            isinstance(e.args[0], (ast.GeneratorExp, ast.ListComp)) and len(e.args[0].generators) == 1 \
            and not e.args[0].generators[0].is_async and isinstance(e.args[0].generators[0].target, ast.Name):
        return e.args[0]
    return None


def _own_level_break(body: list) -> bool:
    for st in body:
        if isinstance(st, ast.Break):
            return True
        if isinstance(st, (ast.For, ast.While, ast.FunctionDef, ast.ClassDef)):
            if isinstance(st, (ast.For, ast.While)) and _own_level_break(st.orelse):
                return True
            continue
        for fld in ("body", "orelse", "finalbody", "handlers"):
            sub = getattr(st, fld, None)
            if isinstance(sub, list) and sub and isinstance(sub[0], ast.AST):
                if isinstance(sub[0], ast.ExceptHandler):
                    if any(_own_level_break(h.body) for h in sub):
                        return True
                elif _own_level_break(sub):
                    return True
    return False


def _flatten_chains(fn: ast.FunctionDef) -> None:
    """`for x in chain.from_iterable(G(i) for i in R): B`  ->  `for i in R: for x in G(i): B` (B has no `break`), also when
    the chained iterator is first stored in a local that is used only as this loop's iterable."""
    loads: dict[str, int] = {}
    stores: dict[str, int] = {}
    for n in ast.walk(fn):
        if isinstance(n, ast.Name):
            d = loads if isinstance(n.ctx, ast.Load) else stores
            d[n.id] = d.get(n.id, 0) + 1

    def block(body: list) -> None:
        i = 0
        while i < len(body):
            st = body[i]
            if isinstance(st, ast.For) and isinstance(st.iter, ast.Name) and loads.get(st.iter.id) == 1 \
                    and stores.get(st.iter.id) == 1:
                for j in range(i - 1, -1, -1):
                    d = body[j]
                    if isinstance(d, ast.Assign) and len(d.targets) == 1 and isinstance(d.targets[0], ast.Name) \
                            and d.targets[0].id == st.iter.id and _is_chain_from_iterable(d.value) is not None:
                        free = {x.id for x in ast.walk(d.value) if isinstance(x, ast.Name)}
                        between = body[j + 1:i]
                        written = {x.id for b in between for x in ast.walk(b) if isinstance(x, ast.Name)
                                   and isinstance(x.ctx, (ast.Store, ast.Del))}
                        calls = any(isinstance(x, ast.Call) and not (isinstance(x.func, ast.Attribute) and x.func.attr == "items")
                                    for b in between for x in ast.walk(b))
                        if not (free & written) and not calls:
                            st.iter = d.value
                            del body[j]
                            i -= 1
                        break
            if isinstance(st, ast.For) and not st.orelse and not _own_level_break(st.body):
                g = _is_chain_from_iterable(st.iter)
                if g is not None:
                    c = g.generators[0]
                    inner = ast.For(st.target, g.elt, st.body, [])
                    ast.copy_location(inner, st)
                    ib: list = [inner]
                    for cond in reversed(c.ifs):
                        w = ast.If(cond, ib, [])
                        ast.copy_location(w, st)
                        ib = [w]
                    outer = ast.For(ast.Name(c.target.id, ast.Store()), c.iter, ib, [])
                    ast.copy_location(outer, st)
                    ast.copy_location(outer.target, st)
                    body[i] = st = outer
            for fld in ("body", "orelse", "finalbody"):
                sub = getattr(st, fld, None)
                if isinstance(sub, list) and sub and isinstance(sub[0], ast.stmt) and not isinstance(st, (ast.FunctionDef, ast.ClassDef)):
                    block(sub)
            for h in getattr(st, "handlers", []) or []:
                block(h.body)
            i += 1

    if any(isinstance(x, ast.Attribute) and x.attr == "from_iterable" for x in ast.walk(fn)):
        block(fn.body)
        ast.fix_missing_locations(fn)


def _normalise_namedtuples(trees: list[ast.Module]) -> None:
    """A NamedTuple of the package is a tuple with names: `C(a=x, b=y)` -> `(x, y)`, `t.a` -> `t[0]` (for field names that
    no other object of the package uses), `t = E; u = t[0]; v = t[1]` -> `(u, v) = E`, `for t in X: .. t[0] .. t[1] ..` ->
    `for (t_a, t_b) in X`. Rules are written for plain tuples and see the same program either way."""
    classes: dict[str, list[str]] = {}
    defaults: dict[str, dict[str, ast.expr]] = {}
    for tree in trees:
        for c in ast.walk(tree):
            if isinstance(c, ast.ClassDef) and any((isinstance(b, ast.Name) and b.id == "NamedTuple") or
                                                   (isinstance(b, ast.Attribute) and b.attr == "NamedTuple") for b in c.bases):
                fields = [s.target.id for s in c.body if isinstance(s, ast.AnnAssign) and isinstance(s.target, ast.Name)]
                if fields:      # (methods stay methods; they see `self` as the tuple)
                    classes[c.name] = fields
                    defaults[c.name] = {s.target.id: s.value for s in c.body if isinstance(s, ast.AnnAssign)
                                        and isinstance(s.target, ast.Name) and s.value is not None}
    if not classes:
        return
    owner: dict[str, tuple[str, int]] = {}
    clash: set[str] = set()
    for cn, fs in classes.items():
        for i, f_ in enumerate(fs):
            if f_ in owner:
                clash.add(f_)
            owner[f_] = (cn, i)
    # a field name that is also an attribute of something else stays untouched
    for tree in trees:
        for n in ast.walk(tree):
            if isinstance(n, ast.Attribute) and isinstance(n.ctx, (ast.Store, ast.Del)) and n.attr in owner:
                clash.add(n.attr)
            if isinstance(n, ast.FunctionDef) and n.name in owner:
                clash.add(n.name)
    for f_ in clash:
        owner.pop(f_, None)

    class T(ast.NodeTransformer):
        def visit_Call(self, n: ast.Call):
            self.generic_visit(n)
            nm = n.func.id if isinstance(n.func, ast.Name) else n.func.attr if isinstance(n.func, ast.Attribute) else None
            if nm in classes and not any(isinstance(a, ast.Starred) for a in n.args) and all(k.arg for k in n.keywords):
                fs = classes[nm]
                vals: dict[str, ast.expr] = dict(zip(fs, n.args))
                for k in n.keywords:
                    vals[k.arg] = k.value
                for f_ in fs:
                    if f_ not in vals and f_ in defaults[nm]:
                        vals[f_] = defaults[nm][f_]
                if set(vals) == set(fs):
                    return ast.copy_location(ast.Tuple([vals[f_] for f_ in fs], ast.Load()), n)
            return n

        def visit_Attribute(self, n: ast.Attribute):
            self.generic_visit(n)
            if isinstance(n.ctx, ast.Load) and n.attr in owner:
                return ast.copy_location(ast.Subscript(n.value, ast.Constant(owner[n.attr][1]), ast.Load()), n)
            return n

    arities = set(len(v) for v in classes.values())

    def fuse(body: list[ast.stmt]) -> None:
        i = 0
        while i < len(body):
            st = body[i]
            # t = E; a = t[0]; b = t[1]   ->   (a, b) = E
            if isinstance(st, ast.Assign) and len(st.targets) == 1 and isinstance(st.targets[0], ast.Name):
                t = st.targets[0].id
                for ar in sorted(arities):
                    nxt = body[i + 1:i + 1 + ar]
                    if len(nxt) == ar and all(
                            isinstance(x, ast.Assign) and len(x.targets) == 1 and isinstance(x.targets[0], ast.Name)
                            and isinstance(x.value, ast.Subscript) and isinstance(x.value.value, ast.Name) and x.value.value.id == t
                            and isinstance(x.value.slice, ast.Constant) and x.value.slice.value == j
                            for j, x in enumerate(nxt)):
                        new = ast.Assign([ast.Tuple([x.targets[0] for x in nxt], ast.Store())], st.value)
                        ast.copy_location(new, st)
                        ast.copy_location(new.targets[0], st)
                        keep = []
                        # `t` may still be read later: keep it as the tuple of the parts
                        keep.append(ast.copy_location(ast.Assign([ast.Name(t, ast.Store())],
                                                                 ast.Tuple([ast.Name(x.targets[0].id, ast.Load()) for x in nxt], ast.Load())), st))
                        body[i:i + 1 + ar] = [new] + keep
                        break
            # for t in X: uses only t[k]   ->   for (t_0, .., t_n) in X
            if isinstance(st, ast.For) and isinstance(st.target, ast.Name):
                t = st.target.id
                loads = [x for b_ in st.body + st.orelse for x in ast.walk(b_) if isinstance(x, ast.Name) and x.id == t]
                subs = [x for b_ in st.body + st.orelse for x in ast.walk(b_) if isinstance(x, ast.Subscript) and isinstance(x.value, ast.Name)
                        and x.value.id == t and isinstance(x.slice, ast.Constant) and isinstance(x.slice.value, int)
                        and isinstance(x.ctx, ast.Load)]
                if subs and len(loads) == len(subs) and all(isinstance(x.ctx, ast.Load) for x in loads):
                    ar = max(x.slice.value for x in subs) + 1
                    if ar in arities:
                        fields = next(fs for fs in classes.values() if len(fs) == ar)
                        names = [f"{t}_{f_}" for f_ in fields]

                        class R(ast.NodeTransformer):
                            def visit_Subscript(self, n):
                                if isinstance(n.value, ast.Name) and n.value.id == t and isinstance(n.slice, ast.Constant) \
                                        and isinstance(n.slice.value, int) and isinstance(n.ctx, ast.Load):
                                    return ast.copy_location(ast.Name(names[n.slice.value], ast.Load()), n)
                                return self.generic_visit(n)
                        st.body = [R().visit(b_) for b_ in st.body]
                        st.orelse = [R().visit(b_) for b_ in st.orelse]
                        st.target = ast.copy_location(ast.Tuple([ast.Name(x, ast.Store()) for x in names], ast.Store()), st.target)
            for fld in ("body", "orelse", "finalbody"):
                b_ = getattr(st, fld, None)
                if isinstance(b_, list) and b_ and isinstance(b_[0], ast.stmt):
                    fuse(b_)
            for h in getattr(st, "handlers", []) or []:
                fuse(h.body)
            i += 1

    for tree in trees:
        T().visit(tree)
        fuse(tree.body)
        ast.fix_missing_locations(tree)


DYNAMIC_FEATURES = {"exec", "eval", "setattr", "__import__", "globals", "locals", "vars"}


class Repo:
    def __init__(self, root: str | os.PathLike = "/repo", normalise: bool = True):
        self.root = Path(root)
        self.modules: dict[str, Module] = {}
        self.functions: dict[str, Func] = {}
        self.classes: dict[str, ast.ClassDef] = {}
        self.class_module: dict[str, Module] = {}
        self._callgraph = None
        self.normalise = normalise
        self._load()
        self.unresolved_calls: list[str] = []
        self.resolved_calls = 0
        self.inline_report: dict = {}
        if normalise:
            from . import inline
            self.inline_report = inline.apply(self)

    def reindex(self) -> None:
        """Rebuild the function index after the module trees were rewritten (inline pre-pass)."""
        self.functions.clear()
        self.classes.clear()
        self.class_module.clear()
        self._callgraph = None
        for k in ("_rc_memo", "_ca_memo", "_sdm", "_other_meths"):
            self.__dict__.pop(k, None)
        for m in self.modules.values():
            m.imports.clear()
            self._index_module(m)

    # ----------------------------------------------------------------- loading
    def _load(self) -> None:
        pp = self.root / "pyproject.toml"
        if not pp.exists():
            raise AnalysisError(f"{pp} not found")
        try:
            cfg = tomllib.loads(pp.read_text())
            packages = cfg["tool"]["setuptools"]["packages"]
        except Exception as e:  # noqa
            raise AnalysisError(f"cannot read package list from {pp}: {e}")
        self.packages = list(packages)
        for pkg in packages:
            d = self.root / pkg.replace(".", "/")
            if not d.is_dir():
                raise AnalysisError(f"package {pkg} listed in pyproject.toml is missing ({d})")
            for f in sorted(d.glob("*.py")):
                modname = pkg if f.name == "__init__.py" else f"{pkg}.{f.stem}"
                src = f.read_text()
                try:
                    tree = ast.parse(src, filename=str(f))
                except SyntaxError as e:
                    raise AnalysisError(f"{f} does not parse: {e}")
                _drop_local_annotations(tree)
                m = Module(modname, f, src, tree)
                self.modules[modname] = m
        if self.normalise:
            _normalise_namedtuples([m.tree for m in self.modules.values()])
        for m in self.modules.values():
            self._index_module(m)

    def _index_module(self, m: Module) -> None:
        for n in ast.walk(m.tree):
            if isinstance(n, ast.Import):
                for a in n.names:
                    m.imports[a.asname or a.name.split(".")[0]] = a.name if a.asname else a.name.split(".")[0]
            elif isinstance(n, ast.ImportFrom):
                base = n.module or ""
                for a in n.names:
                    m.imports[a.asname or a.name] = f"{base}.{a.name}"
            elif isinstance(n, ast.Call) and isinstance(n.func, ast.Name) and n.func.id in DYNAMIC_FEATURES:
                raise AnalysisError(
                    f"{m.rel}:{n.lineno}: dynamic feature `{n.func.id}` is outside the program model"
                )

        def visit(body, prefix: str, cls: str | None, parent: Func | None):
            for s in body:
                if isinstance(s, ast.FunctionDef):
                    q = f"{prefix}{s.name}"
                    f = Func(m, q, s, cls, parent)
                    self.functions[f.key] = f
                    visit_nested(s, q + ".", cls, f)
                elif isinstance(s, ast.ClassDef):
                    self.classes[s.name] = s
                    self.class_module[s.name] = m
                    visit(s.body, f"{prefix}{s.name}.", s.name, None)
                elif isinstance(s, (ast.If, ast.Try)):
                    for fld in ("body", "orelse", "finalbody"):
                        visit(getattr(s, fld, []) or [], prefix, cls, parent)

        def visit_nested(fn: ast.FunctionDef, prefix: str, cls, parent: Func):
            for s in own_stmts(fn.body):
                if isinstance(s, ast.FunctionDef):
                    q = f"{prefix}{s.name}"
                    f = Func(m, q, s, None, parent)
                    self.functions[f.key] = f
                    visit_nested(s, q + ".", None, f)

        visit(m.tree.body, "", None, None)

    # ----------------------------------------------------------------- lookup
    def func(self, module: str, qualname: str) -> Func:
        k = f"{module}:{qualname}"
        if k not in self.functions:
            # a function moved to another module of the package keeps its role
            same = [f for f in self.functions.values() if f.qualname == qualname]
            if len(same) == 1:
                return same[0]
            raise AnalysisError(f"anchor vanished: function {k} not found")
        return self.functions[k]

    def try_func(self, module: str, qualname: str) -> Func | None:
        return self.functions.get(f"{module}:{qualname}")

    def module(self, name: str) -> Module:
        if name not in self.modules:
            raise AnalysisError(f"anchor vanished: module {name} not found")
        return self.modules[name]

    def funcs(self) -> list[Func]:
        return list(self.functions.values())

    def sd_methods(self) -> dict[str, Func]:
        if "_sdm" not in self.__dict__:
            self._sdm = self._sd_methods()
        return self._sdm

    def _sd_methods(self) -> dict[str, Func]:
        return {
            f.name: f
            for f in self.functions.values()
            if f.cls == "SuccessionDiagram" and f.parent is None and f.qualname.count(".") == 1
        }

    def typeddict_keys(self, cls: str) -> list[str]:
        if cls not in self.classes:
            raise AnalysisError(f"anchor vanished: class {cls}")
        return [
            s.target.id
            for s in self.classes[cls].body
            if isinstance(s, ast.AnnAssign) and isinstance(s.target, ast.Name)
        ]

    # ----------------------------------------------------------------- call resolution
    GENERIC_ATTRS = {
        "copy", "items", "keys", "values", "append", "add", "remove", "pop", "update", "get",
        "extend", "sort", "union", "intersect", "minus", "is_empty", "format", "join", "startswith",
    }

    def resolve_call(self, f: Func, call: ast.Call) -> str | None:
        """Return the key of the repo function called, 'ext:<dotted>' for an external call, or None."""
        memo = self.__dict__.setdefault("_rc_memo", {})
        k = (f.key, id(call))
        if k not in memo:
            memo[k] = self._resolve_call(f, call)
        return memo[k]

    def _resolve_call(self, f: Func, call: ast.Call) -> str | None:
        fn = call.func
        m = f.module
        if isinstance(fn, ast.Name):
            # nested function of an enclosing function?
            g: Func | None = f
            while g is not None:
                k = f"{m.name}:{g.qualname}.{fn.id}"
                if k in self.functions:
                    return k
                g = g.parent
            k = f"{m.name}:{fn.id}"
            if k in self.functions:
                return k
            if fn.id in self.classes and self.class_module[fn.id] is m:
                return self._ctor(fn.id)
            if fn.id in m.imports:
                tgt = m.imports[fn.id]
                mod, _, name = tgt.rpartition(".")
                if mod in self.modules:
                    k = f"{mod}:{name}"
                    if k in self.functions:
                        return k
                    if name in self.classes:
                        return self._ctor(name)
                return f"ext:{tgt}"
            # single closure assigned to a local (e.g. `expander = default_expander`)
            tgt = self._closure_alias(f, fn.id)
            if tgt:
                return tgt
            return f"ext:builtins.{fn.id}"
        if isinstance(fn, ast.Attribute):
            # a local object of a known helper class (recorded by the inline pre-pass)
            if isinstance(fn.value, ast.Name) and (f.key, fn.value.id) in getattr(self, "local_objects", {}):
                cls_ = self.local_objects[(f.key, fn.value.id)]
                k = f"{self.class_module[cls_].name}:{cls_}.{fn.attr}" if cls_ in self.class_module else None
                if k in self.functions:
                    return k
            dotted = _dotted(fn)
            if dotted:
                head = dotted.split(".")[0]
                if head in m.imports and head not in _local_names(f):
                    tgt = m.imports[head] + dotted[len(head):]
                    mod, _, name = tgt.rpartition(".")
                    if mod in self.modules and f"{mod}:{name}" in self.functions:
                        return f"{mod}:{name}"
                    if mod.rpartition(".")[2] in self.classes:  # Class.static(...)
                        k = f"{self.class_module[mod.rpartition('.')[2]].name}:{mod.rpartition('.')[2]}.{name}"
                        if k in self.functions:
                            return k
                    if tgt.split(".")[0] != "biobalm" or mod not in self.modules:
                        return f"ext:{tgt}"
                if head in self.classes:
                    k = f"{self.class_module[head].name}:{dotted}"
                    if k in self.functions:
                        return k
            meths = self.sd_methods()
            if fn.attr in meths and fn.attr not in self.GENERIC_ATTRS:
                return meths[fn.attr].key
            # a method of a small helper class of the package whose name no other class of the package uses
            if "_other_meths" not in self.__dict__:
                tab: dict[str, list[Func]] = {}
                for g_ in self.functions.values():
                    if g_.cls is not None and g_.cls != "SuccessionDiagram" and g_.parent is None and g_.qualname.count(".") == 1 \
                            and not g_.name.startswith("__"):
                        tab.setdefault(g_.name, []).append(g_)
                self._other_meths = tab
            cands = self._other_meths.get(fn.attr, [])
            if len(cands) == 1 and fn.attr not in self.GENERIC_ATTRS and fn.attr not in meths:
                return cands[0].key
            return f"ext:?.{fn.attr}"
        return None

    def _ctor(self, cls: str) -> str:
        k = f"{self.class_module[cls].name}:{cls}.__init__"
        return k if k in self.functions else f"ext:{cls}"

    def _closure_alias(self, f: Func, name: str) -> str | None:
        memo = self.__dict__.setdefault("_ca_memo", {})
        if f.key not in memo:
            table: dict[str, set[str]] = {}
            for n in own_walk(f.node):
                if isinstance(n, ast.Assign) and len(n.targets) == 1 and isinstance(n.targets[0], ast.Name) \
                        and isinstance(n.value, ast.Name):
                    k = f"{f.module.name}:{f.qualname}.{n.value.id}"
                    if k in self.functions:
                        table.setdefault(n.targets[0].id, set()).add(k)
            memo[f.key] = table
        tgts = memo[f.key].get(name, set())
        return next(iter(tgts)) if len(tgts) == 1 else None

    def calls(self, f: Func) -> list[tuple[ast.Call, str | None]]:
        out = []
        for n in own_walk(f.node):
            if isinstance(n, ast.Call):
                out.append((n, self.resolve_call(f, n)))
        return out

    @property
    def callgraph(self) -> dict[str, set[str]]:
        if self._callgraph is None:
            cg: dict[str, set[str]] = {}
            for f in self.functions.values():
                s = set()
                for _, t in self.calls(f):
                    if t and not t.startswith("ext:"):
                        s.add(t)
                # a nested def that is passed around (callbacks) counts as called
                for k, g in self.functions.items():
                    if g.parent is f:
                        s.add(k)
                cg[f.key] = s
            self._callgraph = cg
        return self._callgraph

    def reachable_from(self, key: str) -> set[str]:
        seen = {key}
        todo = [key]
        while todo:
            k = todo.pop()
            for t in self.callgraph.get(k, ()):
                if t not in seen:
                    seen.add(t)
                    todo.append(t)
        return seen

    def stats(self) -> dict:
        res = 0
        unres = 0
        for f in self.functions.values():
            for _, t in self.calls(f):
                if t is None or t.startswith("ext:?."):
                    unres += 1
                else:
                    res += 1
        return {
            "modules": len(self.modules),
            "functions": len(self.functions),
            "lines": sum(m.src.count("\n") for m in self.modules.values()),
            "call_sites_resolved": res,
            "call_sites_receiver_unknown": unres,
        }


def _dotted(n: ast.AST) -> str | None:
    parts = []
    while isinstance(n, ast.Attribute):
        parts.append(n.attr)
        n = n.value
    if isinstance(n, ast.Name):
        parts.append(n.id)
        return ".".join(reversed(parts))
    return None


def _local_names(f: Func) -> set[str]:
    c = getattr(f, "_local_names_cache", None)
    if c is None:
        c = _local_names_uncached(f)
        try:
            f._local_names_cache = c
        except AttributeError:
            pass
    return c


def _local_names_uncached(f: Func) -> set[str]:
    names = set(f.params())
    for n in own_walk(f.node):
        if isinstance(n, ast.Name) and isinstance(n.ctx, ast.Store):
            names.add(n.id)
    return names


def dotted(n: ast.AST) -> str | None:
    return _dotted(n)


_ws = re.compile(r"\s+")


def text(n: ast.AST) -> str:
    """Normalised source text of a node (independent of formatting)."""
    return _ws.sub(" ", ast.unparse(n))
