"""Positive fixtures: tiny programs on which zero-expected rules must still match (run in setup)."""
import sys


def main() -> int:
    from . import selftest
    return selftest.fixtures()


if __name__ == "__main__":
    sys.exit(main())
