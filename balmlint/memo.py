"""Local look-up tables that only remember the result of a getter are read as the getter.

    table = {}
    for k in KEYS:
        v = obj.get_something(k)
        if not COND(v):
            table[k] = v
    ...
    table[x]            ->  obj.get_something(x)
    set(table)          ->  {k for k in KEYS if not COND(obj.get_something(k))}
    for y in table      ->  for y in [k for k in KEYS if ...]
    x in table          ->  x in [k for k in KEYS if ...]

Conditions: `table` is a local that starts empty, has exactly one store (in a top-level loop over its keys, under `if`
conditions only), and every other use is one of the reads above; the stored value and the conditions are built from the
key, constants, parameters that are never rebound, and method calls on such parameters (getter shape). Hoisting a getter
into a table is a pure optimisation; the rules should see which function of the key a value is, not that it was cached.
The table is built once, so the equivalence assumes what the brief's refactoring assumes too: the getter is deterministic
and its receiver is not mutated between the loop and the reads.
"""
from __future__ import annotations

import ast
import copy


def _own(fn: ast.FunctionDef):
    stack = list(fn.body)
    while stack:
        n = stack.pop()
        yield n
        for c in ast.iter_child_nodes(n):
            if isinstance(c, (ast.FunctionDef, ast.Lambda, ast.ClassDef)):
                continue
            stack.append(c)


def _subst(e: ast.AST, env: dict[str, ast.expr]) -> ast.AST:
    class S(ast.NodeTransformer):
        def visit_Name(self, n):
            if isinstance(n.ctx, ast.Load) and n.id in env:
                return copy.deepcopy(env[n.id])
            return n
    return S().visit(copy.deepcopy(e))


def dissolve(fn: ast.FunctionDef) -> list[str]:
    done: list[str] = []
    params = {a.arg for a in fn.args.posonlyargs + fn.args.args + fn.args.kwonlyargs}
    stored = {}
    for n in _own(fn):
        if isinstance(n, ast.Name) and isinstance(n.ctx, (ast.Store, ast.Del)):
            stored[n.id] = stored.get(n.id, 0) + 1
    for i, init in enumerate(list(fn.body)):
        if not (isinstance(init, ast.Assign) and len(init.targets) == 1 and isinstance(init.targets[0], ast.Name)):
            continue
        D = init.targets[0].id
        v0 = init.value
        if not (isinstance(v0, ast.Dict) and not v0.keys or isinstance(v0, ast.Call) and isinstance(v0.func, ast.Name)
                and v0.func.id == "dict" and not v0.args and not v0.keywords):
            continue
        if stored.get(D) != 1 or D in params:
            continue
        if _try(fn, i, D, params, stored):
            done.append(D)
    return done


def _try(fn: ast.FunctionDef, i: int, D: str, params: set[str], stored: dict) -> bool:
    # the one store
    stores = [n for n in _own(fn) if isinstance(n, ast.Subscript) and isinstance(n.ctx, (ast.Store, ast.Del))
              and isinstance(n.value, ast.Name) and n.value.id == D]
    if len(stores) != 1 or not isinstance(stores[0].ctx, ast.Store) or not isinstance(stores[0].slice, ast.Name):
        return False
    k = stores[0].slice.id
    loop = None
    for st in fn.body[i + 1:]:
        if any(n is stores[0] for n in ast.walk(st)):
            loop = st
            break
    if not (isinstance(loop, ast.For) and isinstance(loop.target, ast.Name) and loop.target.id == k and not loop.orelse):
        return False
    # path to the store inside the loop: plain assignments, then ifs
    env: dict[str, ast.expr] = {}
    conds: list[ast.expr] = []
    store_stmt = None

    def descend(body: list[ast.stmt]) -> bool:
        nonlocal store_stmt
        for st in body:
            if isinstance(st, ast.Assign) and len(st.targets) == 1 and st.targets[0] is stores[0]:
                store_stmt = st
                return True
            if isinstance(st, ast.Assign) and len(st.targets) == 1 and isinstance(st.targets[0], ast.Name):
                x = st.targets[0].id
                if x == k or x in params:
                    return False
                env[x] = _subst(st.value, env)          # definitions of this iteration, in order
                continue
            if isinstance(st, ast.If):
                in_b = any(n is stores[0] for s2 in st.body for n in ast.walk(s2))
                in_o = any(n is stores[0] for s2 in st.orelse for n in ast.walk(s2))
                if in_b or in_o:
                    t = _subst(st.test, env)
                    conds.append(t if in_b else ast.UnaryOp(ast.Not(), t))
                    return descend(st.body if in_b else st.orelse)
                continue
            if isinstance(st, (ast.Expr, ast.Pass)) and not any(isinstance(n, ast.Name) and n.id == D for n in ast.walk(st)):
                continue
            return False
        return False
    if not descend(loop.body) or store_stmt is None:
        return False
    value = _subst(store_stmt.value, env)
    # getter shape: names are the key, never-rebound parameters, or builtins used as plain functions; calls are methods
    # of such parameters or a few pure builtins
    def shape_ok(e: ast.AST) -> bool:
        for n in ast.walk(e):
            if isinstance(n, ast.Name):
                if n.id == k or n.id in params and not stored.get(n.id) or n.id in ("len", "cast", "int", "str", "bool", "True", "False"):
                    continue
                return False
            if isinstance(n, ast.Call):
                f_ = n.func
                if isinstance(f_, ast.Name) and f_.id in ("len", "cast", "int", "str", "bool"):
                    continue
                if isinstance(f_, ast.Attribute):
                    continue
                return False
            if isinstance(n, (ast.Lambda, ast.Yield, ast.Await, ast.NamedExpr, ast.ListComp, ast.SetComp, ast.DictComp,
                              ast.GeneratorExp)):
                return False
        return True
    if not shape_ok(value) or not all(shape_ok(c) for c in conds) or not shape_ok(loop.iter):
        return False
    # every read
    parents: dict[int, ast.AST] = {}
    for p in ast.walk(fn):
        for c in ast.iter_child_nodes(p):
            parents[id(c)] = p
    reads = [n for n in _own(fn) if isinstance(n, ast.Name) and n.id == D and isinstance(n.ctx, ast.Load)
             and n is not stores[0].value]
    if not reads:
        return False
    loop_pos = fn.body.index(loop)

    def after_loop(n: ast.AST) -> bool:
        x = n
        while id(x) in parents and parents[id(x)] is not fn:
            x = parents[id(x)]
        return x in fn.body and fn.body.index(x) > loop_pos

    def keys_list() -> ast.expr:
        g = ast.comprehension(ast.Name(k, ast.Store()), copy.deepcopy(loop.iter), [copy.deepcopy(c) for c in conds], 0)
        return ast.ListComp(ast.Name(k, ast.Load()), [g])

    plan = []
    for r in reads:
        if not after_loop(r):
            return False
        p = parents.get(id(r))
        if isinstance(p, ast.Subscript) and p.value is r and isinstance(p.ctx, ast.Load):
            plan.append((p, _subst(value, {k: p.slice})))
        elif isinstance(p, ast.Call) and isinstance(p.func, ast.Name) and p.func.id in ("set", "list", "sorted", "tuple", "len", "frozenset") \
                and len(p.args) >= 1 and p.args[0] is r:
            if p.func.id in ("set", "frozenset"):
                kl = keys_list()
                plan.append((p, ast.SetComp(kl.elt, kl.generators)))
            else:
                plan.append((r, keys_list()))
        elif isinstance(p, ast.For) and p.iter is r:
            plan.append((r, keys_list()))
        elif isinstance(p, ast.comprehension) and p.iter is r:
            plan.append((r, keys_list()))
        elif isinstance(p, ast.Compare) and len(p.ops) == 1 and isinstance(p.ops[0], (ast.In, ast.NotIn)) and p.comparators[0] is r:
            plan.append((r, keys_list()))
        elif isinstance(p, ast.Attribute) and p.attr == "keys" and isinstance(parents.get(id(p)), ast.Call):
            plan.append((parents[id(p)], keys_list()))
        else:
            return False
    # apply
    repl = {id(old): new for old, new in plan}

    class A(ast.NodeTransformer):
        def generic_visit(self, node):
            for fld, v in ast.iter_fields(node):
                if isinstance(v, list):
                    for j, c in enumerate(v):
                        if isinstance(c, ast.AST):
                            v[j] = self.visit(c)
                elif isinstance(v, ast.AST):
                    setattr(node, fld, self.visit(v))
            return node

        def visit(self, node):
            if id(node) in repl:
                new = repl[id(node)]
                for y in ast.walk(new):
                    ast.copy_location(y, node)
                return new
            return self.generic_visit(node)
    A().visit(fn)
    # the store goes; the loop stays (it has no other effect the rules care about) unless nothing else is left in it
    def drop(body: list[ast.stmt]) -> None:
        for j, st in enumerate(body):
            if st is store_stmt:
                body[j] = ast.copy_location(ast.Pass(), st)
                return
            for fld in ("body", "orelse"):
                sub = getattr(st, fld, None)
                if isinstance(sub, list):
                    drop(sub)
    drop(loop.body)
    init = fn.body[i]
    fn.body[i] = ast.copy_location(ast.Pass(), init)
    # a loop that now only computes unused locals is dead
    if all(isinstance(st, (ast.Assign, ast.Pass, ast.If)) for st in loop.body) and not any(
            isinstance(n, ast.Call) and not isinstance(n.func, ast.Attribute) for st in loop.body for n in ast.walk(st)):
        used_later = {n.id for st in fn.body[loop_pos + 1:] for n in ast.walk(st) if isinstance(n, ast.Name)}
        assigned = {n.id for st in loop.body for n in ast.walk(st) if isinstance(n, ast.Name) and isinstance(n.ctx, ast.Store)}
        if not (assigned & used_later) and not any(isinstance(n, (ast.Subscript, ast.Attribute)) and isinstance(n.ctx, ast.Store)
                                                   for st in loop.body for n in ast.walk(st)):
            fn.body[loop_pos] = ast.copy_location(ast.Pass(), loop)
    ast.fix_missing_locations(fn)
    return True
