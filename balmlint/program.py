"""Program model on top of Repo + CFG: canonical expressions, node handles, field and
growth events, heap-write summaries, path facts (with staleness), may-raise summaries.
"""

from __future__ import annotations

import ast
import copy as _copy
from dataclasses import dataclass
from typing import Iterator, Optional

from . import logic
from .cfg import CFG, N
from .repo import AnalysisError, Func, Repo, dotted, own_walk, text

MUTATORS = {"append", "pop", "add", "remove", "update", "extend", "clear", "sort", "insert",
            "discard", "popitem", "setdefault", "reverse"}
PURE_BUILTINS = {"len", "int", "bool", "isinstance", "cast", "str", "any", "all", "min", "max", "sum", "set", "sorted", "list", "tuple"}
PURE_PREDICATES = {"is_subspace", "intersect", "has_edge", "has_node"}
IMMUTABLE_FIELDS = {"space", "parent_node"}
ALL_HEAP = "*all"


@dataclass
class FieldEvent:
    func: Func
    kind: str  # 'store' | 'load' | 'create'
    diag: str
    nid: str
    field: str
    value: Optional[ast.expr]
    node: ast.AST  # the Subscript / Call
    stmt: ast.stmt
    cfgn: N
    hk: tuple = ()  # versioned handle key (same hk at two points = same node of same diagram)

    @property
    def handle(self) -> tuple[str, str]:
        return (self.diag, self.nid)


@dataclass
class GrowthEvent:
    func: Func
    kind: str  # '_ensure_node' | '_ensure_edge' | 'add_edge'
    diag: str
    parent: str  # canonical key of the parent id ('?' if not resolvable)
    parent_expr: ast.expr
    call: ast.Call
    stmt: ast.stmt
    cfgn: N
    hk: tuple = ()
    diag_expr: ast.expr | None = None


class FuncModel:
    """Per-function analyses (CFG, canonical keys, handles, events)."""

    def __init__(self, prog: "Program", f: Func):
        self.prog = prog
        self.f = f
        self.cfg = CFG(f.node)
        self._cfgn_of: dict[ast.AST, N] = {}
        self._index_nodes()
        self._events = None
        self._growth = None
        self._nw: dict[int, set[str]] = {}
        self._btw: dict[tuple[int, int], set[int]] = {}

    # ----------------------------------------------------------------- AST -> CFG node
    def _index_nodes(self) -> None:
        for n in self.cfg.nodes:
            if n.kind in ("stmt", "test", "for", "handler") and n.ast is not None:
                self._cfgn_of[n.ast] = n

    def cfgn(self, node: ast.AST) -> N:
        """CFG node in which `node` (any AST node of this function) is evaluated."""
        x = node
        while True:
            if x in self._cfgn_of:
                n = self._cfgn_of[x]
                if n.kind == "for" and x is not node:
                    # inside a For statement: iter/target belong to the header, body stmts have own nodes
                    pass
                return n
            if x not in self.f.parents:
                raise AnalysisError(f"{self.f.where(node)}: expression outside of any CFG node")
            par = self.f.parents[x]
            if isinstance(par, ast.For) and x in (par.iter, par.target):
                return self._cfgn_of[par]
            if isinstance(par, ast.With) and not isinstance(x, ast.stmt):
                return self._cfgn_of[par]
            if isinstance(par, (ast.If, ast.While)) and x is par.test:
                return self._cfgn_of[par.test]
            x = par

    # ----------------------------------------------------------------- definitions
    def single_def(self, name: str, at: N | None) -> tuple[N, ast.expr] | None:
        """(def node, rhs) if exactly one definition of `name` reaches `at` and it is a plain
        assignment `name = rhs` / `name: T = rhs`."""
        if at is None:
            return None
        defs = self.cfg.reaching_defs(name, at)
        if len(defs) != 1:
            return None
        d = defs[0]
        if d.kind != "stmt":
            return None
        a = d.ast
        if isinstance(a, ast.Assign) and len(a.targets) == 1 and isinstance(a.targets[0], ast.Name) \
                and a.targets[0].id == name:
            return d, a.value
        if isinstance(a, ast.AnnAssign) and isinstance(a.target, ast.Name) and a.target.id == name \
                and a.value is not None:
            return d, a.value
        return None

    # ----------------------------------------------------------------- values remembered next to a chosen element
    def joint_defs(self, x: str, b: str, at: N) -> set[tuple[int, int]]:
        """Pairs (definition of x, definition of b) that can be current *together* at `at` (a forward data-flow over
        pairs; a branch on `x is None` keeps only the pairs whose x-definition agrees with the branch)."""
        cfg = self.cfg
        key = ("joint", x, b)
        if key not in self._btw:
            def is_none_def(i: int) -> bool | None:
                n = cfg.nodes[i]
                a = n.ast
                if n.kind == "stmt" and isinstance(a, ast.Assign) and len(a.targets) == 1 and isinstance(a.targets[0], ast.Name):
                    return isinstance(a.value, ast.Constant) and a.value.value is None
                return None
            IN: dict[int, set] = {n.id: set() for n in cfg.nodes}
            entry = cfg.entry.id
            IN[entry] = {(-1, -1)}
            work = [entry]
            while work:
                i = work.pop()
                n = cfg.nodes[i]
                st = IN[i]
                ds = cfg.defs_of(n)
                out = st
                if x in ds:
                    out = {(i, db) for _, db in out}
                if b in ds:
                    out = {(dx, i) for dx, _ in out}
                if n.kind == "branch" and n.test is not None:
                    def literals(t, pol):
                        while isinstance(t, ast.UnaryOp) and isinstance(t.op, ast.Not):
                            t, pol = t.operand, not pol
                        if isinstance(t, ast.BoolOp) and (isinstance(t.op, ast.Or) and not pol or isinstance(t.op, ast.And) and pol):
                            return [l for v in t.values for l in literals(v, pol)]
                        return [(t, pol)]
                    for t, pol in literals(n.test, n.pol):
                        if isinstance(t, ast.Compare) and len(t.ops) == 1 and isinstance(t.left, ast.Name) and t.left.id == x \
                                and isinstance(t.comparators[0], ast.Constant) and t.comparators[0].value is None \
                                and isinstance(t.ops[0], (ast.Is, ast.IsNot)):
                            want_none = pol if isinstance(t.ops[0], ast.Is) else not pol
                            out = {(dx, db) for dx, db in out if dx >= 0 and (is_none_def(dx) is None or is_none_def(dx) == want_none)}
                for j in cfg.g.successors(i):
                    if not out <= IN[j]:
                        IN[j] |= out
                        work.append(j)
            self._btw[key] = IN
        return set(self._btw[key][at.id])

    def paired_value(self, name: str, at: N) -> ast.expr | None:
        """`name` caches a value derived from a *chosen element*:  `B = v; name = E(v)` are assigned side by side (and a
        `name is None` fallback computes E(B) directly). If every definition of `name` that can be current at `at`
        agrees on one expression E(B) for the B that is current with it, return E(B); else None."""
        cfg = self.cfg
        xdefs = [d for d in cfg.reaching_defs(name, at)]
        if len(xdefs) < 2:
            return None
        siblings: set[str] = set()
        for d in xdefs:
            if d.kind != "stmt" or not isinstance(d.ast, ast.Assign):
                return None
            par = self.f.parents.get(d.ast)
            for fld in ("body", "orelse"):
                blk = getattr(par, fld, None)
                if isinstance(blk, list) and d.ast in blk:
                    for s_ in blk:
                        if isinstance(s_, ast.Assign) and len(s_.targets) == 1 and isinstance(s_.targets[0], ast.Name) \
                                and isinstance(s_.value, ast.Name) and s_.targets[0].id != name:
                            siblings.add(s_.targets[0].id)
        for B in sorted(siblings):
            pairs = self.joint_defs(name, B, at)
            if not pairs:
                continue
            exprs = set()
            result = None
            ok = True
            for dx, db in pairs:
                if dx < 0:
                    ok = False
                    break
                xn = cfg.nodes[dx]
                if not (xn.kind == "stmt" and isinstance(xn.ast, ast.Assign)):
                    ok = False
                    break
                val = xn.ast.value
                if isinstance(val, ast.Constant) and val.value is None:
                    ok = False          # the "not computed yet" marker is still current here
                    break
                # expand locals of the same iteration (t = bdd.r_restrict({var: True}))
                def expand(e):
                    if isinstance(e, ast.Tuple):
                        return ast.Tuple([expand(z) for z in e.elts], ast.Load())
                    return self.deref(e, xn)
                val = expand(val)
                names = {z.id for z in ast.walk(val) if isinstance(z, ast.Name)}
                if B in names:
                    # computed from B directly: B's current definition must be the one current at the computation
                    if db < 0 or cfg.nodes[db] not in cfg.reaching_defs(B, xn):
                        ok = False
                        break
                    e2 = val
                else:
                    bn = cfg.nodes[db] if db >= 0 else None
                    if bn is None or not (bn.kind == "stmt" and isinstance(bn.ast, ast.Assign) and isinstance(bn.ast.value, ast.Name)):
                        ok = False
                        break
                    v = bn.ast.value.id
                    # side by side: same block, and v not re-bound between the two assignments
                    if self.f.parents.get(bn.ast) is not self.f.parents.get(xn.ast) or v not in names:
                        ok = False
                        break
                    if {d_.id for d_ in cfg.reaching_defs(v, bn)} != {d_.id for d_ in cfg.reaching_defs(v, xn)}:
                        ok = False
                        break

                    class _R(ast.NodeTransformer):
                        def visit_Name(me, n):  # noqa: N805
                            return ast.copy_location(ast.Name(B, n.ctx), n) if n.id == v else n
                    import copy as _copy
                    e2 = _R().visit(_copy.deepcopy(val))
                exprs.add(ast.unparse(e2))
                result = e2
            if ok and len(exprs) == 1:
                return result
        return None

    def value_defs(self, name: str, at: N | None, depth: int = 0) -> list[tuple[N, ast.expr | None]]:
        """Definitions of `name` reaching `at`, looking through plain copies `a = b` (as left behind by the
        inline pre-pass or by a cautious refactoring): (defining node, value expression or None)."""
        out = []
        if at is None:
            return out
        for d in self.cfg.reaching_defs(name, at):
            a = d.ast if d.kind == "stmt" else None
            v = None
            if isinstance(a, ast.Assign) and len(a.targets) == 1 and isinstance(a.targets[0], ast.Name) and a.targets[0].id == name:
                v = a.value
            elif isinstance(a, ast.AnnAssign) and isinstance(a.target, ast.Name) and a.target.id == name:
                v = a.value
            if isinstance(v, ast.Name) and depth < 6 and v.id != name:
                out += self.value_defs(v.id, d, depth + 1)
            else:
                out.append((d, v))
        return out

    def deref(self, e: ast.AST | None, at: N | None, depth: int = 0) -> ast.AST | None:
        """The expression a local name stands for: follows `x = <expr>` when exactly one definition reaches `at`
        and nothing the expression reads was written since; any other expression is returned unchanged."""
        if isinstance(e, ast.Name) and at is not None and depth < 6:
            vd = self.value_defs(e.id, at)
            if len(vd) == 1 and vd[0][1] is not None and not self.stale(vd[0][0], at, vd[0][1]):
                return self.deref(vd[0][1], vd[0][0], depth + 1)
        return e

    def deref_at(self, e: ast.AST | None, at: N | None, depth: int = 0):
        """Like deref, but also returns the program point at which the resulting expression is evaluated."""
        if isinstance(e, ast.Name) and at is not None and depth < 6:
            vd = self.value_defs(e.id, at)
            if len(vd) == 1 and vd[0][1] is not None and not self.stale(vd[0][0], at, vd[0][1]):
                return self.deref_at(vd[0][1], vd[0][0], depth + 1)
        return e, at

    # ----------------------------------------------------------------- purity / transparency
    def _callee_name(self, c: ast.Call) -> str:
        if isinstance(c.func, ast.Name):
            return c.func.id
        if isinstance(c.func, ast.Attribute):
            return c.func.attr
        return ""

    def is_abbreviation(self, e: ast.expr, at: N | None = None) -> bool:
        """RHS shapes that a local name merely abbreviates (safe to expand while not stale)."""
        if isinstance(e, (ast.Name, ast.Constant)):
            return True
        if self.raw_handle(e) is not None:
            return True
        if isinstance(e, ast.Call):
            n = self._callee_name(e)
            if n == "root" and not e.args:
                return True
            if n == "cast" and len(e.args) == 2:
                return self.is_abbreviation(e.args[1], at)
            if n in PURE_PREDICATES or n in ("node_is_minimal", "len"):
                return all(self.is_pure(a) for a in e.args)
            if n in ("any", "all") and isinstance(e.func, ast.Name) and len(e.args) == 1:
                return self.is_pure(e.args[0])   # a quantified condition held in a local
            if n == "get" and isinstance(e.func, ast.Attribute) and len(e.args) == 1 and not e.keywords:
                return self.is_pure(e.func.value) and self.is_pure(e.args[0])  # dictionary read
            return False
        if isinstance(e, ast.Subscript):
            h = self.raw_handle(e.value) or (self.handle(e.value, at, check_stale=False) if at is not None else None)
            if h is not None and isinstance(e.slice, ast.Constant):
                return True  # field load (staleness is checked for mutable fields)
            d = dotted(e.value)
            if d and d.endswith(".config"):
                return True
            return self.is_pure(e)  # element read `xs[i]` (stale once xs or i is written)
        if isinstance(e, (ast.BoolOp, ast.Compare)) or (isinstance(e, ast.UnaryOp) and isinstance(e.op, ast.Not)):
            return self.is_pure(e)
        if isinstance(e, (ast.BinOp, ast.IfExp)):
            return self.is_pure(e)
        return False

    def is_pure(self, e: ast.expr) -> bool:
        if isinstance(e, (ast.Name, ast.Constant)):
            return True
        if isinstance(e, ast.Attribute):
            return self.is_pure(e.value)
        if isinstance(e, ast.Subscript):
            return self.is_pure(e.value) and self.is_pure(e.slice)
        if isinstance(e, ast.BoolOp):
            return all(self.is_pure(v) for v in e.values)
        if isinstance(e, ast.Compare):
            return self.is_pure(e.left) and all(self.is_pure(c) for c in e.comparators)
        if isinstance(e, (ast.UnaryOp,)):
            return self.is_pure(e.operand)
        if isinstance(e, ast.BinOp):
            return self.is_pure(e.left) and self.is_pure(e.right)
        if isinstance(e, ast.IfExp):
            return self.is_pure(e.test) and self.is_pure(e.body) and self.is_pure(e.orelse)
        if isinstance(e, (ast.Tuple, ast.List, ast.Set)):
            return all(self.is_pure(x) for x in e.elts)
        if isinstance(e, (ast.GeneratorExp, ast.ListComp, ast.SetComp)):
            return self.is_pure(e.elt) and all(self.is_pure(g.iter) and all(self.is_pure(c) for c in g.ifs) for g in e.generators)
        if isinstance(e, ast.Call):
            n = self._callee_name(e)
            ok = n in PURE_BUILTINS or n in PURE_PREDICATES or n in (
                "node_is_minimal", "node_data", "root", "variable_count", "items", "keys", "values")
            return ok and all(self.is_pure(a) for a in e.args) and \
                (not isinstance(e.func, ast.Attribute) or self.is_pure(e.func.value))
        return False

    # ----------------------------------------------------------------- handles
    def raw_handle(self, e: ast.expr) -> tuple[ast.expr, ast.expr] | None:
        """(diagram expr, node id expr) if `e` syntactically denotes a node's attribute dict."""
        if isinstance(e, ast.Call):
            if isinstance(e.func, ast.Attribute) and e.func.attr == "node_data" and len(e.args) == 1 \
                    and not e.keywords:
                return e.func.value, e.args[0]
            if self._callee_name(e) == "cast" and len(e.args) == 2:
                return self.raw_handle(e.args[1])
        if isinstance(e, ast.Subscript):
            v = e.value
            if isinstance(v, ast.Attribute) and v.attr == "nodes" and isinstance(v.value, ast.Attribute) \
                    and v.value.attr == "dag":
                return v.value.value, e.slice
        return None

    def handle(self, e: ast.expr, at: N | None, check_stale: bool = True) -> tuple[str, str] | None:
        """Canonical (diagram, node id) of a handle expression, following local aliases."""
        while isinstance(e, ast.Call) and self._callee_name(e) == "cast" and len(e.args) == 2:
            e = e.args[1]
        r = self.raw_handle(e)
        if r is not None:
            if not check_stale:
                return text(r[0]), text(r[1])
            return self.key(r[0], at), self.key(r[1], at)
        if isinstance(e, ast.Name):
            sd = self.single_def(e.id, at)
            if sd is not None:
                d, rhs = sd
                r = self.raw_handle(rhs)
                if r is not None:
                    if not check_stale:
                        return text(r[0]), text(r[1])
                    if not self.stale(d, at, rhs):
                        return self.key(r[0], d), self.key(r[1], d)
        return None

    # ----------------------------------------------------------------- canonical keys
    def key(self, e: ast.AST, at: N | None, depth: int = 0) -> str:
        return text(self.canon_ast(e, at, depth))

    def canon_ast(self, e: ast.AST, at: N | None, depth: int = 0) -> ast.AST:
        me = self

        class T(ast.NodeTransformer):
            def visit_Name(self, n: ast.Name):
                if depth > 6 or not isinstance(n.ctx, ast.Load):
                    return n
                sd = me.single_def(n.id, at)
                if sd is None:
                    return n
                d, rhs = sd
                if not me.is_abbreviation(rhs, d) or me.stale(d, at, rhs):
                    return n
                return me.canon_ast(_copy.deepcopy(rhs), d, depth + 1)

            def visit_Call(self, n: ast.Call):
                name = me._callee_name(n)
                if name == "cast" and len(n.args) == 2 and isinstance(n.func, ast.Name):
                    return self.visit(n.args[1])
                if name == "root" and not n.args and isinstance(n.func, ast.Attribute):
                    return ast.Name(id=f"ROOT", ctx=ast.Load())
                return self.generic_visit(n)

            def visit_Subscript(self, n: ast.Subscript):
                if isinstance(n.slice, ast.Constant) and isinstance(n.slice.value, str):
                    h = me.handle(n.value, at)
                    if h is not None:
                        return ast.Name(id=f"FIELD<{h[0]}|{h[1]}|{n.slice.value}>", ctx=ast.Load())
                return self.generic_visit(n)

        return T().visit(_copy.deepcopy(e))

    def vkey(self, e: ast.AST, at: N | None) -> tuple:
        """Versioned canonical key: equal vkeys at two program points denote the same value."""
        c = self.canon_ast(e, at)
        names = sorted({n.id for n in ast.walk(c) if isinstance(n, ast.Name) and isinstance(n.ctx, ast.Load)})
        rd = self.cfg.reaching().get(at.id, {}) if at is not None else {}
        vers = tuple((nm, tuple(sorted(rd.get(nm, ())))) for nm in names if nm in rd)
        return (text(c), vers)

    def hkey(self, e: ast.expr, at: N | None) -> tuple | None:
        """Versioned key of a handle expression: (diagram vkey, node-id vkey)."""
        while isinstance(e, ast.Call) and self._callee_name(e) == "cast" and len(e.args) == 2:
            e = e.args[1]
        r = self.raw_handle(e)
        if r is None and isinstance(e, ast.Name):
            sd = self.single_def(e.id, at)
            if sd is not None and self.raw_handle(sd[1]) is not None and not self.stale(sd[0], at, sd[1]):
                r = self.raw_handle(sd[1])
                # names inside were valid at the definition and are not stale: version them at `at`
        if r is None:
            return None
        return (self.vkey(r[0], at), self.vkey(r[1], at))

    # ----------------------------------------------------------------- reads / writes / staleness
    def reads(self, e: ast.AST, at: N | None) -> set[str]:
        """Locations read by expression e: local names and heap locations."""
        out: set[str] = set()
        bound = {x.id for c in ast.walk(e) if isinstance(c, ast.comprehension) for x in ast.walk(c.target) if isinstance(x, ast.Name)}
        for n in ast.walk(e):
            if isinstance(n, ast.Name) and isinstance(n.ctx, ast.Load):
                if n.id not in bound:   # variables of comprehensions are not read from the enclosing scope
                    out.add(n.id)
            elif isinstance(n, ast.Subscript) and isinstance(n.slice, ast.Constant) \
                    and isinstance(n.slice.value, str):
                if self.handle(n.value, at) is not None and n.slice.value not in IMMUTABLE_FIELDS:
                    hk = self.hkey(n.value, at)
                    out.add("F:" + n.slice.value + ("@" + repr(hk) if hk is not None else ""))
            elif isinstance(n, ast.Call):
                nm = self._callee_name(n)
                if nm == "node_is_minimal":
                    out |= {"F:expanded", "*edges"}
                elif nm == "len" and n.args and self._is_sd_expr(n.args[0]):
                    out.add("*nodes")
                elif nm in ("node_successors", "successors", "out_degree", "has_edge", "descendants",
                            "predecessors"):
                    out |= {"*edges", "F:expanded"}
                elif nm in ("node_ids", "expanded_ids", "stub_ids", "number_of_nodes"):
                    out |= {"*nodes", "F:expanded"}
        return out

    def _is_sd_expr(self, e: ast.AST) -> bool:
        if isinstance(e, ast.Name):
            if e.id == "self" and self.f.cls == "SuccessionDiagram":
                return True
            ann = self.f.param_annotation(e.id)
            if ann and "SuccessionDiagram" in ann:
                return True
            return e.id in self.prog.sd_locals(self.f)
        return False

    def node_writes(self, n: N) -> set[str]:
        """Locations possibly written when CFG node n executes."""
        if n.id in self._nw:
            return self._nw[n.id]
        self._nw[n.id] = set(self.cfg.defs_of(n))  # recursion guard
        out = self._node_writes(n)
        self._nw[n.id] = out
        return out

    def _node_writes(self, n: N) -> set[str]:
        out: set[str] = set(self.cfg.defs_of(n))
        roots: list[ast.AST] = []
        if n.kind == "stmt":
            a = n.ast
            if isinstance(a, (ast.FunctionDef, ast.ClassDef)):
                return out
            if isinstance(a, ast.With):
                roots = [it.context_expr for it in a.items]
            else:
                roots = [a]
        elif n.kind == "test":
            roots = [n.ast]
        elif n.kind == "for":
            roots = [n.ast.iter]
        for r in roots:
            for x in ast.walk(r):
                if isinstance(x, ast.Subscript) and isinstance(x.ctx, (ast.Store, ast.Del)):
                    if isinstance(x.slice, ast.Constant) and isinstance(x.slice.value, str) \
                            and self.handle(x.value, n) is not None:
                        hk = self.hkey(x.value, n)
                        out.add("F:" + x.slice.value + ("@" + repr(hk) if hk is not None else ""))
                    else:
                        b = x.value
                        while isinstance(b, (ast.Subscript, ast.Attribute)):
                            b = b.value
                        if isinstance(b, ast.Name):
                            out.add(b.id)
                        d = dotted(x.value)
                        if d and d.endswith("node_indices"):
                            out.add("*index")
                elif isinstance(x, ast.Attribute) and isinstance(x.ctx, ast.Store):
                    b = x.value
                    if isinstance(b, ast.Name):
                        out.add(b.id)
                elif isinstance(x, ast.Call):
                    if isinstance(x.func, ast.Attribute) and x.func.attr in MUTATORS:
                        b = x.func.value
                        while isinstance(b, (ast.Subscript, ast.Attribute)):
                            b = b.value
                        if isinstance(b, ast.Name):
                            out.add(b.id)
                    tgt = self.prog.repo.resolve_call(self.f, x)
                    if tgt and not tgt.startswith("ext:"):
                        out |= self.prog.heap_writes_call(self.f, x)
                    elif isinstance(x.func, ast.Attribute):
                        d = dotted(x.func) or ""
                        if d.endswith("dag.add_node"):
                            out |= {"*nodes"}
                        elif d.endswith("dag.add_edge"):
                            out.add("*edges")
                        elif ".dag." in d and x.func.attr.startswith(("remove", "clear")):
                            out |= {"*nodes", "*edges", "F:*"}
        return out

    def stale(self, d: N, at: N | None, e: ast.AST, deep: bool = False) -> bool:
        """May a location read by `e` (evaluated at d) be written between d and `at`?"""
        if at is None or d is at:
            return False
        rd = self.reads_deep(e, d) if deep else self.reads(e, d)
        if not rd:
            return False
        bk = (d.id, at.id)
        if bk not in self._btw:
            self._btw[bk] = self.cfg.between(d, at)
        for i in self._btw[bk]:
            if i == at.id:
                continue
            w = self.node_writes(self.cfg.nodes[i])
            if _conflict(rd, w):
                return True
        return False

    # ----------------------------------------------------------------- path facts
    def facts(self, n: N, loop_local: bool = False) -> list[tuple[ast.expr, bool, N]]:
        """(test, polarity, branch node) for every branch edge that all paths to n pass and whose
        test cannot have been invalidated on the way."""
        out = []
        for d in self.cfg.dominators(n):
            if d.kind != "branch" or d.test is None:
                continue
            tnode = next(iter(self.cfg.g.predecessors(d.id)))
            if self.stale(self.cfg.nodes[tnode], n, d.test, deep=True):
                continue
            out.append((d.test, d.pol, d))
        return out

    def reads_deep(self, e: ast.AST, at: N | None, depth: int = 0) -> set[str]:
        """Locations read by the alias-expanded form of e: a local that merely abbreviates an expression
        (valid at `at`) is replaced by what that expression reads. A fact about `x` with `x = D.get(k)` is a
        fact about D and k; re-binding x afterwards does not invalidate it."""
        out = set()
        for r in self.reads(e, at):
            if depth < 6 and not r.startswith(("F:", "*")):
                sd = self.single_def(r, at)
                if sd is not None and self.is_abbreviation(sd[1], sd[0]) and not isinstance(sd[1], (ast.Name, ast.Constant)) \
                        and not self.stale(sd[0], at, sd[1]):
                    out |= self.reads_deep(sd[1], sd[0], depth + 1)
                    continue
            out.add(r)
        return out

    def pc(self, n: N, atomize=None, numeric=None):
        """Path condition of CFG node n as a formula."""
        fs = []
        for test, pol, b in self.facts(n):
            tnode = self.cfg.nodes[next(iter(self.cfg.g.predecessors(b.id)))]
            f = self.translator(tnode, atomize, numeric).f(test)
            fs.append(f if pol else logic.Not(f))
            fs.extend(self._definition_facts(test, tnode, atomize, numeric))
        # inside the body of `for x in L` (L a local that the body does not change) L is not empty
        for d in self.cfg.dominators(n):
            lp = getattr(d, "loop", None)
            if d.kind == "branch" and d.test is None and d.pol and isinstance(lp, ast.For) and isinstance(lp.iter, ast.Name) \
                    and atomize is None:
                L = lp.iter.id
                changed = False
                for y in ast.walk(lp):
                    if isinstance(y, ast.Name) and y.id == L and isinstance(y.ctx, (ast.Store, ast.Del)):
                        changed = True
                    if isinstance(y, ast.Call) and isinstance(y.func, ast.Attribute) and isinstance(y.func.value, ast.Name) \
                            and y.func.value.id == L and y.func.attr not in ("copy", "index", "count"):
                        changed = True
                    if isinstance(y, ast.Subscript) and isinstance(y.ctx, (ast.Store, ast.Del)) and isinstance(y.value, ast.Name) \
                            and y.value.id == L:
                        changed = True
                if not changed:
                    hdr = self.cfg.loop_header[lp]
                    fs.append(self.translator(hdr, None, numeric).f(ast.parse(f"len({L}) > 0", mode="eval").body))
        return logic.And(*fs)

    # what the definitions of a tested variable say about it:  `xs = f() if flag else []` ... `if len(xs) != 0:` can only
    # be entered under `flag`.  For every variable of the test with several plain definitions, the disjunction over the
    # definitions of (conditions under which it was made  and  what it says about the value) is added.
    def _definition_facts(self, test: ast.expr, tnode: N, atomize=None, numeric=None) -> list:
        out = []
        names = sorted({y.id for y in ast.walk(test) if isinstance(y, ast.Name) and isinstance(y.ctx, ast.Load)})
        for x in names:
            defs = self.cfg.reaching_defs(x, tnode)
            if not 1 <= len(defs) <= 4:
                continue
            alts = []
            informative = False
            for d in defs:
                a = d.ast
                if not (d.kind == "stmt" and isinstance(a, ast.Assign) and len(a.targets) == 1
                        and isinstance(a.targets[0], ast.Name) and a.targets[0].id == x):
                    alts = None
                    break
                conds = []
                for t2, pol2, b2 in self.facts(d):
                    tn2 = self.cfg.nodes[next(iter(self.cfg.g.predecessors(b2.id)))]
                    if self.stale(tn2, tnode, t2, deep=True):
                        continue
                    f2 = self.translator(tn2, atomize, numeric).f(t2)
                    conds.append(f2 if pol2 else logic.Not(f2))
                vf = self._value_fact(x, a.value, d, tnode, atomize, numeric)
                if vf is not logic.TRUE:
                    informative = True
                alts.append(logic.And(*conds, vf))
            if alts and informative:
                out.append(logic.Or(*alts))
        return out

    def _value_fact(self, x: str, rhs: ast.expr, d: N, tnode: N, atomize, numeric):
        empty = isinstance(rhs, (ast.List, ast.Tuple, ast.Set)) and not rhs.elts or isinstance(rhs, ast.Dict) and not rhs.keys \
            or isinstance(rhs, ast.Call) and isinstance(rhs.func, ast.Name) and rhs.func.id in ("list", "set", "dict", "tuple") \
            and not rhs.args and not rhs.keywords
        if empty:
            # the container must still be empty at the test: nothing in between calls a method of it, stores into it
            # or hands it to a call
            for i in self.cfg.between(d, tnode):
                if i in (d.id, tnode.id):
                    continue
                a = self.cfg.nodes[i].ast
                if a is None:
                    continue
                parts = [a.test] if isinstance(a, (ast.If, ast.While)) else [a.iter, a.target] if isinstance(a, ast.For) else \
                    [w.context_expr for w in a.items] if isinstance(a, ast.With) else [] if isinstance(
                        a, (ast.Try, ast.FunctionDef, ast.ClassDef)) else [a]
                for pt in parts:
                    for y in ast.walk(pt):
                        if isinstance(y, ast.Call) and (
                                isinstance(y.func, ast.Attribute) and isinstance(y.func.value, ast.Name) and y.func.value.id == x
                                or any(isinstance(g, ast.Name) and g.id == x for g in list(y.args) + [k.value for k in y.keywords])
                                and not (isinstance(y.func, ast.Name) and y.func.id in ("len", "sorted", "list", "set", "print"))):
                            return logic.TRUE
                        if isinstance(y, ast.Subscript) and isinstance(y.ctx, (ast.Store, ast.Del)) \
                                and isinstance(y.value, ast.Name) and y.value.id == x:
                            return logic.TRUE
                        if isinstance(y, ast.AugAssign) and isinstance(y.target, ast.Name) and y.target.id == x:
                            return logic.TRUE
            return self.translator(tnode, None, numeric).f(ast.parse(f"len({x}) == 0", mode="eval").body)
        if isinstance(rhs, ast.Constant) and rhs.value is None:
            return self.translator(tnode, None, numeric).f(ast.parse(f"{x} is None", mode="eval").body)
        if isinstance(rhs, ast.IfExp) and self.is_pure(rhs.test) and not self.stale(d, tnode, rhs.test, deep=True):
            c = self.translator(d, atomize, numeric).f(rhs.test)
            a = self._value_fact(x, rhs.body, d, tnode, atomize, numeric)
            b = self._value_fact(x, rhs.orelse, d, tnode, atomize, numeric)
            if a is logic.TRUE and b is logic.TRUE:
                return logic.TRUE
            return logic.Or(logic.And(c, a), logic.And(logic.Not(c), b))
        return logic.TRUE

    def translator(self, at: N | None, atomize=None, numeric=None) -> logic.Translator:
        me = self

        def expand(name: ast.Name):
            sd = me.single_def(name.id, at)
            if sd is None:
                return None
            d, rhs = sd
            if isinstance(rhs, (ast.BoolOp, ast.Compare)) or (
                    isinstance(rhs, ast.UnaryOp) and isinstance(rhs.op, ast.Not)):
                if me.is_pure(rhs) and not me.stale(d, at, rhs):
                    # names inside are resolved at the definition point
                    return me.canon_ast(rhs, d)
            return None

        return logic.Translator(lambda e: self.key(e, at), atomize=atomize, numeric=numeric, expand=expand,
                                canon=lambda e: self.canon_ast(e, at))

    def formula(self, e: ast.expr, at: N | None, atomize=None, numeric=None):
        return self.translator(at, atomize, numeric).f(e)

    # ----------------------------------------------------------------- events
    def field_events(self) -> list[FieldEvent]:
        if self._events is not None:
            return self._events
        ev: list[FieldEvent] = []
        f = self.f
        for n in own_walk(f.node):
            if isinstance(n, ast.Subscript) and isinstance(n.ctx, (ast.Store, ast.Del)) and not isinstance(n.slice, ast.Constant):
                # store under a key computed at run time: H[k] = v
                try:
                    cn = self.cfgn(n)
                except AnalysisError:
                    continue
                h = self.handle(n.value, cn)
                if h is not None:
                    stmt = f.stmt_of(n)
                    val = stmt.value if isinstance(stmt, (ast.Assign, ast.AnnAssign, ast.AugAssign)) else None
                    ev.append(FieldEvent(f, "store", h[0], h[1], "*", val, n, stmt, cn, self.hkey(n.value, cn)))
                continue
            if isinstance(n, ast.Subscript) and isinstance(n.slice, ast.Constant) and isinstance(n.slice.value, str):
                if n is f.node:
                    continue
                try:
                    cn = self.cfgn(n)
                except AnalysisError:
                    continue
                h = self.handle(n.value, cn)
                if h is None:
                    continue
                stmt = f.stmt_of(n)
                if isinstance(n.ctx, ast.Store):
                    val = None
                    if isinstance(stmt, ast.Assign):
                        val = stmt.value
                    elif isinstance(stmt, ast.AnnAssign):
                        val = stmt.value
                    elif isinstance(stmt, ast.AugAssign):
                        val = stmt.value
                    ev.append(FieldEvent(f, "store", h[0], h[1], n.slice.value, val, n, stmt, cn,
                                         self.hkey(n.value, cn)))
                elif isinstance(n.ctx, ast.Load):
                    ev.append(FieldEvent(f, "load", h[0], h[1], n.slice.value, None, n, stmt, cn,
                                         self.hkey(n.value, cn)))
            elif isinstance(n, ast.Call) and (dotted(n.func) or "").endswith("dag.add_node"):
                cn = self.cfgn(n)
                diag = self.key(n.func.value.value, cn)
                nid = self.key(n.args[0], cn) if n.args else "?"
                for kw in n.keywords:
                    if kw.arg:
                        ev.append(FieldEvent(f, "create", diag, nid, kw.arg, kw.value, n, f.stmt_of(n), cn,
                                             (self.vkey(n.func.value.value, cn),
                                              self.vkey(n.args[0], cn) if n.args else ("?", ()))))
        self._events = ev
        return ev

    def dynamic_fields(self, e: FieldEvent, all_fields: list[str]) -> set[str] | None:
        """Fields a run-time-keyed store `H[k] = v` can touch: k iterates over the handle's own keys
        (or a constant tuple), filtered by `k in/not in <constant tuple>` tests.  None = unknown."""
        k = e.node.slice
        if not isinstance(k, ast.Name):
            return None
        defs = self.cfg.reaching_defs(k.id, e.cfgn)
        if len(defs) != 1 or defs[0].kind != "for":
            return None
        it = defs[0].ast.iter
        fields: set[str] | None = None
        if isinstance(it, (ast.Tuple, ast.List)) and all(isinstance(x, ast.Constant) for x in it.elts):
            fields = {x.value for x in it.elts}
        else:
            base = it
            if isinstance(base, ast.Call) and self._callee_name(base) in ("list", "sorted", "tuple", "keys") :
                base = base.args[0] if base.args else (base.func.value if isinstance(base.func, ast.Attribute) else base)
            if self.handle(base, defs[0]) is not None or (isinstance(base, ast.Attribute) and False):
                fields = set(all_fields)
        if fields is None:
            return None
        for test, pol, b in self.facts(e.cfgn):
            t, p = test, pol
            while isinstance(t, ast.UnaryOp) and isinstance(t.op, ast.Not):
                t, p = t.operand, not p
            if isinstance(t, ast.Compare) and len(t.ops) == 1 and isinstance(t.left, ast.Name) and t.left.id == k.id \
                    and isinstance(t.ops[0], (ast.In, ast.NotIn)):
                c = t.comparators[0]
                if isinstance(c, ast.Name):
                    sd = self.single_def(c.id, e.cfgn)
                    c = sd[1] if sd else c
                if isinstance(c, (ast.Tuple, ast.List, ast.Set)) and all(isinstance(x, ast.Constant) for x in c.elts):
                    consts = {x.value for x in c.elts}
                    inside = isinstance(t.ops[0], ast.In) == p
                    fields = (fields & consts) if inside else (fields - consts)
                else:
                    return None
        return fields

    def growth_events(self) -> list[GrowthEvent]:
        if self._growth is not None:
            return self._growth
        out: list[GrowthEvent] = []
        f = self.f
        for n in own_walk(f.node):
            if not isinstance(n, ast.Call) or not isinstance(n.func, ast.Attribute):
                continue
            attr = n.func.attr
            d = dotted(n.func) or ""
            kind = None
            parent = None
            diag_expr = None
            if attr == "_ensure_node":
                kind = "_ensure_node"
                parent = _arg(n, 0, "parent_id")
                diag_expr = n.func.value
            elif attr == "_ensure_edge":
                kind = "_ensure_edge"
                parent = _arg(n, 0, "parent_id")
                diag_expr = n.func.value
            elif d.endswith("dag.add_edge"):
                kind = "add_edge"
                parent = n.args[0] if n.args else None
                diag_expr = n.func.value.value
            if kind is None or parent is None:
                continue
            if isinstance(parent, ast.Constant) and parent.value is None:
                continue  # creates a node without an edge
            cn = self.cfgn(n)
            out.append(GrowthEvent(f, kind, self.key(diag_expr, cn), self.key(parent, cn), parent, n,
                                   f.stmt_of(n), cn, (self.vkey(diag_expr, cn), self.vkey(parent, cn)),
                                   diag_expr))
        self._growth = out
        return out


def _arg(c: ast.Call, i: int, name: str) -> ast.expr | None:
    if len(c.args) > i:
        return c.args[i]
    for kw in c.keywords:
        if kw.arg == name:
            return kw.value
    return None


def call_arg(c: ast.Call, i: int, name: str) -> ast.expr | None:
    return _arg(c, i, name)


def _conflict(reads: set[str], writes: set[str]) -> bool:
    if reads & writes:
        return True
    for r in reads:
        if r.startswith("F:"):
            rf, _, rh = r.partition("@")
            for w in writes:
                if w.startswith("F:"):
                    wf, _, wh = w.partition("@")
                    if rf == wf and (not rh or not wh or rh == wh):
                        return True
    if "F:*" in writes and any(r.startswith("F:") for r in reads):
        return True
    if ALL_HEAP in writes and any(r.startswith(("F:", "*")) for r in reads):
        return True
    return False


class Program:
    def __init__(self, root: str = "/repo"):
        self.repo = Repo(root)
        self._models: dict[str, FuncModel] = {}
        self._heap: dict | None = None
        self._sd_locals: dict[str, set[str]] = {}
        self._raise: dict | None = None

    def model(self, f: Func) -> FuncModel:
        if f.key not in self._models:
            self._models[f.key] = FuncModel(self, f)
        return self._models[f.key]

    def fm(self, module: str, qualname: str) -> FuncModel:
        return self.model(self.repo.func(module, qualname))

    def models(self) -> Iterator[FuncModel]:
        for f in self.repo.funcs():
            yield self.model(f)

    # ---- names that hold a SuccessionDiagram in a function (besides annotated params / self)
    def sd_locals(self, f: Func) -> set[str]:
        if f.key in self._sd_locals:
            return self._sd_locals[f.key]
        out: set[str] = set()
        self._sd_locals[f.key] = out
        lists: set[str] = set()
        for n in own_walk(f.node):
            if isinstance(n, ast.Assign) and len(n.targets) == 1 and isinstance(n.targets[0], ast.Name):
                v = n.value
                if isinstance(v, ast.Call):
                    nm = v.func.attr if isinstance(v.func, ast.Attribute) else getattr(v.func, "id", "")
                    if nm in ("component_subdiagram", "SuccessionDiagram", "from_rules", "from_file"):
                        out.add(n.targets[0].id)
                    if nm == "list" and v.args and isinstance(v.args[0], ast.Call) and \
                            getattr(v.args[0].func, "attr", "") == "source_scc_subdiagrams":
                        lists.add(n.targets[0].id)
            elif isinstance(n, ast.For) and isinstance(n.target, ast.Name):
                it = n.iter
                if isinstance(it, ast.Name) and it.id in lists:
                    out.add(n.target.id)
                if isinstance(it, ast.Call) and getattr(it.func, "attr", "") == "source_scc_subdiagrams":
                    out.add(n.target.id)
        return out

    # ---- heap-write summaries (transitive, specialised on constant Boolean arguments)
    def heap_sites(self, key: str) -> list[tuple[frozenset, frozenset]]:
        """[(locations written, parameters that must be truthy for the site to execute)]"""
        if self._heap is None:
            self._heap = {}
        if key in self._heap:
            return self._heap[key]
        self._heap[key] = []  # recursion guard
        f = self.repo.functions[key]
        fm = self.model(f)
        sites: list[tuple[frozenset, frozenset]] = []
        for n in own_walk(f.node):
            w: set[str] = set()
            if isinstance(n, ast.Subscript) and isinstance(n.ctx, (ast.Store, ast.Del)):
                if isinstance(n.slice, ast.Constant) and isinstance(n.slice.value, str):
                    try:
                        cn = fm.cfgn(n)
                    except AnalysisError:
                        continue
                    if fm.handle(n.value, cn, check_stale=False) is not None:
                        w.add("F:" + n.slice.value)
                d = dotted(n.value) or ""
                if d.endswith("node_indices"):
                    w.add("*index")
            elif isinstance(n, ast.Call):
                if isinstance(n.func, ast.Attribute):
                    d = dotted(n.func) or ""
                    if d.endswith("dag.add_node"):
                        w |= {"*nodes"}  # fields of a *new* node: no existing handle is affected
                    elif d.endswith("dag.add_edge"):
                        w.add("*edges")
                    elif ".dag." in d and n.func.attr.startswith(("remove", "clear")):
                        w |= {"*nodes", "*edges", "F:*"}
                    elif n.func.attr == "append" and "all_motifs" in ast.unparse(n.func.value):
                        w.add("*motifs")
                tgt = self.repo.resolve_call(f, n)
                if tgt and not tgt.startswith("ext:") and tgt != key:
                    w |= self.heap_writes_call(f, n)
            if w:
                sites.append((frozenset(w), self._requires(fm, n)))
        # nested closures passed around as callbacks
        for k, g in self.repo.functions.items():
            if g.parent is f:
                for locs, _ in self.heap_sites(k):
                    sites.append((locs, frozenset()))
        self._heap[key] = sites
        return sites

    def heap_writes(self, key: str) -> set[str]:
        out: set[str] = set()
        for locs, _ in self.heap_sites(key):
            out |= locs
        return out

    def heap_writes_call(self, f: Func, call: ast.Call) -> set[str]:
        tgt = self.repo.resolve_call(f, call)
        if not tgt or tgt.startswith("ext:"):
            return set()
        callee = self.repo.functions[tgt]
        out: set[str] = set()
        for locs, req in self.heap_sites(tgt):
            if self._site_feasible(callee, {"requires": req}, call):
                out |= locs
        return out

    # ---- may-raise summaries -------------------------------------------------------------
    def raise_sites(self, key: str, cls: str = "RuntimeError") -> list[dict]:
        """Sites in function `key` from which an exception of class `cls` may escape the function:
        [{'node': ast, 'requires': frozenset(param names that must be truthy), 'via': key|None}]"""
        if self._raise is None:
            self._raise = {}
        ck = (key, cls)
        if ck in self._raise:
            return self._raise[ck]
        self._raise[ck] = []  # recursion guard (fixed point from below; recursion cycles re-evaluated once)
        f = self.repo.functions[key]
        fm = self.model(f)
        sites: list[dict] = []
        for n in own_walk(f.node):
            if isinstance(n, ast.Raise):
                c = self._raised_class(f, n)
                if c != cls:
                    continue
                if self._caught(f, n, cls):
                    continue
                sites.append({"node": n, "requires": self._requires(fm, n), "via": None})
            elif isinstance(n, ast.Call):
                tgt = self.repo.resolve_call(f, n)
                if not tgt or tgt.startswith("ext:") or tgt == key:
                    continue
                sub = self.raise_sites(tgt, cls)
                if not sub:
                    continue
                if not any(self._site_feasible(self.repo.functions[tgt], s, n) for s in sub):
                    continue
                if self._caught(f, n, cls):
                    continue
                sites.append({"node": n, "requires": self._requires(fm, n), "via": tgt})
        self._raise[ck] = sites
        return sites

    def call_may_raise(self, f: Func, call: ast.Call, cls: str = "RuntimeError") -> str | None:
        """If the call may let `cls` escape (taking constant Boolean arguments into account), return
        a description of why; else None."""
        tgt = self.repo.resolve_call(f, call)
        if not tgt or tgt.startswith("ext:"):
            return None
        for s in self.raise_sites(tgt, cls):
            if self._site_feasible(self.repo.functions[tgt], s, call):
                chain = [tgt]
                x = s
                while x.get("via"):
                    chain.append(x["via"])
                    subs = self.raise_sites(x["via"], cls)
                    x = subs[0] if subs else {}
                return " -> ".join(chain)
        return None

    def _site_feasible(self, callee: Func, site: dict, call: ast.Call) -> bool:
        if not site["requires"]:
            return True
        params = callee.params()
        if callee.cls and params and params[0] == "self":
            params = params[1:]
        defaults = callee.param_defaults()
        for p in site["requires"]:
            val = None
            if p in params:
                i = params.index(p)
                val = _arg(call, i, p)
            if val is None:
                val = defaults.get(p)
            if isinstance(val, ast.Constant) and (val.value is False or val.value is None):
                return False
        return True

    def _requires(self, fm: FuncModel, n: ast.AST) -> frozenset:
        try:
            cn = fm.cfgn(n)
        except AnalysisError:
            return frozenset()
        pc = fm.pc(cn)
        req = set()
        params = [p for p in fm.f.params() if p != "self"]
        for p in params:
            at = logic.B("T:" + p)
            if at[1] in logic.atoms(pc):
                try:
                    if logic.implies(pc, at):
                        req.add(p)
                except logic.TooBig:
                    pass
        return frozenset(req)

    def _raised_class(self, f: Func, r: ast.Raise) -> str | None:
        e = r.exc
        if e is None:
            for a in f.ancestors(r):
                if isinstance(a, ast.ExceptHandler):
                    return _handler_class(a)
            return None
        if isinstance(e, ast.Call):
            return dotted(e.func)
        if isinstance(e, ast.Name):
            for a in f.ancestors(r):
                if isinstance(a, ast.ExceptHandler) and a.name == e.id:
                    return _handler_class(a)
            return e.id
        return None

    def _caught(self, f: Func, n: ast.AST, cls: str) -> bool:
        """Is node n inside the *body* of a try whose handlers catch `cls`?"""
        child = n
        for a in f.ancestors(n):
            if isinstance(a, ast.Try) and any(child is s or _contains(s, child) for s in a.body):
                for h in a.handlers:
                    hc = _handler_class(h)
                    if hc is None or hc in (cls, "Exception", "BaseException"):
                        return True
            child = a
        return False


def _contains(root: ast.AST, n: ast.AST) -> bool:
    return any(x is n for x in ast.walk(root))


def _handler_class(h: ast.ExceptHandler) -> str | None:
    if h.type is None:
        return None
    if isinstance(h.type, ast.Tuple):
        return ",".join(dotted(x) or "?" for x in h.type.elts)
    return dotted(h.type)
