"""Partial evaluation of a function on constant values of some parameters (syntax tree level).

`specialise(fn, {"reverse_time": True, "problem": "max"})` returns a copy of the function definition in which the
loads of these parameters are constants and everything that becomes decidable is folded: comparisons of constants,
`not`, `and`/`or`, conditional expressions, `if` statements with a constant test (the chosen branch is spliced in),
`assert <true>`, `while <false>`. A parameter that is assigned inside the function is not specialised.

Rules that must hold "for every value of a mode flag" analyse each specialisation separately: the mode tests
disappear from the path conditions, and spellings that merge or split the modes differently become the same code.
"""

from __future__ import annotations

import ast
import copy


def _stored(fn: ast.FunctionDef) -> set[str]:
    out = set()
    for n in ast.walk(fn):
        if isinstance(n, ast.Name) and isinstance(n.ctx, (ast.Store, ast.Del)):
            out.add(n.id)
    return out


class _Fold(ast.NodeTransformer):
    def __init__(self, env: dict, unroll: bool = False):
        self.env = env
        self.unroll = unroll
        self.changed = False

    # ---- expressions
    def visit_Name(self, n: ast.Name):
        if isinstance(n.ctx, ast.Load) and n.id in self.env:
            self.changed = True
            return ast.copy_location(ast.Constant(self.env[n.id]), n)
        return n

    def visit_UnaryOp(self, n: ast.UnaryOp):
        self.generic_visit(n)
        if isinstance(n.op, ast.Not) and isinstance(n.operand, ast.Constant):
            self.changed = True
            return ast.copy_location(ast.Constant(not n.operand.value), n)
        return n

    def visit_Compare(self, n: ast.Compare):
        self.generic_visit(n)
        if len(n.ops) == 1 and isinstance(n.left, ast.Constant):
            r = n.comparators[0]
            op = n.ops[0]
            if isinstance(r, ast.Constant):
                a, b = n.left.value, r.value
                table = {ast.Eq: lambda: a == b, ast.NotEq: lambda: a != b, ast.Is: lambda: a is b, ast.IsNot: lambda: a is not b}
                if type(op) in table:
                    self.changed = True
                    return ast.copy_location(ast.Constant(table[type(op)]()), n)
            if isinstance(op, (ast.In, ast.NotIn)) and isinstance(r, (ast.List, ast.Tuple, ast.Set)) \
                    and all(isinstance(e, ast.Constant) for e in r.elts):
                v = n.left.value in [e.value for e in r.elts]
                self.changed = True
                return ast.copy_location(ast.Constant(v if isinstance(op, ast.In) else not v), n)
        if len(n.ops) == 1 and isinstance(n.comparators[0], ast.Constant) and isinstance(n.left, ast.Constant):
            pass
        return n

    def visit_BoolOp(self, n: ast.BoolOp):
        self.generic_visit(n)
        is_and = isinstance(n.op, ast.And)
        vals = []
        for v in n.values:
            if isinstance(v, ast.Constant) and isinstance(v.value, bool):
                if v.value == is_and:
                    self.changed = True
                    continue          # neutral element
                self.changed = True
                # absorbing element: everything after it is not evaluated; what precedes still is
                vals.append(v)
                break
            vals.append(v)
        if not vals:
            return ast.copy_location(ast.Constant(is_and), n)
        if len(vals) == 1:
            return vals[0]
        if isinstance(vals[-1], ast.Constant) and isinstance(vals[-1].value, bool) and vals[-1].value != is_and and len(vals) > 1:
            # `a and False` still evaluates a; keep it as is (truth value is known only if a has no effect): leave
            pass
        n.values = vals
        return n

    def visit_IfExp(self, n: ast.IfExp):
        self.generic_visit(n)
        if isinstance(n.test, ast.Constant):
            self.changed = True
            return n.body if n.test.value else n.orelse
        return n

    # ---- statements
    def _block(self, stmts: list[ast.stmt]) -> list[ast.stmt]:
        out: list[ast.stmt] = []
        for s in stmts:
            r = self.visit(s)
            if r is None:
                continue
            if isinstance(r, list):
                out.extend(r)
            else:
                out.append(r)
        return out

    def visit_If(self, n: ast.If):
        n.test = self.visit(n.test)
        n.body = self._block(n.body) or [ast.copy_location(ast.Pass(), n)]
        n.orelse = self._block(n.orelse)
        if isinstance(n.test, ast.Constant):
            self.changed = True
            return n.body if n.test.value else (n.orelse or None)
        return n

    def visit_Assert(self, n: ast.Assert):
        n.test = self.visit(n.test)
        if isinstance(n.test, ast.Constant) and n.test.value:
            self.changed = True
            return None
        return n

    def visit_While(self, n: ast.While):
        n.test = self.visit(n.test)
        n.body = self._block(n.body) or [ast.copy_location(ast.Pass(), n)]
        n.orelse = self._block(n.orelse)
        if isinstance(n.test, ast.Constant) and not n.test.value:
            self.changed = True
            return n.orelse or None
        return n

    def visit_For(self, n: ast.For):
        n.iter = self.visit(n.iter)
        n.body = self._block(n.body) or [ast.copy_location(ast.Pass(), n)]
        n.orelse = self._block(n.orelse)
        # `for x in (a, b): body`  ->  body[x:=a]; body[x:=b]   (short literal sequences of plain names/constants)
        simple = lambda e: isinstance(e, (ast.Name, ast.Constant))  # noqa: E731
        if self.unroll and isinstance(n.iter, (ast.Tuple, ast.List)) and 1 <= len(n.iter.elts) <= 4 and not n.orelse:
            names: list[str] = []
            rows: list[list[ast.expr]] = []
            if isinstance(n.target, ast.Name) and all(simple(e) for e in n.iter.elts):
                names = [n.target.id]
                rows = [[e] for e in n.iter.elts]
            elif isinstance(n.target, ast.Tuple) and all(isinstance(t, ast.Name) for t in n.target.elts) and all(
                    isinstance(e, ast.Tuple) and len(e.elts) == len(n.target.elts) and all(simple(x) for x in e.elts) for e in n.iter.elts):
                names = [t.id for t in n.target.elts]
                rows = [list(e.elts) for e in n.iter.elts]
            leaves = not names
            for b in n.body:
                for m in ast.walk(b):
                    if isinstance(m, (ast.Break, ast.Continue, ast.FunctionDef, ast.Lambda)):
                        leaves = True
                    if isinstance(m, ast.Name) and m.id in names and isinstance(m.ctx, (ast.Store, ast.Del)):
                        leaves = True
            if not leaves:
                out = []
                for row in rows:
                    sub = dict(zip(names, row))
                    for b in n.body:
                        c = copy.deepcopy(b)
                        for m in ast.walk(c):
                            for fld, v in list(ast.iter_fields(m)):
                                if isinstance(v, ast.Name) and v.id in sub and isinstance(v.ctx, ast.Load):
                                    setattr(m, fld, copy.deepcopy(sub[v.id]))
                                elif isinstance(v, list):
                                    for i, y in enumerate(v):
                                        if isinstance(y, ast.Name) and y.id in sub and isinstance(y.ctx, ast.Load):
                                            v[i] = copy.deepcopy(sub[y.id])
                        out.append(c)
                self.changed = True
                return out
        return n

    def visit_With(self, n: ast.With):
        for it in n.items:
            it.context_expr = self.visit(it.context_expr)
        n.body = self._block(n.body) or [ast.copy_location(ast.Pass(), n)]
        return n

    def visit_Try(self, n: ast.Try):
        n.body = self._block(n.body) or [ast.copy_location(ast.Pass(), n)]
        for h in n.handlers:
            h.body = self._block(h.body) or [ast.copy_location(ast.Pass(), n)]
        n.orelse = self._block(n.orelse)
        n.finalbody = self._block(n.finalbody)
        return n

    def visit_FunctionDef(self, n: ast.FunctionDef):
        n.body = self._block(n.body) or [ast.copy_location(ast.Pass(), n)]
        return n


def specialise(fn: ast.FunctionDef, env: dict, unroll: bool = False) -> ast.FunctionDef:
    fn = copy.deepcopy(fn)
    stored = _stored(fn)
    env = {k: v for k, v in env.items() if k not in stored}
    # constant locals that depend only on the specialised values become constants too (e.g. a mode string)
    for _ in range(6):
        f = _Fold(env, unroll)
        fn = f.visit(fn)
        if not f.changed:
            break
        env = dict(env)
    ast.fix_missing_locations(fn)
    return fn
