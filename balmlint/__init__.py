"""balmlint -- repository-specific static analysis of jcrozum/biobalm.

Decides structural clauses of the properties in /verif/properties.jsonl from the
source text of /repo (never imports or runs biobalm).  See /verif/DESIGN.md.
"""

__all__ = ["repo", "cfg", "canon", "logic", "report"]
