"""Guard logic: Boolean formulas over atoms, decided by enumeration.

Atoms
    ('b', name)              opaque Boolean atom
    ('lt', a, b)/('eq', a, b) comparison of two *numeric terms* (len(...) or integers or
                              registered numeric names); decided by enumerating integer
                              values of the terms (comparison-only formulas depend only on
                              the ordering of the terms, so a range of size #terms+constants
                              is exhaustive)
Formulas: ('atom', A) | ('not', f) | ('and', [f]) | ('or', [f]) | ('const', bool)
"""

from __future__ import annotations

import ast
import itertools
from typing import Callable, Iterable

TRUE = ("const", True)
FALSE = ("const", False)


def Not(f):
    if f[0] == "const":
        return ("const", not f[1])
    if f[0] == "not":
        return f[1]
    return ("not", f)


def And(*fs):
    out = []
    for f in fs:
        if f == TRUE:
            continue
        if f == FALSE:
            return FALSE
        if f[0] == "and":
            out.extend(f[1])
        else:
            out.append(f)
    if not out:
        return TRUE
    return out[0] if len(out) == 1 else ("and", out)


def Or(*fs):
    out = []
    for f in fs:
        if f == FALSE:
            continue
        if f == TRUE:
            return TRUE
        if f[0] == "or":
            out.extend(f[1])
        else:
            out.append(f)
    if not out:
        return FALSE
    return out[0] if len(out) == 1 else ("or", out)


def B(name: str):
    return ("atom", ("b", name))


def Lt(a: str, b: str):
    return ("atom", ("lt", a, b))


def Eq(a: str, b: str):
    a, b = sorted([a, b])
    return ("atom", ("eq", a, b))


def Le(a, b):
    return Not(Lt(b, a))


def atoms(f, acc=None) -> set:
    acc = set() if acc is None else acc
    if f[0] == "atom":
        acc.add(f[1])
    elif f[0] == "not":
        atoms(f[1], acc)
    elif f[0] in ("and", "or"):
        for g in f[1]:
            atoms(g, acc)
    return acc


def show(f) -> str:
    k = f[0]
    if k == "const":
        return str(f[1])
    if k == "atom":
        a = f[1]
        if a[0] == "b":
            return a[1]
        return f"({a[1]} {'<' if a[0] == 'lt' else '=='} {a[2]})"
    if k == "not":
        return f"not {show(f[1])}"
    sep = " and " if k == "and" else " or "
    return "(" + sep.join(show(g) for g in f[1]) + ")"


def _eval(f, benv: dict, ienv: dict) -> bool:
    k = f[0]
    if k == "const":
        return f[1]
    if k == "atom":
        a = f[1]
        if a[0] == "b":
            return benv[a[1]]
        if a[0] == "lt":
            return ienv[a[1]] < ienv[a[2]]
        return ienv[a[1]] == ienv[a[2]]
    if k == "not":
        return not _eval(f[1], benv, ienv)
    if k == "and":
        return all(_eval(g, benv, ienv) for g in f[1])
    return any(_eval(g, benv, ienv) for g in f[1])


def _is_int(t: str) -> bool:
    try:
        int(t)
        return True
    except ValueError:
        return False


class TooBig(Exception):
    pass


def models(fs: Iterable, max_bool: int = 14, max_terms: int = 6):
    """Enumerate all (benv, ienv) over the atoms of the formulas `fs`."""
    al: set = set()
    for f in fs:
        atoms(f, al)
    bnames = sorted({a[1] for a in al if a[0] == "b"})
    terms = sorted({t for a in al if a[0] != "b" for t in a[1:]})
    consts = [t for t in terms if _is_int(t)]
    free = [t for t in terms if not _is_int(t)]
    if len(bnames) > max_bool or len(free) > max_terms:
        raise TooBig(f"{len(bnames)} boolean atoms / {len(free)} numeric terms")
    cvals = sorted({int(c) for c in consts} | {0})
    lo, hi = min(cvals) - 1, max(cvals) + 1
    # a comparison-only formula depends on the ordering of the terms (incl. constants):
    # values in [lo - k, hi + k] with k = #free terms realise every weak ordering.
    k = len(free)
    dom_all = list(range(lo - k, hi + k + 1))
    dom_nonneg = [v for v in dom_all if v >= 0]
    doms = [dom_nonneg if t.startswith("len(") else dom_all for t in free]
    # tie truthiness of x to len(x) when both occur
    ties = [(b, f"len({b[2:]})") for b in bnames if b.startswith("T:") and f"len({b[2:]})" in free]
    for ivals in itertools.product(*doms) if free else [()]:
        ienv = dict(zip(free, ivals))
        for c in consts:
            ienv[c] = int(c)
        for bvals in itertools.product([False, True], repeat=len(bnames)):
            benv = dict(zip(bnames, bvals))
            if any(benv[b] != (ienv[t] > 0) for b, t in ties):
                continue
            yield benv, ienv


def valid(f, assuming=TRUE) -> bool:
    """assuming => f in every model."""
    for benv, ienv in models([f, assuming]):
        if _eval(assuming, benv, ienv) and not _eval(f, benv, ienv):
            return False
    return True


def counterexample(f, assuming=TRUE):
    for benv, ienv in models([f, assuming]):
        if _eval(assuming, benv, ienv) and not _eval(f, benv, ienv):
            d = {k: v for k, v in benv.items()}
            d.update(ienv)
            return d
    return None


def _symbols(h) -> set:
    """what ties formulas together: Boolean atom names and (non-constant) numeric terms; the truth value `T:x` and the
    term `len(x)` are tied by the enumeration, so they count as one symbol"""
    out = set()
    for a in atoms(h):
        if a[0] == "b":
            out.add("b:" + a[1])
            if a[1].startswith("T:"):
                out.add("t:len(" + a[1][2:] + ")")
        else:
            for t in a[1:]:
                if not _is_int(t):
                    out.add("t:" + t)
    return out


def implies(f, g, assuming=TRUE) -> bool:
    """f => g. A conjunction is split first: conjuncts that share no symbol (directly or through other conjuncts) with the
    goal matter only if they are contradictory among themselves, which is decided per group -- the enumeration is
    exponential in the number of atoms, and path conditions carry many facts that have nothing to do with the goal."""
    if assuming is TRUE and f[0] == "and" and len(f[1]) > 1:
        parts = [(c, _symbols(c)) for c in f[1]]
        reach = _symbols(g)
        keep, rest = [], parts
        changed = True
        while changed:
            changed = False
            nxt = []
            for c, sy in rest:
                if sy & reach or not sy and c[0] == "const":
                    keep.append(c)
                    reach |= sy
                    changed = True
                else:
                    nxt.append((c, sy))
            rest = nxt
        if rest:
            # groups among the unrelated conjuncts
            groups: list[tuple[list, set]] = []
            for c, sy in rest:
                hit = [gr for gr in groups if gr[1] & sy]
                merged_c, merged_s = [c], set(sy)
                for gr in hit:
                    merged_c += gr[0]
                    merged_s |= gr[1]
                    groups.remove(gr)
                groups.append((merged_c, merged_s))
            for cs, _ in groups:
                if not satisfiable(And(*cs)):
                    return True
            return valid(Or(Not(And(*keep)), g))
    return valid(Or(Not(f), g), assuming)


def equivalent(f, g, assuming=TRUE) -> bool:
    return implies(f, g, assuming) and implies(g, f, assuming)


def satisfiable(f, assuming=TRUE) -> bool:
    return not valid(Not(f), assuming)


# --------------------------------------------------------------------------- from AST


def _len_arg(e: ast.AST):
    if isinstance(e, ast.Call) and isinstance(e.func, ast.Name) and e.func.id == "len" and len(e.args) == 1:
        return e.args[0]
    return None


def quantifier(e: ast.AST):
    """(positive, iterable, bound variable, condition) if `e` says 'some element of the iterable satisfies the
    condition' (positive) or its negation:  any(P(x) for x in U),  len([x for x in U if P(x)]) > 0 / == 0 ..."""
    def comp(c, need_elt_var: bool):
        if not isinstance(c, (ast.ListComp, ast.GeneratorExp, ast.SetComp)) or len(c.generators) != 1:
            return None
        g = c.generators[0]
        if g.is_async or not isinstance(g.target, (ast.Name, ast.Tuple)):
            return None
        var = g.target.id if isinstance(g.target, ast.Name) else g.target
        if ast.dump(c.elt) == ast.dump(g.target).replace("Store()", "Load()") and len(g.ifs) == 1:
            return g.iter, var, g.ifs[0]
        if not need_elt_var and not g.ifs:
            return g.iter, var, c.elt
        return None
    if isinstance(e, ast.Call) and isinstance(e.func, ast.Name) and e.func.id == "any" and len(e.args) == 1 and not e.keywords:
        r = comp(e.args[0], False)
        if r:
            return (True,) + r
    if isinstance(e, ast.Call) and isinstance(e.func, ast.Name) and e.func.id == "all" and len(e.args) == 1 and not e.keywords:
        r = comp(e.args[0], False)   # all(P(x) for x in U)  ==  not any(not P(x) for x in U)
        if r:
            return (False, r[0], r[1], ast.UnaryOp(ast.Not(), r[2]))
    if isinstance(e, ast.Compare) and len(e.ops) == 1 and isinstance(e.comparators[0], ast.Constant) \
            and isinstance(e.left, ast.Call) and isinstance(e.left.func, ast.Name) and e.left.func.id == "len" and len(e.left.args) == 1:
        r = comp(e.left.args[0], True)
        v, op = e.comparators[0].value, e.ops[0]
        if r and isinstance(v, int):
            if (isinstance(op, ast.Eq) and v == 0) or (isinstance(op, ast.Lt) and v == 1) or (isinstance(op, ast.LtE) and v == 0):
                return (False,) + r
            if (isinstance(op, (ast.NotEq, ast.Gt)) and v == 0) or (isinstance(op, ast.GtE) and v == 1):
                return (True,) + r
    return None


def _cond_text(f) -> str:
    """Canonical text of a condition formula; the spellings of emptiness (`not x`, `len(x) == 0`, `not len(x) > 0`)
    coincide."""
    k = f[0]
    if k == "atom":
        a = f[1]
        if a[0] == "b":
            return f"nonempty({a[1][2:]})" if a[1].startswith("T:") else a[1]
        if a[0] == "lt" and a[1] == "0" and a[2].startswith("len("):
            return f"nonempty({a[2][4:-1]})"
        if a[0] == "eq" and a[1] == "0" and a[2].startswith("len("):
            return f"not nonempty({a[2][4:-1]})"
        return show(f)
    if k == "not":
        t = _cond_text(f[1])
        return t[4:] if t.startswith("not ") else "not " + t
    if k == "const":
        return str(f[1])
    sep = " and " if k == "and" else " or "
    return "(" + sep.join(sorted(_cond_text(g) for g in f[1])) + ")"


def _rename(e: ast.AST, old, new: str) -> ast.AST:
    """Rename the bound variable(s) `old` (a name, or a tuple target) to `new` (`new0`, `new1`, ... for a tuple)."""
    import copy as _c
    e = _c.deepcopy(e)
    if isinstance(old, str):
        m = {old: new}
    else:
        m = {x.id: f"{new}{i}" for i, x in enumerate(y for y in ast.walk(old) if isinstance(y, ast.Name))}
    for n in ast.walk(e):
        if isinstance(n, ast.Name) and n.id in m:
            n.id = m[n.id]
    return e


class Translator:
    """Translates condition expressions to formulas.

    key(expr)      canonical text of an expression (alias-expanded by the caller)
    atomize(expr)  optional semantic naming of a sub-expression: return a formula or None
    numeric        set of canonical keys known to be integers
    expand(expr)   optional: for a Name, the Boolean expression it abbreviates (or None)
    """

    def __init__(self, key: Callable[[ast.AST], str], atomize=None, numeric: set[str] | None = None,
                 expand=None, canon=None):
        self.canon = canon  # optional: expression -> alias-expanded expression
        self.key = key
        self.atomize = atomize
        self.numeric = numeric or set()
        self.expand = expand

    def term(self, e: ast.AST) -> str | None:
        if isinstance(e, ast.Constant) and isinstance(e.value, int) and not isinstance(e.value, bool):
            return str(e.value)
        if isinstance(e, ast.UnaryOp) and isinstance(e.op, ast.USub) and isinstance(e.operand, ast.Constant) \
                and isinstance(e.operand.value, int):
            return str(-e.operand.value)
        la = _len_arg(e)
        if la is not None:
            return f"len({self.key(la)})"
        k = self.key(e)
        if k in self.numeric:
            return k
        return None

    def f(self, e: ast.AST):
        if self.atomize is not None:
            r = self.atomize(e)
            if r is not None:
                return r
        q = quantifier(e)
        if q is not None:
            pos, it, var, cond = q
            inner = Translator(self.key, None, self.numeric, None, self.canon)  # synthetic copy: no position-bound hooks
            at = B(f"any:{self.key(it)}|{_cond_text(inner.f(_rename(cond, var, '_q')))}")
            return at if pos else Not(at)
        if isinstance(e, ast.BoolOp):
            parts = [self.f(v) for v in e.values]
            return And(*parts) if isinstance(e.op, ast.And) else Or(*parts)
        if isinstance(e, ast.UnaryOp) and isinstance(e.op, ast.Not):
            return Not(self.f(e.operand))
        if isinstance(e, ast.IfExp):
            c = self.f(e.test)
            return Or(And(c, self.f(e.body)), And(Not(c), self.f(e.orelse)))
        if isinstance(e, ast.Constant) and isinstance(e.value, bool):
            return ("const", e.value)
        if isinstance(e, ast.Constant) and e.value is None:
            return FALSE
        if isinstance(e, ast.Compare):
            parts = []
            left = e.left
            for op, right in zip(e.ops, e.comparators):
                parts.append(self.cmp(left, op, right))
                left = right
            return And(*parts)
        if isinstance(e, ast.Name) and self.expand is not None:
            x = self.expand(e)
            if x is not None:
                return self.f(x)
        if isinstance(e, ast.Name) and self.canon is not None:
            ce = self.canon(e)
            if isinstance(ce, (ast.Call, ast.Compare, ast.BoolOp, ast.UnaryOp, ast.IfExp)) and quantifier(ce) is not None:
                return self.f(ce)   # a local that holds a quantified condition
        if isinstance(e, ast.Call) and isinstance(e.func, ast.Name) and e.func.id == "bool" and len(e.args) == 1:
            return self.f(e.args[0])
        la = _len_arg(e)
        if la is not None:  # `if len(x):`
            return Lt("0", f"len({self.key(la)})")
        return B("T:" + self.key(e))

    def cmp(self, a: ast.AST, op: ast.cmpop, b: ast.AST):
        if isinstance(op, (ast.Eq, ast.NotEq, ast.Is, ast.IsNot)):
            for x, y in ((a, b), (b, a)):
                if isinstance(y, ast.Constant) and isinstance(y.value, bool) and (
                        (isinstance(x, ast.Call) and isinstance(x.func, ast.Name) and x.func.id == "bool" and len(x.args) == 1)
                        or isinstance(x, (ast.Compare, ast.BoolOp)) or (isinstance(x, ast.UnaryOp) and isinstance(x.op, ast.Not))):
                    fx = self.f(x)
                    same = isinstance(op, (ast.Eq, ast.Is)) == y.value
                    return fx if same else Not(fx)
        if isinstance(op, (ast.Is, ast.IsNot)):
            pos = isinstance(op, ast.Is)
            for x, y in ((a, b), (b, a)):
                if isinstance(y, ast.Constant) and y.value is None:
                    cx = self.canon(x) if self.canon is not None else x
                    if isinstance(cx, ast.Constant):
                        return ("const", (cx.value is None) == pos)
                    if isinstance(cx, ast.IfExp):
                        # (a if c else b) is None  <=>  c and a is None  or  not c and b is None
                        c_ = self.f(cx.test)
                        r_ = Or(And(c_, self.cmp(cx.body, ast.Is(), y)), And(Not(c_), self.cmp(cx.orelse, ast.Is(), y)))
                        return r_ if pos else Not(r_)
                    kx = self.key(x)
                    if kx in ("None",) or kx.isdigit() or (kx[:1] in "'\"" and kx[-1:] == kx[:1]):
                        return ("const", (kx == "None") == pos)
                    if isinstance(cx, ast.Call) and isinstance(cx.func, ast.Attribute) and cx.func.attr == "get" \
                            and len(cx.args) == 1 and not cx.keywords:
                        # D.get(k) is None  <=>  k not in D   (dictionaries of this package never store None as an index)
                        at = B(f"in:{self.key(cx.args[0])}|{self.key(cx.func.value)}")
                        return Not(at) if pos else at
                    at = B("none:" + self.key(x))
                    return at if pos else Not(at)
            at = B(f"is:{self.key(a)}|{self.key(b)}")
            return at if pos else Not(at)
        if isinstance(op, (ast.In, ast.NotIn)) and isinstance(b, (ast.Tuple, ast.List, ast.Set)) and 1 <= len(b.elts) <= 6 \
                and (all(isinstance(x, ast.Constant) for x in b.elts) or
                     (len(b.elts) <= 3 and any(isinstance(x, ast.Constant) and x.value is None for x in b.elts)
                      and not any(isinstance(x, ast.Starred) for x in b.elts))):
            # x in ("a", "b")  <=>  x == "a" or x == "b";   x in (None, v)  <=>  x is None or x == v
            d = Or(*[self.cmp(a, ast.Is(), x) if isinstance(x, ast.Constant) and x.value is None else self.cmp(a, ast.Eq(), x)
                     for x in b.elts])
            return d if isinstance(op, ast.In) else Not(d)
        if isinstance(op, (ast.In, ast.NotIn)):
            at = B(f"in:{self.key(a)}|{self.key(b)}")
            return at if isinstance(op, ast.In) else Not(at)
        if isinstance(op, (ast.Eq, ast.NotEq)):
            # D.get(k, d) != d   <=>   k in D and D[k] != d
            for x, y in ((a, b), (b, a)):
                cx = self.canon(x) if self.canon is not None else x
                if isinstance(cx, ast.Call) and isinstance(cx.func, ast.Attribute) and cx.func.attr == "get" and len(cx.args) == 2 \
                        and not cx.keywords and self.key(cx.args[1]) == self.key(y):
                    inn = B(f"in:{self.key(cx.args[0])}|{self.key(cx.func.value)}")
                    l_, r_ = sorted([f"{self.key(cx.func.value)}[{self.key(cx.args[0])}]", self.key(y)])
                    eq = B(f"eq:{l_}|{r_}")
                    return Or(Not(inn), eq) if isinstance(op, ast.Eq) else And(inn, Not(eq))
        ta, tb = self.term(a), self.term(b)
        if ta is not None and tb is not None:
            if isinstance(op, ast.Eq):
                return Eq(ta, tb)
            if isinstance(op, ast.NotEq):
                return Not(Eq(ta, tb))
            if isinstance(op, ast.Lt):
                return Lt(ta, tb)
            if isinstance(op, ast.Gt):
                return Lt(tb, ta)
            if isinstance(op, ast.LtE):
                return Not(Lt(tb, ta))
            if isinstance(op, ast.GtE):
                return Not(Lt(ta, tb))
        ka, kb = self.key(a), self.key(b)
        if isinstance(op, (ast.Eq, ast.NotEq)):
            x, y = sorted([ka, kb])
            at = B(f"eq:{x}|{y}")
            return at if isinstance(op, ast.Eq) else Not(at)
        # non-numeric ordering (sets, dict item views): opaque, direction-normalised
        if isinstance(op, ast.Lt):
            return B(f"lt:{ka}|{kb}")
        if isinstance(op, ast.Gt):
            return B(f"lt:{kb}|{ka}")
        if isinstance(op, ast.LtE):
            return B(f"le:{ka}|{kb}")
        if isinstance(op, ast.GtE):
            return B(f"le:{kb}|{ka}")
        return B(f"cmp:{ast.unparse(ast.Compare(a, [op], [b]))}")
