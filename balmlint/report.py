"""Obligations, evidence files, known findings, exit-code discipline."""

from __future__ import annotations

import ast
import json
import os
import time
from dataclasses import dataclass, field
from pathlib import Path

from .program import FuncModel, Program
from .repo import AnalysisError, Func, text

VERIF = Path(__file__).resolve().parent.parent


@dataclass
class Ob:
    rule: str
    key: str
    where: str
    ok: bool
    detail: str

    def as_dict(self) -> dict:
        return {"rule": self.rule, "key": self.key, "where": self.where,
                "status": "discharged" if self.ok else "VIOLATED", "detail": self.detail}


@dataclass
class Check:
    prop: str
    prog: Program
    obs: list[Ob] = field(default_factory=list)
    floors: dict[str, int] = field(default_factory=dict)
    notes: list[str] = field(default_factory=list)
    analysed: set[str] = field(default_factory=set)

    def ob(self, rule: str, f: "Func | FuncModel | None", node: ast.AST | None, ok: bool, detail: str,
           key: str | None = None) -> Ob:
        fn = f.f if isinstance(f, FuncModel) else f
        if fn is not None:
            self.analysed.add(fn.key)
        if key is None:
            key = text(node)[:160] if node is not None else ""
        if node is not None and isinstance(node, ast.stmt) and not isinstance(node, (ast.Expr, ast.Assign, ast.AugAssign, ast.AnnAssign, ast.Return, ast.Raise)):
            key = key.split(":")[0][:160]
        k = f"{fn.key if fn else '-'} | {key}"
        where = fn.where(node) if fn is not None else "-"
        o = Ob(f"{self.prop}-{rule}", k, where, ok, detail)
        self.obs.append(o)
        return o

    def floor(self, rule: str, minimum: int) -> None:
        """Fewer instances than confirmed by hand => the rule's anchor vanished (exit 2)."""
        self.floors[f"{self.prop}-{rule}"] = minimum

    def note(self, s: str) -> None:
        self.notes.append(s)

    def count(self, rule: str) -> int:
        return sum(1 for o in self.obs if o.rule == f"{self.prop}-{rule}")


def load_known() -> dict:
    p = VERIF / "known_findings.json"
    if not p.exists():
        return {"open": [], "fixed": []}
    return json.loads(p.read_text())


def finish(ck: Check, tier: str, t0: float, explanation: str, assumptions: list[str],
           extra: dict | None = None, repo_root: str = "/repo", write_evidence: bool = True) -> int:
    known = load_known()
    open_keys = {(k["property"], k["rule"], k["key"]): k for k in known.get("open", [])}
    viol = [o for o in ck.obs if not o.ok]
    if not viol:  # a reported violation is an answer; floors guard against vacuous passes only
        for rule, minimum in ck.floors.items():
            n = sum(1 for o in ck.obs if o.rule == rule)
            if n < minimum:
                raise AnalysisError(
                    f"rule {rule}: only {n} instance(s) found, {minimum} confirmed by hand on the reference "
                    f"tree -- the construct the rule is anchored in has vanished")
    new_viol = []
    for o in viol:
        kf = open_keys.get((ck.prop, o.rule, o.key))
        if kf is not None:
            print(f"KNOWN-FINDING: property={ck.prop} {o.rule} {o.where}: {kf.get('what', o.detail)}")
        else:
            new_viol.append(o)
    by_rule: dict[str, int] = {}
    for o in ck.obs:
        by_rule[o.rule] = by_rule.get(o.rule, 0) + 1
    print(f"[{ck.prop}] tier={tier} repo={repo_root} obligations={len(ck.obs)} "
          f"discharged={len(ck.obs) - len(viol)} functions={len(ck.analysed)}")
    for r in sorted(by_rule):
        bad = sum(1 for o in ck.obs if o.rule == r and not o.ok)
        print(f"   {r}: {by_rule[r]} instance(s){'' if not bad else f', {bad} VIOLATED'}")
    for s in ck.notes:
        print(f"   note: {s}")
    rep0 = getattr(ck.prog.repo, "inline_report", {}) or {}
    if rep0.get("new") or rep0.get("renamed"):
        print(f"   normalised: {len(rep0.get('new', []))} function(s) that the reference tree does not have "
              f"({len(rep0.get('inlined', []))} call(s) inlined, {len(rep0.get('opaque', []))} kept as calls), "
              f"{len(rep0.get('renamed', {}))} renamed function(s) mapped back")
    replay_dir = VERIF / "evidence" / "replay"
    lines = []
    for i, o in enumerate(new_viol):
        print(f"  {o.where}: [{o.rule}] {o.detail}")
        print(f"      instance: {o.key}")
        rp = replay_dir / f"{ck.prop}-{i}.json"
        if write_evidence:
            replay_dir.mkdir(parents=True, exist_ok=True)
            rp.write_text(json.dumps({"property": ck.prop, **o.as_dict(), "repo": repo_root,
                                      "replay": f"/venv/bin/python -m balmlint check {ck.prop} --repo {repo_root}"},
                                     indent=1))
        lines.append(f"VIOLATION property={ck.prop} replay={rp}")
    wall = time.time() - t0
    if write_evidence:
        stats = ck.prog.repo.stats()
        # what the normalising pre-pass did to the tree before the rules looked at it
        rep_ = getattr(ck.prog.repo, "inline_report", {}) or {}
        stats["normalisation"] = {
            "functions_not_in_reference_tree": rep_.get("new", []),
            "inlined_into_callers": rep_.get("inlined", []),
            "kept_as_calls": rep_.get("opaque", []),
            "renamed_back_to_reference_names": rep_.get("renamed", {}),
            # rewrites that need (light) type facts: container truthiness -> len(), X.sort() -> sorted(), module constants,
            # try/except KeyError -> membership tests, TypedDict constructors -> dict displays
            "type_fact_rewrites": getattr(ck.prog.repo, "type_normalisation", {}),
            # structural rewrites of single functions (counts; zero entries omitted)
            "structural_rewrites": getattr(ck.prog.repo, "local_rewrites", {}),
        }
        samples = [o.as_dict() for o in ck.obs[:40]]
        # make sure every rule is represented among the samples
        seen = {s["rule"] for s in samples}
        for o in ck.obs[40:]:
            if o.rule not in seen:
                samples.append(o.as_dict())
                seen.add(o.rule)
        cov = {
            "explanation": explanation,
            "obligations": len(ck.obs),
            "discharged": len(ck.obs) - len(viol),
            "rule_instances": by_rule,
            "functions_analysed": sorted(ck.analysed),
            "program_model": stats,
            "samples": samples,
            "known_findings_reported": len(viol) - len(new_viol),
            "exhaustive": True,
            "notes": ck.notes,
        }
        if extra:
            cov.update(extra)
        ev = {
            "property_id": ck.prop,
            "tier": tier,
            "seed": int(os.environ.get("VERIF_SEED", "0") or 0),
            "level": "other",
            "coverage": cov,
            "assumptions": assumptions,
            "wall_s": round(wall, 3),
            "violations": len(new_viol),
        }
        (VERIF / "evidence").mkdir(exist_ok=True)
        (VERIF / "evidence" / f"{ck.prop}.json").write_text(json.dumps(ev, indent=1))
    for l in lines:
        print(l)
    return 1 if new_viol else 0
