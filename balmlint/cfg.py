"""Statement-level control-flow graphs with explicit branch-edge nodes.

Node kinds
    entry, exit (normal), raise (exceptional exit)
    stmt     simple statement (also `def`/`class` statements, `with` headers)
    test     the test of an `if`/`while`
    for      header of a `for` (evaluates the iterable once per visit, binds the target)
    branch   synthetic node on a branch edge: (.test, .pol) -- every path through the
             true/false edge of a test passes through exactly this node
    handler  entry of an `except` clause
Every statement inside a `try` body gets an exceptional edge to each handler of the
innermost enclosing `try` (over-approximation: any statement may raise there).
"""

from __future__ import annotations

import ast
from dataclasses import dataclass
from typing import Iterable, Optional

import networkx as nx

from .repo import AnalysisError


@dataclass(eq=False)
class N:
    id: int
    kind: str
    ast: Optional[ast.AST] = None  # stmt / test expr / For / ExceptHandler
    stmt: Optional[ast.stmt] = None  # owning statement
    test: Optional[ast.expr] = None  # branch: the test expression (None for `for` branches)
    pol: Optional[bool] = None  # branch polarity
    loop: Optional[ast.AST] = None  # branch of a loop header: the loop statement

    def __repr__(self) -> str:
        d = ""
        if self.ast is not None and self.kind in ("stmt", "test", "for"):
            d = ast.unparse(self.ast).split("\n")[0][:60]
        if self.kind == "branch":
            d = f"{'T' if self.pol else 'F'}:{ast.unparse(self.test)[:50] if self.test is not None else 'iter'}"
        return f"<{self.id}:{self.kind} {d}>"

    @property
    def lineno(self) -> int:
        return getattr(self.ast, "lineno", 0) or getattr(self.stmt, "lineno", 0)


class CFG:
    def __init__(self, fn: ast.FunctionDef):
        self.fn = fn
        self.g = nx.DiGraph()
        self.nodes: list[N] = []
        self.entry = self._new("entry")
        self.exit = self._new("exit")
        self.raise_exit = self._new("raise")
        self.of_stmt: dict[ast.AST, N] = {}  # statement / test owner -> its main node
        self.loop_header: dict[ast.AST, N] = {}
        self.loop_nodes: dict[ast.AST, set[int]] = {}
        self._loops: list[tuple[ast.AST, N, list[N]]] = []  # (stmt, header, break sources)
        self._tries: list[list[N]] = []
        out = self._block(fn.body, [self.entry])
        for p in out:
            self._edge(p, self.exit)
        self._idom = None
        self._rd = None

    # ------------------------------------------------------------------ building
    def _new(self, kind: str, **kw) -> N:
        n = N(len(self.nodes), kind, **kw)
        self.nodes.append(n)
        self.g.add_node(n.id)
        return n

    def _edge(self, a: N, b: N, kind: str = "") -> None:
        self.g.add_edge(a.id, b.id, kind=kind)

    def _connect(self, preds: Iterable[N], n: N) -> None:
        for p in preds:
            self._edge(p, n)

    def _exc(self, n: N) -> None:
        if self._tries:
            for h in self._tries[-1]:
                self._edge(n, h, "exc")

    def _branches(self, t: N, test, loop=None) -> tuple[N, N]:
        bt = self._new("branch", ast=test, stmt=t.stmt, test=test, pol=True, loop=loop)
        bf = self._new("branch", ast=test, stmt=t.stmt, test=test, pol=False, loop=loop)
        self._edge(t, bt)
        self._edge(t, bf)
        return bt, bf

    def _block(self, stmts: list[ast.stmt], preds: list[N]) -> list[N]:
        for s in stmts:
            preds = self._stmt(s, preds)
        return preds

    def _stmt(self, s: ast.stmt, preds: list[N]) -> list[N]:
        if isinstance(s, ast.If):
            t = self._new("test", ast=s.test, stmt=s)
            self.of_stmt[s] = t
            self._connect(preds, t)
            self._exc(t)
            bt, bf = self._branches(t, s.test)
            out = self._block(s.body, [bt])
            out += self._block(s.orelse, [bf])
            return out
        if isinstance(s, ast.While):
            t = self._new("test", ast=s.test, stmt=s)
            self.of_stmt[s] = t
            self.loop_header[s] = t
            self._connect(preds, t)
            self._exc(t)
            bt, bf = self._branches(t, s.test, loop=s)
            first = len(self.nodes)
            self._loops.append((s, t, []))
            body_out = self._block(s.body, [bt])
            _, _, breaks = self._loops.pop()
            for p in body_out:
                self._edge(p, t, "back")
            self.loop_nodes[s] = {n.id for n in self.nodes[first:]} | {t.id, bt.id}
            const_true = isinstance(s.test, ast.Constant) and bool(s.test.value)
            if const_true:
                self.g.remove_node(bf.id)
                return breaks
            out = self._block(s.orelse, [bf])
            return out + breaks
        if isinstance(s, ast.For):
            h = self._new("for", ast=s, stmt=s)
            self.of_stmt[s] = h
            self.loop_header[s] = h
            self._connect(preds, h)
            self._exc(h)
            bt, bf = self._branches(h, None, loop=s)
            first = len(self.nodes)
            self._loops.append((s, h, []))
            body_out = self._block(s.body, [bt])
            _, _, breaks = self._loops.pop()
            for p in body_out:
                self._edge(p, h, "back")
            self.loop_nodes[s] = {n.id for n in self.nodes[first:]} | {h.id, bt.id}
            out = self._block(s.orelse, [bf])
            return out + breaks
        if isinstance(s, ast.Try):
            if s.finalbody:
                raise AnalysisError(f"line {s.lineno}: try/finally is outside the CFG model")
            handlers = [self._new("handler", ast=h, stmt=s) for h in s.handlers]
            self._tries.append(handlers)
            # the statement before the try may not raise into it; the body's statements do
            out = self._block(s.body, preds)
            self._tries.pop()
            out = self._block(s.orelse, out)
            for hn, h in zip(handlers, s.handlers):
                out += self._block(h.body, [hn])
            return out
        if isinstance(s, ast.With):
            n = self._new("stmt", ast=s, stmt=s)
            self.of_stmt[s] = n
            self._connect(preds, n)
            self._exc(n)
            return self._block(s.body, [n])
        if isinstance(s, (ast.Match, ast.AsyncFor, ast.AsyncWith, ast.AsyncFunctionDef)):
            raise AnalysisError(f"line {s.lineno}: statement kind {type(s).__name__} outside the CFG model")
        n = self._new("stmt", ast=s, stmt=s)
        self.of_stmt[s] = n
        self._connect(preds, n)
        if isinstance(s, ast.Return):
            self._edge(n, self.exit)
            self._exc(n)
            return []
        if isinstance(s, ast.Raise):
            if self._tries:
                for h in self._tries[-1]:
                    self._edge(n, h, "exc")
            else:
                self._edge(n, self.raise_exit)
            return []
        if isinstance(s, ast.Break):
            if not self._loops:
                raise AnalysisError("break outside loop")
            self._loops[-1][2].append(n)
            return []
        if isinstance(s, ast.Continue):
            self._edge(n, self._loops[-1][1], "back")
            return []
        self._exc(n)
        return [n]

    # ------------------------------------------------------------------ queries
    def node(self, i: int) -> N:
        return self.nodes[i]

    def node_of(self, stmt: ast.AST) -> N:
        if stmt not in self.of_stmt:
            raise AnalysisError(f"no CFG node for statement at line {getattr(stmt, 'lineno', '?')}")
        return self.of_stmt[stmt]

    @property
    def idom(self) -> dict[int, int]:
        if self._idom is None:
            self._idom = nx.immediate_dominators(self.g, self.entry.id)
        return self._idom

    def dominators(self, n: N) -> list[N]:
        """Strict dominators of n, innermost first ([] if n is unreachable)."""
        if n.id not in self.idom:
            return []
        out = []
        i = n.id
        while self.idom.get(i, i) != i:
            i = self.idom[i]
            out.append(self.nodes[i])
        return out

    def dominates(self, a: N, b: N) -> bool:
        return a is b or a in self.dominators(b)

    def reachable(self, n: N) -> bool:
        return n.id in self.idom

    def reach_avoiding(self, src: N, avoid: Iterable[N], forward_from_succ: bool = True) -> set[int]:
        """Ids reachable from src (following >=1 edge) in the graph without `avoid` nodes."""
        av = {a.id for a in avoid}
        seen: set[int] = set()
        todo = [s for s in self.g.successors(src.id) if s not in av]
        while todo:
            i = todo.pop()
            if i in seen:
                continue
            seen.add(i)
            for s in self.g.successors(i):
                if s not in av and s not in seen:
                    todo.append(s)
        return seen

    def can_reach_avoiding(self, dst: N, avoid: Iterable[N]) -> set[int]:
        """Ids from which dst is reachable (>=1 edge) without passing through `avoid`."""
        av = {a.id for a in avoid}
        seen: set[int] = set()
        todo = [p for p in self.g.predecessors(dst.id) if p not in av]
        while todo:
            i = todo.pop()
            if i in seen:
                continue
            seen.add(i)
            for p in self.g.predecessors(i):
                if p not in av and p not in seen:
                    todo.append(p)
        return seen

    def between(self, a: N, b: N) -> set[int]:
        """Nodes that lie on some path a -> ... -> b that does not re-enter a (a, b excluded
        unless b lies on a cycle avoiding a)."""
        fwd = self.reach_avoiding(a, [a])
        bwd = self.can_reach_avoiding(b, [a])
        return fwd & bwd

    def must_pass(self, src: N, through: Iterable[N], targets: Iterable[N]) -> bool:
        """True iff every path from src to any node of `targets` passes a node of `through`
        (src itself does not count)."""
        tg = {t.id for t in targets}
        reach = self.reach_avoiding(src, through)
        return not (reach & tg)

    def enclosing_loops(self, n: N) -> list[ast.AST]:
        """Loop statements whose body contains n, innermost first."""
        ls = [l for l, ids in self.loop_nodes.items() if n.id in ids and self.loop_header[l] is not n]
        ls.sort(key=lambda l: len(self.loop_nodes[l]))
        return ls

    # ------------------------------------------------------------------ reaching definitions
    def defs_of(self, n: N) -> set[str]:
        """Local names (re)bound by CFG node n."""
        out: set[str] = set()
        a = n.ast
        if n.kind == "entry":
            args = self.fn.args
            for p in args.posonlyargs + args.args + args.kwonlyargs:
                out.add(p.arg)
            if args.vararg:
                out.add(args.vararg.arg)
            if args.kwarg:
                out.add(args.kwarg.arg)
            return out
        if n.kind == "for":
            for t in ast.walk(a.target):
                if isinstance(t, ast.Name):
                    out.add(t.id)
            _named(a.iter, out)
            return out
        if n.kind == "handler":
            if a.name:
                out.add(a.name)
            return out
        if n.kind == "test":
            _named(a, out)
            return out
        if n.kind != "stmt":
            return out
        if isinstance(a, (ast.FunctionDef, ast.ClassDef)):
            out.add(a.name)
            return out
        if isinstance(a, ast.With):
            for it in a.items:
                if it.optional_vars is not None:
                    for t in ast.walk(it.optional_vars):
                        if isinstance(t, ast.Name):
                            out.add(t.id)
            return out
        if isinstance(a, (ast.Import, ast.ImportFrom)):
            for al in a.names:
                out.add((al.asname or al.name).split(".")[0])
            return out
        for t in ast.walk(a):
            if isinstance(t, ast.Name) and isinstance(t.ctx, (ast.Store, ast.Del)):
                out.add(t.id)
            elif isinstance(t, (ast.ListComp, ast.SetComp, ast.DictComp, ast.GeneratorExp)):
                pass
        # comprehension targets are scoped to the comprehension: remove those that are only there
        comp_only = set()
        for t in ast.walk(a):
            if isinstance(t, ast.comprehension):
                for x in ast.walk(t.target):
                    if isinstance(x, ast.Name):
                        comp_only.add(x.id)
        direct = set()
        if isinstance(a, (ast.Assign, ast.AugAssign, ast.AnnAssign, ast.Delete)):
            tg = a.targets if isinstance(a, (ast.Assign, ast.Delete)) else [a.target]
            for t0 in tg:
                for x in ast.walk(t0):
                    if isinstance(x, ast.Name) and isinstance(x.ctx, (ast.Store, ast.Del)):
                        direct.add(x.id)
        return (out - comp_only) | direct

    def reaching(self) -> dict[int, dict[str, frozenset[int]]]:
        """IN sets: node id -> name -> ids of the definitions that reach the node."""
        if self._rd is not None:
            return self._rd
        gen = {n.id: self.defs_of(n) for n in self.nodes if n.id in self.g}
        IN: dict[int, dict[str, frozenset[int]]] = {i: {} for i in gen}
        OUT: dict[int, dict[str, frozenset[int]]] = {i: {} for i in gen}
        order = list(nx.dfs_preorder_nodes(self.g, self.entry.id))
        work = list(order)
        inwork = set(work)
        while work:
            i = work.pop(0)
            inwork.discard(i)
            cur: dict[str, set[int]] = {}
            is_handler = self.nodes[i].kind == "handler"
            for p in self.g.predecessors(i):
                # an exception leaves the raising statement before its own assignment took effect
                src = IN[p] if is_handler else OUT[p]
                for k, v in src.items():
                    cur.setdefault(k, set()).update(v)
                if is_handler:
                    for k, v in OUT[p].items():
                        # ... unless the statement is compound (its parts may have completed)
                        if self.nodes[p].kind != "stmt" or not isinstance(self.nodes[p].ast, (ast.Assign, ast.AugAssign, ast.AnnAssign)):
                            cur.setdefault(k, set()).update(v)
            newin = {k: frozenset(v) for k, v in cur.items()}
            IN[i] = newin
            out = dict(newin)
            for name in gen[i]:
                out[name] = frozenset([i])
            if out != OUT[i]:
                OUT[i] = out
                for s in self.g.successors(i):
                    if s not in inwork:
                        work.append(s)
                        inwork.add(s)
        self._rd = IN
        return IN

    def reaching_defs(self, name: str, at: N) -> list[N]:
        return [self.nodes[i] for i in sorted(self.reaching().get(at.id, {}).get(name, ()))]


def _named(e: ast.AST, out: set[str]) -> None:
    for t in ast.walk(e):
        if isinstance(t, ast.NamedExpr) and isinstance(t.target, ast.Name):
            out.add(t.target.id)
