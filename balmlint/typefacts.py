"""Light type facts read from the annotations of the package, and the normalisations that need them.

Nothing here is a type checker: a fact is used only when every source agrees (all functions of a name return a sized
type, every store to a local has a sized type), otherwise the construct is left as written.

  * `if x:` / `if not x:` / `while x:` on a value known to be a list/set/dict/tuple  ->  `len(x) > 0` / `len(x) == 0`
    (the spelling the rules reason about; the truth value of a container *is* its non-emptiness)
  * `X.sort(..)` on a local that holds a list nobody else can see (built here, or returned fresh by a package function)
    ->  `X = sorted(X, ..)`
  * module-level names bound once to a number or string and never rebound inside the package are read as that literal
"""
from __future__ import annotations

import ast

SIZED = {"list", "set", "dict", "tuple", "frozenset", "List", "Set", "Dict", "Tuple", "FrozenSet", "Sequence", "Collection",
         "Mapping", "MutableMapping", "MutableSequence", "MutableSet", "AbstractSet", "deque", "OrderedDict", "defaultdict"}
SIZED_BUILTIN_CALLS = {"list", "sorted", "set", "dict", "tuple", "frozenset", "deque", "OrderedDict", "defaultdict"}


def _fn_params(fn: ast.FunctionDef) -> list[ast.arg]:
    a = fn.args
    return a.posonlyargs + a.args + a.kwonlyargs


class TypeFacts:
    def __init__(self, trees: dict[str, ast.Module]):
        self.aliases: dict[str, ast.expr] = {}
        self.returns: dict[str, list[ast.expr | None]] = {}
        self.fresh_list: dict[str, list[bool]] = {}
        self.consts: dict[str, dict[str, ast.expr]] = {}
        rebound: set[str] = set()
        for mod, t in trees.items():
            binds: dict[str, list[ast.AST]] = {}
            for s in t.body:
                if isinstance(s, ast.AnnAssign) and isinstance(s.target, ast.Name) and s.value is not None \
                        and ast.unparse(s.annotation).endswith("TypeAlias"):
                    self.aliases[s.target.id] = s.value
                tg = s.targets if isinstance(s, ast.Assign) else [s.target] if isinstance(s, (ast.AnnAssign, ast.AugAssign)) else []
                for x in tg:
                    for y in ast.walk(x):
                        if isinstance(y, ast.Name):
                            binds.setdefault(y.id, []).append(s)
                if not isinstance(s, (ast.Assign, ast.AnnAssign, ast.AugAssign, ast.FunctionDef, ast.ClassDef, ast.Import,
                                      ast.ImportFrom, ast.Expr)):
                    # a conditional or guarded binding at module level: not a constant
                    for y in ast.walk(s):
                        if isinstance(y, ast.Name) and isinstance(y.ctx, ast.Store):
                            binds.setdefault(y.id, []).extend([s, s])
            for n in ast.walk(t):
                if isinstance(n, ast.Global):
                    rebound.update(n.names)
                elif isinstance(n, ast.Attribute) and isinstance(n.ctx, (ast.Store, ast.Del)):
                    rebound.add(n.attr)
                elif isinstance(n, ast.FunctionDef):
                    self.returns.setdefault(n.name, []).append(n.returns)
                    self.fresh_list.setdefault(n.name, []).append(_returns_fresh_list(n))
            cs = {}
            for name, ss in binds.items():
                if len(ss) == 1 and isinstance(ss[0], (ast.Assign, ast.AnnAssign)) and ss[0].value is not None \
                        and _plain_constant(ss[0].value):
                    cs[name] = ss[0].value
            self.consts[mod] = cs
        for mod in self.consts:
            self.consts[mod] = {k: v for k, v in self.consts[mod].items() if k not in rebound}

    # ---- annotations
    def sized_ann(self, a: ast.expr | None, depth: int = 0) -> bool:
        if a is None or depth > 5:
            return False
        if isinstance(a, ast.Constant) and isinstance(a.value, str):
            try:
                return self.sized_ann(ast.parse(a.value, mode="eval").body, depth + 1)
            except SyntaxError:
                return False
        if isinstance(a, ast.Subscript):
            return self.sized_ann(a.value, depth + 1) if not _is_optional(a) else False
        if isinstance(a, ast.Attribute):
            return a.attr in SIZED
        if isinstance(a, ast.Name):
            if a.id in SIZED:
                return True
            if a.id in self.aliases:
                return self.sized_ann(self.aliases[a.id], depth + 1)
        return False

    def tuple_elem(self, a: ast.expr | None, k: int) -> ast.expr | None:
        if isinstance(a, ast.Name) and a.id in self.aliases:
            a = self.aliases[a.id]
        if isinstance(a, ast.Subscript) and isinstance(a.value, ast.Name) and a.value.id in ("tuple", "Tuple") \
                and isinstance(a.slice, ast.Tuple) and 0 <= k < len(a.slice.elts) \
                and not any(isinstance(e, ast.Constant) and e.value is Ellipsis for e in a.slice.elts):
            return a.slice.elts[k]
        return None

    def call_ann(self, c: ast.Call) -> ast.expr | None:
        """The return annotation of the package functions a call may reach (by name), when they agree in being sized."""
        f = c.func
        name = f.id if isinstance(f, ast.Name) else f.attr if isinstance(f, ast.Attribute) else None
        if name is None:
            return None
        if isinstance(f, ast.Name) and name in SIZED_BUILTIN_CALLS:
            return ast.Name("list", ast.Load())
        rs = self.returns.get(name)
        if not rs or any(r is None for r in rs):
            return None
        if all(self.sized_ann(r) for r in rs) and len({ast.unparse(r) for r in rs}) == 1:
            return rs[0]
        return None

    def call_fresh_list(self, c: ast.Call) -> bool:
        f = c.func
        name = f.id if isinstance(f, ast.Name) else f.attr if isinstance(f, ast.Attribute) else None
        if isinstance(f, ast.Name) and name in ("list", "sorted"):
            return True
        fl = self.fresh_list.get(name or "")
        return bool(fl) and all(fl)


def _plain_constant(v: ast.expr) -> bool:
    """a number or string, or a (nested) tuple of them -- immutable, so every reader sees the same value"""
    if isinstance(v, ast.Constant):
        return isinstance(v.value, (int, float, str)) and not isinstance(v.value, bool)
    if isinstance(v, ast.Tuple):
        return bool(v.elts) and all(_plain_constant(e) for e in v.elts)
    if isinstance(v, ast.BinOp) and isinstance(v.op, (ast.Pow, ast.Mult, ast.Add, ast.Sub, ast.LShift)):
        # 2**10, 60 * 60: arithmetic over integer literals
        return all(isinstance(x, ast.Constant) and isinstance(x.value, int) and not isinstance(x.value, bool) for x in (v.left, v.right))
    return False


def _is_optional(a: ast.Subscript) -> bool:
    return isinstance(a.value, ast.Name) and a.value.id in ("Optional", "Union") or \
        isinstance(a.value, ast.Attribute) and a.value.attr in ("Optional", "Union")


def _own_nodes(fn: ast.FunctionDef):
    """Nodes of the function's own scope (nested functions, lambdas and classes are not entered)."""
    stack = list(fn.body)
    while stack:
        n = stack.pop()
        yield n
        for c in ast.iter_child_nodes(n):
            if isinstance(c, (ast.FunctionDef, ast.AsyncFunctionDef, ast.Lambda, ast.ClassDef)):
                continue
            stack.append(c)


def _returns_fresh_list(fn: ast.FunctionDef) -> bool:
    rets = [n for n in _own_nodes(fn) if isinstance(n, ast.Return)]
    if not rets or any(isinstance(n, (ast.Yield, ast.YieldFrom)) for n in _own_nodes(fn)):
        return False
    built: dict[str, bool] = {}
    for n in _own_nodes(fn):
        if isinstance(n, (ast.Assign, ast.AnnAssign)) and n.value is not None:
            for t in (n.targets if isinstance(n, ast.Assign) else [n.target]):
                if isinstance(t, ast.Name):
                    built[t.id] = built.get(t.id, True) and _fresh_expr(n.value)
                else:
                    for y in ast.walk(t):
                        if isinstance(y, ast.Name) and isinstance(y.ctx, ast.Store):
                            built[y.id] = False
        elif isinstance(n, (ast.For, ast.With, ast.NamedExpr, ast.AugAssign, ast.ExceptHandler)):
            tg = n.target if isinstance(n, (ast.For, ast.NamedExpr, ast.AugAssign)) else None
            if tg is not None:
                for y in ast.walk(tg):
                    if isinstance(y, ast.Name):
                        built[y.id] = False
    params = {a.arg for a in _fn_params(fn)}
    # a fresh local must not have been stored anywhere else either
    leaked = set()
    for n in _own_nodes(fn):
        if isinstance(n, (ast.Assign, ast.AnnAssign)) and n.value is not None and isinstance(n.value, ast.Name):
            leaked.add(n.value.id)
        if isinstance(n, ast.Call):
            for a in list(n.args) + [k.value for k in n.keywords]:
                if isinstance(a, ast.Name):
                    leaked.add(a.id)
    for r in rets:
        v = r.value
        if v is None:
            return False
        if _fresh_expr(v):
            continue
        if isinstance(v, ast.Name) and v.id not in params and built.get(v.id) and v.id not in leaked:
            continue
        return False
    return True


def _fresh_expr(v: ast.expr) -> bool:
    return isinstance(v, (ast.List, ast.ListComp)) or \
        isinstance(v, ast.Call) and isinstance(v.func, ast.Name) and v.func.id in ("list", "sorted")


# ------------------------------------------------------------------------------------------------ per-function view

class _FnTypes:
    def __init__(self, fn: ast.FunctionDef, facts: TypeFacts, outer: "_FnTypes | None"):
        self.fn, self.facts, self.outer = fn, facts, outer
        self.params = {a.arg: a.annotation for a in _fn_params(fn)}
        if fn.args.vararg:
            self.params[fn.args.vararg.arg] = ast.Name("tuple", ast.Load())
        if fn.args.kwarg:
            self.params[fn.args.kwarg.arg] = ast.Name("dict", ast.Load())
        self.stores: dict[str, list[tuple[str, object]]] = {}
        for n in _own_nodes(fn):
            if isinstance(n, ast.Assign):
                for t in n.targets:
                    self._store(t, n.value, None)
            elif isinstance(n, ast.AnnAssign):
                if isinstance(n.target, ast.Name):
                    self.stores.setdefault(n.target.id, []).append(("ann", n.annotation))
            elif isinstance(n, ast.AugAssign):
                pass        # keeps the kind of container
            elif isinstance(n, ast.NamedExpr):
                self._store(n.target, n.value, None)
            elif isinstance(n, (ast.For, ast.comprehension)):
                self._unknown(n.target)
            elif isinstance(n, ast.With):
                for it in n.items:
                    if it.optional_vars is not None:
                        self._unknown(it.optional_vars)
            elif isinstance(n, ast.ExceptHandler) and n.name:
                self.stores.setdefault(n.name, []).append(("unknown", None))
            elif isinstance(n, (ast.Import, ast.ImportFrom)):
                for a in n.names:
                    self.stores.setdefault((a.asname or a.name).split(".")[0], []).append(("unknown", None))
            elif isinstance(n, ast.Delete):
                for t in n.targets:
                    self._unknown(t)
        self.nonlocal_ = {x for n in _own_nodes(fn) if isinstance(n, (ast.Global, ast.Nonlocal)) for x in n.names}
        for c in ast.walk(fn):
            if c is not fn and isinstance(c, ast.FunctionDef):
                for n in _own_nodes(c):
                    if isinstance(n, ast.Nonlocal):
                        for x in n.names:
                            self.stores.setdefault(x, []).append(("unknown", None))
        self._busy: set[str] = set()

    def _unknown(self, t: ast.AST) -> None:
        for y in ast.walk(t):
            if isinstance(y, ast.Name):
                self.stores.setdefault(y.id, []).append(("unknown", None))

    def _store(self, t: ast.AST, value: ast.expr, path) -> None:
        if isinstance(t, ast.Name):
            self.stores.setdefault(t.id, []).append(("val", value) if path is None else ("elem", (value, path)))
        elif isinstance(t, (ast.Tuple, ast.List)):
            for k, e in enumerate(t.elts):
                if isinstance(e, ast.Starred):
                    self._unknown(e)
                elif isinstance(value, (ast.Tuple, ast.List)) and len(value.elts) == len(t.elts) and path is None:
                    self._store(e, value.elts[k], None)
                elif path is None:
                    self._store(e, value, k)
                else:
                    self._unknown(e)

    def ann_of(self, e: ast.expr, depth: int = 0) -> ast.expr | None:
        """An annotation describing the value of `e`, or None when unknown."""
        f = self.facts
        if depth > 6:
            return None
        if isinstance(e, (ast.List, ast.ListComp)):
            return ast.Name("list", ast.Load())
        if isinstance(e, (ast.Set, ast.SetComp)):
            return ast.Name("set", ast.Load())
        if isinstance(e, (ast.Dict, ast.DictComp)):
            return ast.Name("dict", ast.Load())
        if isinstance(e, ast.Tuple):
            return ast.Name("tuple", ast.Load())
        if isinstance(e, ast.Call):
            if isinstance(e.func, ast.Attribute) and e.func.attr == "copy" and not e.args:
                return self.ann_of(e.func.value, depth + 1)
            if isinstance(e.func, ast.Name) and e.func.id == "cast" and len(e.args) == 2:
                return e.args[0]
            return f.call_ann(e)
        if isinstance(e, ast.Subscript) and isinstance(e.slice, ast.Constant) and isinstance(e.slice.value, int):
            return f.tuple_elem(self.ann_of(e.value, depth + 1), e.slice.value)
        if isinstance(e, ast.Subscript) and isinstance(e.slice, ast.Slice):
            a = self.ann_of(e.value, depth + 1)
            return a if f.sized_ann(a) else None
        if isinstance(e, ast.BinOp) and isinstance(e.op, (ast.Add, ast.BitOr, ast.BitAnd, ast.Sub)):
            a, b = self.ann_of(e.left, depth + 1), self.ann_of(e.right, depth + 1)
            return a if f.sized_ann(a) and f.sized_ann(b) else None
        if isinstance(e, ast.IfExp):
            a, b = self.ann_of(e.body, depth + 1), self.ann_of(e.orelse, depth + 1)
            return a if f.sized_ann(a) and f.sized_ann(b) else None
        if isinstance(e, ast.Name):
            return self.name_ann(e.id, depth)
        return None

    def name_ann(self, x: str, depth: int = 0) -> ast.expr | None:
        f = self.facts
        if x in self.nonlocal_:
            return None
        if x not in self.stores and x not in self.params:
            return self.outer.name_ann(x, depth + 1) if self.outer is not None else None
        if x in self._busy:
            return ast.Name("list", ast.Load())      # a cycle adds no new kind of value
        self._busy.add(x)
        try:
            anns: list[ast.expr | None] = []
            if x in self.params:
                anns.append(self.params[x])
            for kind, v in self.stores.get(x, []):
                if kind == "unknown":
                    return None
                if kind == "ann":
                    anns.append(v)                                   # type: ignore[arg-type]
                elif kind == "val":
                    anns.append(self.ann_of(v, depth + 1))           # type: ignore[arg-type]
                else:
                    val, k = v                                      # type: ignore[misc]
                    anns.append(f.tuple_elem(self.ann_of(val, depth + 1), k))
            if anns and all(f.sized_ann(a) for a in anns):
                return anns[0]
            return None
        finally:
            self._busy.discard(x)

    def sized(self, e: ast.expr) -> bool:
        if not isinstance(e, (ast.Name, ast.Attribute, ast.Subscript, ast.Call)):
            return False
        if isinstance(e, ast.Attribute):
            return False
        return self.facts.sized_ann(self.ann_of(e))


def _len_cmp(e: ast.expr, positive: bool) -> ast.expr:
    c = ast.Compare(ast.Call(ast.Name("len", ast.Load()), [e], []), [ast.Gt() if positive else ast.Eq()],
                    [ast.Constant(0)])
    for y in ast.walk(c):
        ast.copy_location(y, e)
    return c


def _rewrite_tests(fn: ast.FunctionDef, ft: _FnTypes, stats: list) -> None:
    def test(e: ast.expr) -> ast.expr:
        """`e` stands where only its truth value is used."""
        if isinstance(e, ast.UnaryOp) and isinstance(e.op, ast.Not):
            if ft.sized(e.operand):
                stats.append(e.lineno)
                return _len_cmp(e.operand, False)
            e.operand = test(e.operand)
            return e
        if isinstance(e, ast.BoolOp):
            e.values = [test(v) for v in e.values]
            return e
        if ft.sized(e):
            stats.append(e.lineno)
            return _len_cmp(e, True)
        return e

    def value(e: ast.expr) -> None:
        """`not x` yields a bool wherever it stands."""
        stack: list[ast.AST] = [e]
        while stack:
            n = stack.pop()
            if isinstance(n, (ast.Lambda, ast.FunctionDef)):
                continue
            stack.extend(ast.iter_child_nodes(n))
            for fld, v in ast.iter_fields(n):
                if isinstance(v, ast.UnaryOp) and isinstance(v.op, ast.Not) and ft.sized(v.operand):
                    stats.append(v.lineno)
                    setattr(n, fld, _len_cmp(v.operand, False))
                elif isinstance(v, list):
                    for i, w in enumerate(v):
                        if isinstance(w, ast.UnaryOp) and isinstance(w.op, ast.Not) and ft.sized(w.operand):
                            stats.append(w.lineno)
                            v[i] = _len_cmp(w.operand, False)

    for n in list(_own_nodes(fn)):
        if isinstance(n, (ast.If, ast.While, ast.IfExp, ast.Assert)):
            n.test = test(n.test)
        elif isinstance(n, ast.comprehension):
            n.ifs = [test(c) for c in n.ifs]
    for n in list(_own_nodes(fn)):
        if isinstance(n, ast.stmt) and not isinstance(n, (ast.FunctionDef, ast.ClassDef)):
            for fld, v in ast.iter_fields(n):
                if isinstance(v, ast.expr):
                    holder = ast.Expr(v)
                    value(holder)
                    setattr(n, fld, holder.value)


def _rewrite_sorts(fn: ast.FunctionDef, ft: _FnTypes, stats: list) -> None:
    """`X.sort(..)`  ->  `X = sorted(X, ..)` when every store to the local X is a list no one else holds."""
    def fresh_local(x: str) -> bool:
        if x in ft.params or x in ft.nonlocal_ or x not in ft.stores:
            return False
        for kind, v in ft.stores[x]:
            if kind != "val":
                return False
            if not (_fresh_expr(v) or isinstance(v, ast.Call) and ft.facts.call_fresh_list(v)):   # type: ignore[arg-type]
                return False
        return True

    class T(ast.NodeTransformer):
        def visit_FunctionDef(self, n):
            return n if n is not fn else self.generic_visit(n)

        def visit_Lambda(self, n):
            return n

        def visit_Expr(self, n):
            c = n.value
            if isinstance(c, ast.Call) and isinstance(c.func, ast.Attribute) and c.func.attr == "sort" and not c.args \
                    and isinstance(c.func.value, ast.Name) and fresh_local(c.func.value.id):
                x = c.func.value.id
                a = ast.Assign([ast.Name(x, ast.Store())], ast.Call(ast.Name("sorted", ast.Load()), [ast.Name(x, ast.Load())],
                                                                  c.keywords))
                ast.copy_location(a, n)
                ast.fix_missing_locations(a)
                for y in ast.walk(a):
                    if hasattr(y, "lineno"):
                        y.lineno = y.end_lineno = n.lineno
                stats.append(n.lineno)
                return a
            return n
    T().visit(fn)


def _subst_consts(tree: ast.Module, consts: dict[str, ast.Constant], imported: dict[str, ast.Constant], stats: list) -> None:
    table = dict(imported)
    table.update(consts)
    if not table:
        return

    def scope_locals(fn) -> set[str]:
        s = {a.arg for a in _fn_params(fn)} if not isinstance(fn, ast.Lambda) else {a.arg for a in fn.args.args}
        if isinstance(fn, ast.Lambda):
            return s
        for n in _own_nodes(fn):
            if isinstance(n, ast.Name) and isinstance(n.ctx, (ast.Store, ast.Del)):
                s.add(n.id)
            elif isinstance(n, ast.ExceptHandler) and n.name:
                s.add(n.name)
            elif isinstance(n, (ast.FunctionDef, ast.ClassDef)):
                s.add(n.name)
        return s

    def walk(node: ast.AST, shadow: frozenset[str]) -> None:
        for fld, v in ast.iter_fields(node):
            items = v if isinstance(v, list) else [v]
            for i, c in enumerate(items):
                if not isinstance(c, ast.AST):
                    continue
                if isinstance(c, ast.Name) and isinstance(c.ctx, ast.Load) and c.id in table and c.id not in shadow:
                    import copy as _copy
                    k = _copy.deepcopy(table[c.id])
                    for y in ast.walk(k):
                        ast.copy_location(y, c)
                    stats.append((c.id, c.lineno))
                    if isinstance(v, list):
                        v[i] = k
                    else:
                        setattr(node, fld, k)
                elif isinstance(c, (ast.FunctionDef, ast.Lambda)):
                    walk(c, shadow | frozenset(scope_locals(c)))
                elif isinstance(c, (ast.ListComp, ast.SetComp, ast.DictComp, ast.GeneratorExp)):
                    tg = {y.id for g in c.generators for y in ast.walk(g.target) if isinstance(y, ast.Name)}
                    walk(c, shadow | frozenset(tg))
                else:
                    walk(c, shadow)
    for s in tree.body:
        if isinstance(s, (ast.FunctionDef, ast.ClassDef)):
            walk(ast.Module([s], []), frozenset())


def _last_name(e: ast.expr) -> str | None:
    return e.attr if isinstance(e, ast.Attribute) else e.id if isinstance(e, ast.Name) else None


def _edge_keys_always_given(trees: dict[str, ast.Module]) -> dict[str, set[str]]:
    """Per graph (named by the last component of the receiver, `self.dag` -> "dag"): the keywords that every
    `.add_edge(..)` / `.add_edges_from(..)` call on it passes."""
    common: dict[str, set[str]] = {}
    for t in trees.values():
        for n in ast.walk(t):
            if isinstance(n, ast.Call) and isinstance(n.func, ast.Attribute) and n.func.attr in ("add_edge", "add_edges_from",
                                                                                                  "add_weighted_edges_from"):
                g = _last_name(n.func.value)
                if g is None:
                    continue
                ks = set() if n.func.attr != "add_edge" or any(k.arg is None for k in n.keywords) else {k.arg for k in n.keywords}
                common[g] = ks if g not in common else common[g] & ks
    return common


def _eafp_to_lbyl(tree: ast.Module, edge_keys: dict[str, set[str]], stats: list) -> None:
    """`try: v = D[k] / except KeyError: H / else: E`  ->  `if k in D: v = D[k]; E / else: H`, and for a graph
    `G.edges[a, b][K]` (K an attribute every add_edge call supplies) the test is `G.has_edge(a, b)`."""
    class T(ast.NodeTransformer):
        def visit_Try(self, n: ast.Try):
            self.generic_visit(n)
            if len(n.body) != 1 or len(n.handlers) != 1 or n.finalbody:
                return n
            h = n.handlers[0]
            if not (isinstance(h.type, ast.Name) and h.type.id == "KeyError"):
                return n
            if h.name and any(isinstance(y, ast.Name) and y.id == h.name for b in h.body for y in ast.walk(b)):
                return n
            st = n.body[0]
            if isinstance(st, ast.Assign) and len(st.targets) == 1 and isinstance(st.targets[0], ast.Name):
                chain = st.value
            elif isinstance(st, ast.Expr):
                chain = st.value
            else:
                return n
            outer: list[ast.expr] = []
            e = chain
            while isinstance(e, ast.Subscript):
                outer.append(e)
                e = e.value
            if not outer:
                return n
            base = outer[-1]            # innermost subscript
            rest = outer[:-1]
            if any(isinstance(y, (ast.Call, ast.Subscript)) for y in ast.walk(base.value)) or \
                    any(isinstance(y, (ast.Call, ast.Subscript)) for y in ast.walk(base.slice)):
                return n
            if isinstance(base.value, ast.Attribute) and base.value.attr == "edges" and isinstance(base.slice, ast.Tuple) \
                    and len(base.slice.elts) == 2:
                if not all(isinstance(r.slice, ast.Constant) and r.slice.value in edge_keys.get(_last_name(base.value.value) or '', set())
                           for r in rest):
                    return n
                cond: ast.expr = ast.Call(ast.Attribute(base.value.value, "has_edge", ast.Load()), list(base.slice.elts), [])
            elif not rest:
                cond = ast.Compare(base.slice, [ast.In()], [base.value])
            else:
                return n
            new = ast.If(cond, [st] + list(n.orelse), list(h.body))
            ast.copy_location(new, n)
            for y in ast.walk(cond):
                ast.copy_location(y, st)
            ast.fix_missing_locations(new)
            stats.append(n.lineno)
            return new
    T().visit(tree)


def _typed_dict_displays(trees: dict[str, ast.Module]) -> int:
    """`SomeTypedDict(a=1, b=2)` and `dict(a=1, b=2)` are dict displays `{"a": 1, "b": 2}` at run time."""
    tds = set()
    for t in trees.values():
        for n in ast.walk(t):
            if isinstance(n, ast.ClassDef) and any((isinstance(b, ast.Name) and b.id == "TypedDict") or
                                                   (isinstance(b, ast.Attribute) and b.attr == "TypedDict") for b in n.bases):
                tds.add(n.name)
    count = [0]

    class T(ast.NodeTransformer):
        def visit_Call(self, n):
            self.generic_visit(n)
            if isinstance(n.func, ast.Name) and (n.func.id in tds or n.func.id == "dict") and not n.args and n.keywords \
                    and all(k.arg is not None for k in n.keywords):
                d = ast.Dict([ast.Constant(k.arg) for k in n.keywords], [k.value for k in n.keywords])
                ast.copy_location(d, n)
                for k_, kw in zip(d.keys, n.keywords):
                    ast.copy_location(k_, kw.value)
                count[0] += 1
                return d
            return n
    for t in trees.values():
        T().visit(t)
    return count[0]


def normalise(trees: dict[str, ast.Module]) -> dict:
    """Apply the three normalisations to all module trees (in place); returns what was done."""
    facts = TypeFacts(trees)
    done = {"truth_tests": 0, "sorts": 0, "constants": {}, "key_tests": 0}
    edge_keys = _edge_keys_always_given(trees)
    done["dict_displays"] = _typed_dict_displays(trees)
    for mod, t in trees.items():
        kt: list = []
        _eafp_to_lbyl(t, edge_keys, kt)
        done["key_tests"] += len(kt)
        imported: dict[str, ast.Constant] = {}
        for s in t.body:
            if isinstance(s, ast.ImportFrom) and s.module:
                for cand, cs in facts.consts.items():
                    if cand == s.module or cand.endswith("." + s.module) or s.level and cand.endswith(s.module):
                        for a in s.names:
                            if a.name in cs:
                                imported[a.asname or a.name] = cs[a.name]
        cst: list = []
        _subst_consts(t, facts.consts.get(mod, {}), imported, cst)
        for name, _ in cst:
            done["constants"][f"{mod}.{name}"] = done["constants"].get(f"{mod}.{name}", 0) + 1

        def per_fn(body, outer):
            for s in body:
                if isinstance(s, ast.FunctionDef):
                    ft = _FnTypes(s, facts, outer)
                    a: list = []
                    b: list = []
                    _rewrite_tests(s, ft, a)
                    _rewrite_sorts(s, ft, b)
                    done["truth_tests"] += len(a)
                    done["sorts"] += len(b)
                    per_fn([x for x in ast.walk(s) if isinstance(x, ast.FunctionDef) and x is not s and _direct_child_fn(s, x)], ft)
                elif isinstance(s, ast.ClassDef):
                    per_fn(s.body, outer)
                elif isinstance(s, (ast.If, ast.Try)):
                    per_fn(s.body, outer)
                    per_fn(getattr(s, "orelse", []), outer)
        per_fn(t.body, None)
        ast.fix_missing_locations(t)
    return done


def _direct_child_fn(parent: ast.FunctionDef, child: ast.FunctionDef) -> bool:
    stack = list(parent.body)
    while stack:
        n = stack.pop()
        if n is child:
            return True
        if isinstance(n, (ast.FunctionDef, ast.Lambda, ast.ClassDef)):
            continue
        stack.extend(ast.iter_child_nodes(n))
    return False
