"""C15 -- early stops and limit errors leave a valid, resumable diagram."""

from __future__ import annotations

import ast

from .. import logic
from ..program import FuncModel, call_arg
from ..report import Check
from ..repo import AnalysisError, dotted, own_walk, text
from .common import (ATTR_FIELDS, SD_MOD, GrowthModel, callee_name, fresh_diagrams, handle_stores, is_empty_list,
                     is_false, is_none, is_true, reach_stop, region_of)

EXPLANATION = (
    "(E1) atomic batches: in the window between an edge creation on node P and the store expanded=True on P "
    "(for the id-map attachment: between the first expanded=True store and the function's exit) no statement "
    "may let a RuntimeError escape -- no `raise`, no call whose may-raise summary (computed over the call graph, "
    "specialised on constant Boolean arguments) is true -- and no call may reach the ASP solver unless it sits "
    "in a handler that catches the failure. (E2) on every path from the start of the function/iteration to a "
    "limit `raise`, the only heap effects are cache resets (None) and dropping recomputable percolated_* data. "
    "(E3) return contracts of the expansion drivers: a return reached under a size-limit test returns False and "
    "is on a path where the node about to be processed is known unexpanded; a path that abandons successors "
    "under a stack limit clears the flag that is returned; the SCC driver returns False as soon as a nested "
    "expander does and attaches nothing from it. (E4) a failed candidate search never counts as 'no attractor': "
    "every flag/return value that guards an empty-list mark is the emptiness test itself or False. (E5) the "
    "sub-space list of single-node expansion is provably complete at the ensure loop (len < limit, from the "
    "limit test that raises and the solver contract len <= limit, decided by enumeration of orderings)."
)
ASSUMPTIONS = [
    "limits are non-negative integers",
    "solver contract len(result) <= solution_limit (decided by C09-T3)",
    "exceptions other than RuntimeError (KeyError for API misuse, AssertionError) are outside the property",
]

DRIVER_MODULES = ("biobalm._sd_algorithms.expand_bfs", "biobalm._sd_algorithms.expand_dfs",
                  "biobalm._sd_algorithms.expand_minimal_spaces", "biobalm._sd_algorithms.expand_attractor_seeds",
                  "biobalm._sd_algorithms.expand_to_target", "biobalm._sd_algorithms.expand_source_blocks",
                  "biobalm._sd_algorithms.expand_source_SCCs")


def run(ck: Check) -> None:
    gm = GrowthModel(ck.prog)
    e1(ck, gm)
    e2(ck)
    e3(ck)
    e4(ck)
    e5(ck)
    e6(ck)
    ck.floor("E6", 5)
    ck.floor("E1", 8)
    ck.floor("E2", 5)
    ck.floor("E3", 9)
    ck.floor("E4", 3)
    ck.floor("E5", 2)


# ------------------------------------------------------------------------------------------ E6
# Handlers that catch RuntimeError (the error type of every limit and solver failure) without raising again. Each was read:
# the failure is turned into the answer that claims nothing ("unknown", "keep the candidate", "try the next name").
# key: function -> (calls that may stand in the guarded block, what the handler does with the failure)
ABSORBING_HANDLERS = {
    "compute_attractor_candidates": ({"pint_reachability"}, "pint could not decide: the candidate is kept"),
    "expand_source_blocks": ({"node_attractor_seeds", "node_attractor_candidates", "root", "len"},
                             "a failed candidate search means 'not known to be clean' (E4)"),
    "_has_no_attractor_candidates": ({"node_attractor_candidates", "len"}, "a failed candidate search means 'unknown' (E4)"),
    "sanitize_network_names": ({"set_variable_name"}, "a name clash: the next candidate name is tried"),
}


def _covers_runtime_error(h: ast.ExceptHandler) -> bool:
    if h.type is None:
        return True
    ts = h.type.elts if isinstance(h.type, ast.Tuple) else [h.type]
    return any(text(t).split(".")[-1] in ("RuntimeError", "Exception", "BaseException") for t in ts)


def _always_raises(body: list[ast.stmt]) -> bool:
    if not body:
        return False
    last = body[-1]
    if isinstance(last, ast.Raise):
        return True
    if isinstance(last, ast.If) and last.orelse:
        return _always_raises(last.body) and _always_raises(last.orelse)
    return False


def e6(ck: Check) -> None:
    """A limit or solver failure reaches the caller: no handler absorbs a RuntimeError, except the reviewed ones that
    turn it into an answer which claims nothing. An absorbed failure lets the operation report success with nodes
    unexpanded, lists truncated or attractors missing."""
    prog = ck.prog
    for fm in prog.models():
        f = fm.f
        for t in own_walk(f.node):
            if not isinstance(t, ast.Try):
                continue
            for h in t.handlers:
                if not _covers_runtime_error(h):
                    continue
                calls = {callee_name(c) for st in t.body for c in ast.walk(st) if isinstance(c, ast.Call)} - {None, "print", "cast"}
                if _always_raises(h.body):
                    ck.ob("E6", fm, h, True, "the failure is raised again on every path of the handler",
                          key=f"handler in {f.qualname} re-raises")
                    continue
                # re-raise unless a fallback was asked for: the fallback computes the same answer another way
                if f.qualname == "SuccessionDiagram.node_attractor_seeds" and any(isinstance(y, ast.Raise) for st in h.body for y in ast.walk(st)):
                    pcs = [fm.pc(fm.cfgn(y)) for st in h.body for y in ast.walk(st) if isinstance(y, ast.Raise)]
                    fb = any(isinstance(c, ast.Call) and callee_name(c) == "symbolic_attractor_fallback" for st in h.body for c in ast.walk(st))
                    ok = fb and any(logic.atoms(p_) for p_ in pcs)
                    ck.ob("E6", fm, h, ok, "raised again unless the symbolic fallback was requested, which recomputes the answer" if ok else
                          "the candidate-limit failure of the seed computation is absorbed without the symbolic fallback",
                          key=f"handler in {f.qualname}")
                    continue
                allowed = ABSORBING_HANDLERS.get(f.name)
                if allowed is not None and calls <= allowed[0]:
                    ck.ob("E6", fm, h, True, f"reviewed: {allowed[1]}", key=f"handler in {f.qualname}")
                    continue
                # the reviewed "failed candidate search = unknown" handler, wherever its helper was moved or inlined: only the
                # candidate search is guarded, and the handler does nothing but answer False / None
                CS = {"node_attractor_seeds", "node_attractor_candidates", "root", "len"}

                def says_unknown(body) -> bool:
                    for st_ in body:
                        if isinstance(st_, ast.Pass):
                            continue
                        if isinstance(st_, ast.Return) and (st_.value is None or is_false(st_.value) or is_none(st_.value)):
                            continue
                        if isinstance(st_, ast.Assign) and len(st_.targets) == 1 and isinstance(st_.targets[0], ast.Name) \
                                and (is_false(st_.value) or is_none(st_.value)):
                            continue
                        return False
                    return True
                if calls and calls <= CS and calls & {"node_attractor_seeds", "node_attractor_candidates"} and says_unknown(h.body):
                    ck.ob("E6", fm, h, True, "reviewed: a failed candidate search means 'unknown' (E4 decides what may follow)",
                          key=f"handler in {f.qualname}")
                    continue
                ck.ob("E6", fm, h, False,
                      f"a RuntimeError from `{', '.join(sorted(c for c in calls if c))[:80]}` is absorbed here: limit and solver "
                      f"failures must reach the caller (the operation would go on and report success with a node left unexpanded, "
                      f"a truncated list or missing attractors)", key=f"handler in {f.qualname} around {sorted(calls)[:3]}")


# ------------------------------------------------------------------------------------------ solver layer
def solver_layer(prog) -> set[str]:
    """Functions from which a failure of the ASP solver can escape (calls under a handler that catches
    RuntimeError do not propagate)."""
    layer = set()
    for f in prog.repo.funcs():
        for c, t in prog.repo.calls(f):
            if t in ("ext:clingo.Control",):
                layer.add(f.key)
    changed = True
    while changed:
        changed = False
        for f in prog.repo.funcs():
            if f.key in layer:
                continue
            for c, t in prog.repo.calls(f):
                if t in layer and not prog._caught(f, c, "RuntimeError"):
                    layer.add(f.key)
                    changed = True
                    break
            else:
                for k, g in prog.repo.functions.items():
                    if g.parent is f and k in layer:
                        layer.add(f.key)
                        changed = True
                        break
    return layer


def _window_problems(ck: Check, fm: FuncModel, window: set[int], layer: set[str]) -> list[str]:
    prog = ck.prog
    f = fm.f
    problems = []
    for i in sorted(window):
        n = fm.cfg.nodes[i]
        if n.kind not in ("stmt", "test", "for") or n.ast is None:
            continue
        roots = [n.ast] if n.kind != "for" else [n.ast.iter]
        if n.kind == "stmt" and isinstance(n.ast, ast.With):
            roots = [it.context_expr for it in n.ast.items]
        if n.kind == "stmt" and isinstance(n.ast, ast.Raise):
            cls = prog._raised_class(f, n.ast)
            if cls == "RuntimeError" and not prog._caught(f, n.ast, "RuntimeError"):
                problems.append(f"line {n.lineno}: `raise {cls}` inside the window")
            continue
        if n.kind == "stmt" and isinstance(n.ast, (ast.FunctionDef, ast.ClassDef)):
            continue
        for r in roots:
            for c in ast.walk(r):
                if not isinstance(c, ast.Call):
                    continue
                if prog._caught(f, c, "RuntimeError"):
                    continue
                why = prog.call_may_raise(f, c, "RuntimeError")
                if why:
                    problems.append(f"line {c.lineno}: `{text(c)[:70]}` may raise RuntimeError ({why})")
                    continue
                tgt = prog.repo.resolve_call(f, c)
                if tgt in layer and _solver_feasible(prog, tgt, c):
                    problems.append(f"line {c.lineno}: `{text(c)[:70]}` reaches the ASP solver (a solver failure "
                                    f"would leave the batch half-done)")
    return problems


def _solver_feasible(prog, tgt: str, call: ast.Call) -> bool:
    """A call of an accessor with compute=False (default) does not compute anything."""
    callee = prog.repo.functions[tgt]
    d = callee.param_defaults()
    if "compute" in callee.params():
        params = [p for p in callee.params() if p != "self"]
        v = call_arg(call, params.index("compute"), "compute") or d.get("compute")
        if is_false(v):
            return False
    return True


def e1(ck: Check, gm: GrowthModel) -> None:
    layer = solver_layer(ck.prog)
    ck.note(f"solver layer: {len(layer)} functions reach clingo.Control")
    for fm in ck.prog.models():
        if fm.f.key in gm.wrappers:
            continue
        evs = gm.events(fm)
        if not evs:
            continue
        unresolved = False
        for g in evs:
            hk = (fm.vkey(g.diag_expr, g.cfgn), fm.vkey(g.parent_expr, g.cfgn))
            marks = [e for e in handle_stores(fm, hk, "expanded") if is_true(e.value)]
            if not any(e.kind == "store" and e.hk == hk for e in fm.field_events()):
                unresolved = True
                continue
            loop = region_of(fm, g.cfgn, [g.diag_expr, g.parent_expr])
            stops = {fm.cfg.exit.id, fm.cfg.raise_exit.id}
            if loop is not None:
                stops.add(fm.cfg.loop_header[loop].id)
            window = reach_stop(fm, g.cfgn, {m.cfgn.id for m in marks}, stops) - {m.cfgn.id for m in marks}
            problems = _window_problems(ck, fm, window, layer)
            ck.ob("E1", fm, g.stmt, not problems,
                  "; ".join(problems[:3]) if problems else
                  f"no escaping failure between the edge creation on `{text(g.parent_expr)}` and its finalisation")
        if unresolved:
            fresh = fresh_diagrams(fm)
            firsts = [e for e in fm.field_events() if e.kind == "store" and e.field == "expanded"
                      and is_true(e.value) and e.diag not in fresh]
            for e in firsts:
                window = reach_stop(fm, e.cfgn, set(), {fm.cfg.exit.id, fm.cfg.raise_exit.id})
                problems = _window_problems(ck, fm, window, layer)
                ck.ob("E1", fm, e.stmt, not problems,
                      ("node marked expanded before its edges are copied, then " + "; ".join(problems[:3])) if problems
                      else f"nothing can fail between marking `{e.nid}` and the end of the attachment")


# ------------------------------------------------------------------------------------------ E2
ALLOWED_BEFORE_RAISE = ("F:percolated_network", "F:percolated_petri_net", "F:percolated_nfvs")


def e2(ck: Check) -> None:
    prog = ck.prog
    for fm in prog.models():
        f = fm.f
        for n in own_walk(f.node):
            if not isinstance(n, ast.Raise):
                continue
            if prog._raised_class(f, n) != "RuntimeError" or prog._caught(f, n, "RuntimeError"):
                continue
            if n.exc is None or isinstance(n.exc, ast.Name):
                continue  # re-raise of a caught error: the callee's own raise is checked where it is
            if f.module.name.endswith(("petri_net_translation", "_pint_reachability")):
                continue  # input validation before any diagram exists
            rn = fm.cfgn(n)
            loops = fm.cfg.enclosing_loops(rn)
            # iteration region: the outermost loop whose body performs heap writes per element
            if loops:
                hdr = fm.cfg.loop_header[loops[0]]  # earlier iterations left complete batches (C04-T1)
                start = next(fm.cfg.nodes[s] for s in fm.cfg.g.successors(hdr.id)
                             if fm.cfg.nodes[s].kind == "branch" and fm.cfg.nodes[s].pol)
                before = reach_stop(fm, start, set(), {hdr.id, fm.cfg.exit.id}) & fm.cfg.can_reach_avoiding(rn, [hdr])
                before.add(start.id)
            else:
                before = fm.cfg.can_reach_avoiding(rn, [])
            bad = []
            for i in sorted(before):
                cn = fm.cfg.nodes[i]
                for w in fm.node_writes(cn):
                    if not (w.startswith("F:") or w.startswith("*")):
                        continue
                    base = w.partition("@")[0]
                    if base in ALLOWED_BEFORE_RAISE:
                        continue
                    if base in ("F:attractor_seeds", "F:attractor_sets", "F:attractor_candidates") and \
                            _is_reset_store(cn):
                        continue
                    bad.append(f"line {cn.lineno}: writes {base}")
            ck.ob("E2", fm, n, not bad,
                  ("diagram state is modified before the limit error is raised: " + "; ".join(sorted(set(bad))[:4])) if bad
                  else "limit error raised before any irreversible change of the diagram")


def _is_reset_store(cn) -> bool:
    a = cn.ast
    return cn.kind == "stmt" and isinstance(a, ast.Assign) and is_none(a.value)


# ------------------------------------------------------------------------------------------ E3
def _limit_params(fm: FuncModel) -> list[str]:
    return [p for p in fm.f.params() if p.endswith("_limit")]


def e3(ck: Check) -> None:
    prog = ck.prog
    for mod in DRIVER_MODULES:
        m = prog.repo.module(mod)
        for f in prog.repo.funcs():
            if f.module is not m or f.parent is not None:
                continue
            fm = prog.model(f)
            limits = _limit_params(fm)
            if not limits and "expander" not in f.params():
                continue
            sd_param = f.params()[0]
            flag_returns = []
            counter_returns = []      # `return abandoned == 0`
            for n in own_walk(f.node):
                if isinstance(n, ast.Return):
                    rn = fm.cfgn(n)
                    hits = _limit_hits(fm, rn, limits)
                    if hits:
                        probs = []
                        if not is_false(n.value):
                            probs.append(f"returns `{text(n.value) if n.value else None}` although the "
                                         f"{'/'.join(sorted(hits))} was hit")
                        if any(h == "size_limit" for h in hits):
                            # the node about to be processed must be known unexpanded
                            pc = fm.pc(rn)
                            exp_atoms = [a for a in logic.atoms(pc) if a[0] == "b" and a[1].startswith("T:FIELD<")
                                         and a[1].endswith("|expanded>")]
                            ok = any(logic.implies(pc, logic.Not(("atom", a))) for a in exp_atoms)
                            if not ok:
                                probs.append("size limit reported although the node about to be processed may "
                                             "already be expanded (no unexpanded node is known to remain)")
                        ck.ob("E3", fm, n, not probs, "; ".join(probs) if probs else
                              f"limit return: False, with the pending node known unexpanded")
                    elif isinstance(n.value, ast.Name):
                        flag_returns.append(n)
                    elif isinstance(n.value, ast.Compare) and len(n.value.ops) == 1 and isinstance(n.value.ops[0], ast.Eq) \
                            and isinstance(n.value.left, ast.Name) and isinstance(n.value.comparators[0], ast.Constant) \
                            and n.value.comparators[0].value == 0:
                        counter_returns.append(n)
            # a limit folded into a loop condition: the false edge of `while work and len(sd) < size_limit` is a limit exit
            # as well as the exhausted one; a completion result behind it needs a test of its own
            for w in own_walk(f.node):
                if not (isinstance(w, ast.While) and _mentions_limit(w.test, limits)):
                    continue
                hdr_w = fm.cfg.loop_header[w]
                exits = [fm.cfg.nodes[s_] for s_ in fm.cfg.g.successors(hdr_w.id)
                         if fm.cfg.nodes[s_].kind == "branch" and not fm.cfg.nodes[s_].pol]
                after = set()
                for b_ in exits:
                    after |= fm.cfg.reach_avoiding(b_, [hdr_w]) | {b_.id}
                for r in own_walk(f.node):
                    if isinstance(r, ast.Return) and not is_false(r.value) and fm.cfgn(r).id in after \
                            and fm.cfgn(r).id not in fm.cfg.loop_nodes[w]:
                        again = any((not pol_) and _mentions_limit(t_, limits) and b2.id not in {x.id for x in exits}
                                    for t_, pol_, b2 in fm.facts(fm.cfgn(r)))
                        ck.ob("E3", fm, r, again,
                              "completion result behind a loop that also stops on a limit is guarded by a test of that limit" if again else
                              f"line {w.lineno}: the loop condition `{text(w.test)[:70]}` also ends the loop when the "
                              f"{'/'.join(sorted(_mentions_limit(w.test, limits)))} is reached, and `{text(r)[:30]}` follows without "
                              f"telling the two exits apart: a truncated expansion reports completion", key=f"limit in loop condition, line {w.lineno}")
            # abandoned work must be *recorded*: a result that is recomputed from the state of the diagram at the end
            # (`return all(expanded ...)`) cannot see what an abandoned, already expanded node hides below it
            if not flag_returns and not counter_returns:
                for n in own_walk(f.node):
                    if isinstance(n, ast.Continue):
                        cn = fm.cfgn(n)
                        hits = _limit_hits(fm, cn, limits)
                        if not hits:
                            continue
                        later = [r for r in own_walk(f.node) if isinstance(r, ast.Return) and not is_false(r.value)
                                 and fm.cfgn(r).id in fm.cfg.reach_avoiding(cn, [])]
                        ck.ob("E3", fm, n, not later, f"abandoning successors under {'/'.join(sorted(hits))} is followed by `return False` only"
                              if not later else
                              f"successors are abandoned under the {'/'.join(sorted(hits))}, but the result `{text(later[0].value)[:60]}` is not a "
                              f"flag or counter that this path lowers: it is computed from the diagram afterwards, and an abandoned node that "
                              f"an earlier call already expanded hides its unexpanded descendants from such a test")
            # the same with a counter of abandoned work: every abandon path must add a positive constant
            for r in counter_returns:
                cnt = r.value.left.id
                for n in own_walk(f.node):
                    if isinstance(n, ast.Continue):
                        cn = fm.cfgn(n)
                        hits = _limit_hits(fm, cn, limits)
                        if not hits:
                            continue
                        loop = fm.cfg.enclosing_loops(cn)[0]
                        hdr = fm.cfg.loop_header[loop]
                        incs = [c for c in fm.cfg.nodes if c.kind == "stmt" and isinstance(c.ast, ast.AugAssign)
                                and isinstance(c.ast.op, ast.Add) and text(c.ast.target) == cnt
                                and isinstance(c.ast.value, ast.Constant) and isinstance(c.ast.value.value, int) and c.ast.value.value > 0]
                        hitb = _limit_hit_branches(fm, cn, limits)
                        ok = bool(incs) and all(cn.id not in reach_stop(fm, b, {c.id for c in incs}, {hdr.id}) for b in hitb)
                        ck.ob("E3", fm, n, ok, f"abandoning successors under {'/'.join(sorted(hits))} counts in `{cnt}`" if ok else
                              f"successors are abandoned under the {'/'.join(sorted(hits))}, but `{cnt}` (returned as `{text(r.value)}`) "
                              f"is not raised by a positive constant on that path (an amount that is computed -- e.g. the number of "
                              f"abandoned nodes that are unexpanded -- can be zero although unvisited descendants remain)")
            # abandon paths (continue under a limit) must clear the returned flag
            for r in flag_returns:
                flag = r.value.id
                for n in own_walk(f.node):
                    if isinstance(n, ast.Continue):
                        cn = fm.cfgn(n)
                        hits = _limit_hits(fm, cn, limits)
                        if not hits:
                            continue
                        loop = fm.cfg.enclosing_loops(cn)[0]
                        hdr = fm.cfg.loop_header[loop]
                        start = next(fm.cfg.nodes[s] for s in fm.cfg.g.successors(hdr.id)
                                     if fm.cfg.nodes[s].kind == "branch" and fm.cfg.nodes[s].pol)
                        clears = [c for c in fm.cfg.nodes if c.kind == "stmt" and isinstance(c.ast, ast.Assign)
                                  and len(c.ast.targets) == 1 and isinstance(c.ast.targets[0], ast.Name)
                                  and c.ast.targets[0].id == flag and is_false(c.ast.value)]
                        # limit-hit branch -> continue must pass a clear
                        hitb = _limit_hit_branches(fm, cn, limits)
                        ok = bool(clears) and all(
                            cn.id not in reach_stop(fm, b, {c.id for c in clears}, {hdr.id}) for b in hitb)
                        ck.ob("E3", fm, n, ok, f"abandoning successors under {'/'.join(sorted(hits))} clears `{flag}`"
                              if ok else f"successors are abandoned under the {'/'.join(sorted(hits))} but the "
                                         f"returned flag `{flag}` stays True")
                sets_true = [c for c in fm.cfg.nodes if c.kind == "stmt" and isinstance(c.ast, ast.Assign)
                             and len(c.ast.targets) == 1 and isinstance(c.ast.targets[0], ast.Name)
                             and c.ast.targets[0].id == flag and is_true(c.ast.value)]
                ok = all(not fm.cfg.enclosing_loops(c) for c in sets_true)
                ck.ob("E3", fm, r, ok, f"`{flag}` is only lowered inside the loop" if ok else
                      f"`{flag}` is set back to True inside the loop: an earlier abandon is forgotten")
            # nested expander result
            for n in own_walk(f.node):
                if isinstance(n, ast.Call) and isinstance(n.func, ast.Name) and n.func.id == "expander":
                    st = f.stmt_of(n)
                    probs = []
                    if not (isinstance(st, ast.Assign) and isinstance(st.targets[0], ast.Name)):
                        probs.append("result of the nested expander is ignored")
                    else:
                        v = st.targets[0].id
                        rets = [r for r in own_walk(f.node) if isinstance(r, ast.Return) and is_false(r.value)
                                and logic.implies(fm.pc(fm.cfgn(r)), logic.Not(logic.B("T:" + v)))
                                and ("T", v) and logic.B("T:" + v)[1] in logic.atoms(fm.pc(fm.cfgn(r)))]
                        if not rets:
                            probs.append(f"an incomplete nested expansion (`{v}` false) does not make the driver return False")
                        gm = GrowthModel(prog)
                        for c2 in own_walk(f.node):
                            if isinstance(c2, ast.Call) and callee_name(c2) == "attach_scc_subdiagram":
                                pc = fm.pc(fm.cfgn(c2))
                                if not logic.implies(pc, logic.B("T:" + v)):
                                    probs.append(f"line {c2.lineno}: a sub-diagram is attached without knowing that "
                                                 f"its expansion completed")
                    ck.ob("E3", fm, st, not probs, "; ".join(probs) if probs else
                          "nested expansion result tested before anything is attached")


def _mentions_limit(test: ast.AST, limits: list[str]) -> set[str]:
    out = set()
    for n in ast.walk(test):
        if isinstance(n, ast.Compare) and not all(isinstance(o, (ast.Is, ast.IsNot)) for o in n.ops):
            for x in ast.walk(n):
                if isinstance(x, ast.Name) and x.id in limits:
                    out.add(x.id)
    return out


def _limit_hit_branches(fm: FuncModel, cn, limits: list[str]):
    out = []
    for test, pol, b in fm.facts(cn):
        if pol and _mentions_limit(test, limits):
            out.append(b)
    return out


def _limit_hits(fm: FuncModel, cn, limits: list[str]) -> set[str]:
    hits: set[str] = set()
    for test, pol, b in fm.facts(cn):
        if pol:
            hits |= _mentions_limit(test, limits)
    return hits


# ------------------------------------------------------------------------------------------ E4
_NOT_NONE: set[str] = set()       # names that the guard being examined also tests with `is not None`


def _list_is_a_result(fm: FuncModel, x: ast.AST | None, at) -> list[str]:
    """The list whose emptiness is the evidence must be the result of a search on every path: a default (`[]`, None)
    that survives a failed search (an exception that was caught) would count as 'no attractor here'."""
    if not isinstance(x, ast.Name):
        return []
    out = []
    for d in fm.cfg.reaching_defs(x.id, at):
        a = d.ast if d.kind == "stmt" else None
        v = a.value if isinstance(a, (ast.Assign, ast.AnnAssign)) else None
        if d.kind == "entry" or isinstance(v, ast.Call) or (isinstance(a, ast.Assign) and isinstance(a.targets[0], ast.Tuple)):
            continue
        if v is not None and is_none(v) and x.id in _NOT_NONE:
            continue        # `x is not None and len(x) == 0`: the None left by a failed search is excluded by the guard itself
        if v is not None and (is_empty_list(v) or is_none(v)):
            out.append(f"line {d.lineno}: `{x.id}` can still hold its default `{text(v)}` where its emptiness is tested (e.g. after "
                       f"a failed search whose exception was caught): a failure would count as 'no attractor'")
    return out


def guard_value_ok(fm: FuncModel, e: ast.AST, at, prog, depth=0) -> list[str]:
    """`e` guards an empty-list mark: it must be an emptiness test of a candidate/seed list or False."""
    if depth > 4:
        return ["guard too indirect"]
    if is_false(e):
        return []
    if isinstance(e, ast.Compare) and len(e.ops) == 1 and isinstance(e.ops[0], ast.Eq) and \
            isinstance(e.left, ast.Call) and callee_name(e.left) == "len" and \
            isinstance(e.comparators[0], ast.Constant) and e.comparators[0].value == 0:
        return _list_is_a_result(fm, e.left.args[0] if e.left.args else None, at)
    if isinstance(e, ast.UnaryOp) and isinstance(e.op, ast.Not) and not isinstance(e.operand, (ast.Constant,)):
        return _list_is_a_result(fm, e.operand, at)  # `not candidates`
    if isinstance(e, ast.BoolOp) and isinstance(e.op, ast.And):
        out: list[str] = []
        evidence = 0
        nn = {v.left.id for v in e.values if isinstance(v, ast.Compare) and len(v.ops) == 1 and isinstance(v.ops[0], ast.IsNot)
              and isinstance(v.left, ast.Name) and is_none(v.comparators[0])}
        added = nn - _NOT_NONE
        _NOT_NONE.update(added)
        try:
            for v in e.values:
                if isinstance(v, ast.Name) and v.id in fm.f.params():
                    continue  # configuration flag
                if isinstance(v, ast.Compare) and len(v.ops) == 1 and isinstance(v.ops[0], ast.IsNot) and isinstance(v.left, ast.Name) \
                        and v.left.id in nn:
                    continue  # "the search did not fail": says nothing by itself, and excludes the None of a failed search
                p = guard_value_ok(fm, v, at, prog, depth + 1)
                if p:
                    out += p
                else:
                    evidence += 1
        finally:
            _NOT_NONE.difference_update(added)
        if not out and not evidence:
            out.append("no conjunct is an emptiness test")
        return out
    if isinstance(e, ast.Name):
        out = []
        for d in fm.cfg.reaching_defs(e.id, at):
            a = d.ast
            if d.kind == "stmt" and isinstance(a, (ast.Assign, ast.AnnAssign)) and a.value is not None:
                out += [f"line {d.lineno}: {p}" for p in guard_value_ok(fm, a.value, d, prog, depth + 1)]
            elif d.kind == "entry":
                continue  # a parameter (e.g. check_maa): configuration, not evidence
            else:
                out.append(f"line {d.lineno}: bound by {type(a).__name__}")
        return out
    if isinstance(e, ast.Call):
        tgt = prog.repo.resolve_call(fm.f, e)
        if tgt and not tgt.startswith("ext:"):
            g = prog.model(prog.repo.functions[tgt])
            out = []
            for r in own_walk(g.f.node):
                if isinstance(r, ast.Return):
                    if r.value is None:
                        out.append(f"{g.f.qualname} line {r.lineno}: returns None")
                    else:
                        out += [f"{g.f.qualname} line {r.lineno}: {p}" for p in
                                guard_value_ok(g, r.value, g.cfgn(r), prog, depth + 1)]
            return out
    if is_true(e):
        return ["the guard is the constant True (absence of attractors assumed, not shown)"]
    return [f"`{text(e)[:50]}` is not an emptiness test"]


def e4(ck: Check) -> None:
    prog = ck.prog
    for fm in prog.models():
        if fm.f.module.name == SD_MOD:
            continue
        seen = set()
        for e in fm.field_events():
            if e.kind != "store" or e.field not in ("attractor_seeds", "attractor_sets") or not is_empty_list(e.value):
                continue
            facts = fm.facts(e.cfgn)
            for test, pol, b in facts:
                test, pol = strip_not(test, pol)
                if b.loop is not None:
                    continue
                tnode = fm.cfg.nodes[next(iter(fm.cfg.g.predecessors(b.id)))]
                if not pol:
                    # `if not xs:` / the else arm of `if xs:` -- emptiness by truth value, which None shares: a guard when
                    # xs holds the result of a search on some path
                    if isinstance(test, ast.Name) and test.id not in fm.f.params() and any(
                            d_.kind == "stmt" and isinstance(d_.ast, (ast.Assign, ast.AnnAssign)) and isinstance(d_.ast.value, ast.Call)
                            and callee_name(d_.ast.value) in ("node_attractor_candidates", "node_attractor_seeds", "compute_attractor_candidates")
                            for d_ in fm.cfg.reaching_defs(test.id, tnode)):
                        test = ast.copy_location(ast.UnaryOp(ast.Not(), test), test)
                    else:
                        continue
                # configuration flags (parameters) and structural tests are not evidence guards
                names = {n.id for n in ast.walk(test) if isinstance(n, ast.Name)}
                if _is_config_test(fm, test, tnode):
                    continue
                if (b.id, e.field) in seen:
                    continue
                seen.add((b.id, e.field))
                if e.field != "attractor_seeds":
                    continue
                probs = guard_value_ok(fm, test, tnode, prog)
                ck.ob("E4", fm, e.stmt, not probs,
                      ("'no attractor here' is recorded under a guard that can be true after a failed search: "
                       + "; ".join(probs[:3])) if probs else
                      f"empty mark guarded by `{text(test)[:60]}`: emptiness test or False on every definition")


def strip_not(test: ast.AST, pol: bool):
    """`not X` taken on its false edge is X taken on its true edge."""
    while isinstance(test, ast.UnaryOp) and isinstance(test.op, ast.Not):
        test, pol = test.operand, not pol
    return test, pol


def _is_config_test(fm: FuncModel, test: ast.AST, at) -> bool:
    """Tests over parameters only (check_maa, optimize flags) or over len(sources)."""
    params = set(fm.f.params())
    names = {n.id for n in ast.walk(test) if isinstance(n, ast.Name)} - {"len"}
    if names and names <= params:
        return True
    t = text(test)
    return "sources" in t or "size_limit" in t


# ------------------------------------------------------------------------------------------ E5
def e5(ck: Check) -> None:
    fm = ck.prog.fm(SD_MOD, "SuccessionDiagram._expand_one_node")
    f = fm.f
    loop = None
    for n in own_walk(f.node):
        if isinstance(n, ast.For) and any(isinstance(c, ast.Call) and callee_name(c) == "_ensure_node" for c in ast.walk(n)):
            loop = n
    if loop is None:
        raise AnalysisError("anchor vanished: ensure loop of _expand_one_node")
    hn = fm.cfg.loop_header[loop]
    # chain of length-preserving definitions from the iterated list back to the enumerations
    chain: set[tuple[str, int]] = set()
    sources: list[tuple[ast.Call, object]] = []

    def trace(e, at, depth=0):
        if depth > 8:
            return
        if isinstance(e, ast.Name):
            for d in fm.cfg.reaching_defs(e.id, at):
                a = d.ast
                if d.kind == "stmt" and isinstance(a, (ast.Assign, ast.AnnAssign)) and getattr(a, "value", None) is not None:
                    chain.add((e.id, d.id))
                    trace(a.value, d, depth + 1)
        elif isinstance(e, ast.Call) and callee_name(e) in ("sorted", "list") and e.args:
            trace(e.args[0], at, depth + 1)
        elif isinstance(e, ast.ListComp) and len(e.generators) == 1 and not e.generators[0].ifs:
            trace(e.generators[0].iter, at, depth + 1)
        elif isinstance(e, ast.Call) and callee_name(e) == "trappist":
            sources.append((e, at))

    trace(loop.iter, hn)
    if not sources:
        raise AnalysisError("anchor vanished: enumeration feeding the ensure loop")
    # a node that is marked expanded without the solver having been asked is a fixed point: its space fixes every variable
    after = set()
    for c, at in sources:
        after |= fm.cfg.reach_avoiding(fm.cfgn(c), [])
    node_p = [p_ for p_ in f.params() if p_ != "self"][0]
    for e_ in fm.field_events():
        if e_.kind == "store" and e_.field == "expanded" and is_true(e_.value) and e_.cfgn.id not in after:
            nv = "self.network.variable_count()"
            sk = f"FIELD<self|{node_p}|space>"
            pc = fm.pc(e_.cfgn, numeric={nv})
            want = logic.Eq(f"len({sk})", nv)
            try:
                ok = logic.implies(pc, want)
            except logic.TooBig:
                ok = False
            ck.ob("E5", fm, e_.stmt, ok, "marked expanded without enumeration only when every variable is fixed" if ok else
                  f"the node is marked expanded without asking the solver under `{logic.show(pc)[:100]}`, which does not say that "
                  f"its space fixes every variable: a node with free variables (free inputs included) has successors that are "
                  f"never created", key="expanded without enumeration")
    for c, at in sources:
        lim = next((k.value for k in c.keywords if k.arg == "solution_limit"), None)
        if lim is None:
            ck.ob("E5", fm, f.stmt_of(c), True, "unlimited enumeration: the list is complete")
            continue
        ltxt = text(lim)
        lcanon = text(fm.deref(lim, fm.cfgn(c)))     # the limit may be held in a local
        # the list must be known complete at the ensure loop and wherever the node is marked expanded after the enumeration
        marks = [e_.cfgn for e_ in fm.field_events() if e_.kind == "store" and e_.field == "expanded" and is_true(e_.value)
                 and e_.cfgn.id in fm.cfg.reach_avoiding(at if hasattr(at, "id") else fm.cfgn(c), [])
                 and hn.id not in {d_.id for d_ in fm.cfg.dominators(e_.cfgn)}
                 # (a mark shared with other arms -- single exit -- that this enumeration only reaches through the ensure
                 # loop is covered by the obligation at the loop)
                 and e_.cfgn.id in fm.cfg.reach_avoiding(at if hasattr(at, "id") else fm.cfgn(c), [hn])]
        for point in [hn] + marks:
            _e5_at(ck, fm, f, c, point, point is hn, chain, ltxt, lcanon)


def _e5_at(ck, fm, f, c, hn, is_loop, chain, ltxt, lcanon) -> None:
    if True:
        facts = []
        for d in fm.cfg.dominators(hn):
            if d.kind != "branch" or d.test is None:
                continue
            tnode = fm.cfg.nodes[next(iter(fm.cfg.g.predecessors(d.id)))]

            def atomize(e, tnode=tnode):
                return None

            # rewrite len(v) for v in chain (with the right reaching definition) to len(R); limit text to L
            class RW(ast.NodeTransformer):
                def visit_Call(self, n):
                    if callee_name(n) == "len" and n.args and isinstance(n.args[0], ast.Name):
                        v = n.args[0].id
                        rd = {x.id for x in fm.cfg.reaching_defs(v, tnode)}
                        if any((v, i) in chain for i in rd) and all((v, i) in chain for i in rd):
                            return ast.Call(ast.Name("len", ast.Load()), [ast.Name("R", ast.Load())], [])
                    return self.generic_visit(n)

                def generic_visit(self, n):
                    if isinstance(n, ast.expr) and (text(n) in (ltxt, lcanon) or (
                            isinstance(n, ast.Name) and text(fm.deref(n, tnode)) == lcanon)):
                        return ast.Name("L", ast.Load())
                    return super().generic_visit(n)

            import copy
            t2 = RW().visit(copy.deepcopy(d.test))
            if "len(R)" not in text(t2):
                continue
            tr = logic.Translator(lambda e: text(e), numeric={"L"})
            fml = tr.f(t2)
            facts.append(fml if d.pol else logic.Not(fml))
        contract = logic.And(logic.Le("len(R)", "L"), logic.Le("0", "L"))
        goal = logic.Lt("len(R)", "L")
        ok = logic.implies(logic.And(*facts, contract), goal)
        cex = None if ok else logic.counterexample(logic.Or(logic.Not(logic.And(*facts, contract)), goal))
        where = "the ensure loop" if is_loop else f"the `expanded = True` of line {hn.lineno}"
        ck.ob("E5", fm, f.stmt_of(c) if is_loop else hn.ast, ok,
              f"len(result) < {ltxt} at {where} (from {len(facts)} dominating test(s) + solver contract)" if ok
              else f"a result list truncated at solution_limit={ltxt} can reach {where} and the node is then "
                   f"marked expanded with missing successors (ordering that is not excluded: {cex})",
              key=None if is_loop else f"complete at the mark under {text(hn.ast)[:30]} #{sorted(x.id for x in fm.cfg.dominators(hn) if x.kind == 'branch')[-1:] }")
