"""C09 -- the trap-space solver returns exactly the requested trap spaces (encoder/decoder agreement, limit contract)."""

from __future__ import annotations

import ast
import copy
import re

from .. import logic
from ..program import FuncModel, call_arg
from ..report import Check
from ..repo import AnalysisError, dotted, own_walk, text
from .common import callee_name, is_empty_list, is_false, is_none, is_true, reach_stop

TRAP = "biobalm.trappist_core"
PN = "biobalm.petri_net_translation"

EXPLANATION = (
    "(T1) polarity tables: the place-name codec (variable_to_place / place_to_variable) is evaluated over "
    "{True, False} and must be a bijection with matching prefix lengths; in the trap-space family (ensure_subspace, "
    "avoid_subspaces, model decoder) every site must map value v to the place polarity `v == 0`, in the fixed-point "
    "family (ensure, avoid, decoder, retained-set source place) to `v == 1` -- each polarity expression is evaluated "
    "for v in {0, 1} by an interpreter of the few statement forms involved; the retained-set reduction deletes "
    "exactly the transitions that consume the retained place without producing it. (T2) the siphon (forward) and "
    "trap (reversed) rule generators are mirror images under predecessors<->successors. (T3) limit contract: the "
    "result callback appends and continues iff len(results) < limit, a limit <= 0 returns before the enumeration, and "
    "the enumeration loops stop when the callback says so: len(result) <= max(limit, 0). (T4) clause bookkeeping: "
    "every ctl.add in the two encoders is recognised as one of the clause kinds of the encoding and is emitted under "
    "exactly its condition (totality only for 'fix', non-triviality and source clauses only for 'max' with free "
    "places, free places = places of variables outside ensure_subspace, one rule per (transition, non-tautological "
    "place) with no further filtering, avoid clauses over all literals of the avoided space, #false for the empty one). "
    "(T5) the request reaches the encoder unchanged (parameters handed down, defaults neutral); (T6) no state survives a "
    "call (fresh Control, no memo). (T7) in the two callback entry points every path from the entry to a normal return "
    "passes the encoder call and the solve call, and the request is not handed to another solver entry point."
)
ASSUMPTIONS = [
    "the logic programs have the intended models (siphon/trap characterisation of trap spaces; clingo is correct)",
    "domain-heuristic options make clingo enumerate subset-minimal / maximal models",
]


def run(ck: Check) -> None:
    t1(ck)
    t2(ck)
    t3(ck)
    t4(ck)
    t5(ck)
    t6(ck)
    t7(ck)
    ck.floor("T7", 2)
    ck.floor("T6", 2)
    ck.floor("T5", 14)
    ck.floor("T1", 9)
    ck.floor("T2", 1)
    ck.floor("T3", 4)
    ck.floor("T4", 14)


# ------------------------------------------------------------------------------------------ tiny evaluator
class Unknown(Exception):
    pass


def ev(e: ast.AST, env: dict):
    """Evaluate a polarity expression over constants (no calls into the analysed code)."""
    if isinstance(e, ast.Constant):
        return e.value
    if isinstance(e, ast.Name):
        if e.id in env:
            return env[e.id]
        raise Unknown(e.id)
    if isinstance(e, ast.Subscript):
        k = text(e)
        if k in env:
            return env[k]
        raise Unknown(k)
    if isinstance(e, ast.UnaryOp) and isinstance(e.op, ast.Not):
        return not ev(e.operand, env)
    if isinstance(e, ast.BoolOp):
        vals = [ev(v, env) for v in e.values]
        return all(vals) if isinstance(e.op, ast.And) else any(vals)
    if isinstance(e, ast.Compare) and len(e.ops) == 1:
        a, b = ev(e.left, env), ev(e.comparators[0], env)
        op = e.ops[0]
        if isinstance(op, ast.Eq):
            return a == b
        if isinstance(op, ast.NotEq):
            return a != b
        if isinstance(op, ast.Is):
            return a is b
        if isinstance(op, ast.IsNot):
            return a is not b
    if isinstance(e, ast.IfExp):
        return ev(e.body, env) if ev(e.test, env) else ev(e.orelse, env)
    if isinstance(e, ast.Call) and isinstance(e.func, ast.Name) and e.func.id in ("bool", "int") and len(e.args) == 1:
        v = ev(e.args[0], env)
        return bool(v) if e.func.id == "bool" else int(v)
    if isinstance(e, ast.BinOp) and isinstance(e.op, ast.Sub):
        return ev(e.left, env) - ev(e.right, env)
    raise Unknown(text(e))


def run_stmts(stmts: list[ast.stmt], env: dict) -> None:
    for s in stmts:
        if isinstance(s, ast.Assign) and len(s.targets) == 1 and isinstance(s.targets[0], ast.Name):
            try:
                env[s.targets[0].id] = ev(s.value, env)
            except Unknown:
                env.pop(s.targets[0].id, None)
        elif isinstance(s, ast.If):
            try:
                t = ev(s.test, env)
            except Unknown:
                continue
            run_stmts(s.body if t else s.orelse, env)


def polarity_table(fm: FuncModel, call: ast.Call, value_expr_key: str, pre: list[ast.stmt]) -> dict | None:
    """{v: polarity} for v in {0,1} of the `positive` argument of a variable_to_place call."""
    pos = call_arg(call, 1, "positive")
    if pos is None:
        return None
    out = {}
    for v in (0, 1):
        env = {value_expr_key: v}
        run_stmts(pre, env)
        try:
            out[v] = bool(ev(pos, env))
        except Unknown:
            return None
    return out


# ------------------------------------------------------------------------------------------ T1
def t1(ck: Check) -> None:
    prog = ck.prog
    # codec
    v2p = prog.fm(PN, "variable_to_place")
    p2v = prog.fm(PN, "place_to_variable")
    enc = {}
    probs = []
    for r in own_walk(v2p.f.node):
        if isinstance(r, ast.Return) and isinstance(r.value, ast.JoinedStr):
            pc = v2p.pc(v2p.cfgn(r))
            prefix = "".join(x.value for x in r.value.values if isinstance(x, ast.Constant))
            at = logic.B("T:positive")
            if logic.implies(pc, at):
                enc[True] = prefix
            elif logic.implies(pc, logic.Not(at)):
                enc[False] = prefix
            tail = [x for x in r.value.values if isinstance(x, ast.FormattedValue)]
            if len(tail) != 1 or text(tail[0].value) != "variable" or not isinstance(r.value.values[-1], ast.FormattedValue):
                probs.append("place name is not <prefix><variable>")
    dec = {}
    for r in own_walk(p2v.f.node):
        if isinstance(r, ast.Return) and isinstance(r.value, ast.Tuple):
            t = p2v.facts(p2v.cfgn(r))
            pre = None
            pname = p2v.f.params()[0]
            for test, pol, b in t:
                if pol and isinstance(test, ast.Call) and callee_name(test) == "startswith":
                    pre = test.args[0].value
                # `place[:3] == "b1_"` (the slice possibly held in a local) says the same as place.startswith("b1_")
                if pol and isinstance(test, ast.Compare) and len(test.ops) == 1 and isinstance(test.ops[0], ast.Eq) \
                        and isinstance(test.comparators[0], ast.Constant) and isinstance(test.comparators[0].value, str):
                    tn_ = p2v.cfg.nodes[next(iter(p2v.cfg.g.predecessors(b.id)))]
                    lhs = p2v.deref(test.left, tn_) if isinstance(test.left, ast.Name) else test.left
                    k_ = test.comparators[0].value
                    if isinstance(lhs, ast.Subscript) and text(lhs.value) == pname and isinstance(lhs.slice, ast.Slice) and lhs.slice.lower is None \
                            and isinstance(lhs.slice.upper, ast.Constant) and lhs.slice.upper.value == len(k_):
                        pre = k_
            sl = r.value.elts[0]
            if isinstance(sl, ast.Name):
                sl = p2v.deref(sl, p2v.cfgn(r))       # the stripped name held in a local
            if pre is None or not (isinstance(sl, ast.Subscript) and isinstance(sl.slice, ast.Slice)
                                   and isinstance(sl.slice.lower, ast.Constant) and sl.slice.lower.value == len(pre)):
                probs.append(f"decoder strips {text(sl)} for prefix {pre!r}")
            else:
                dec[pre] = r.value.elts[1].value if isinstance(r.value.elts[1], ast.Constant) else None
    if set(enc) != {True, False} or len(set(enc.values())) != 2:
        probs.append(f"encoder prefixes {enc}")
    elif {v: k for k, v in enc.items()} != dec:
        probs.append(f"place codec is not a bijection: encoder {enc}, decoder {dec}")
    else:
        for p in enc.values():
            if not re.match(r"^[a-z][a-z0-9_]*$", p):
                probs.append(f"prefix {p!r} does not start with a lower-case letter (clingo constants must)")
        if enc[True].startswith(enc[False]) or enc[False].startswith(enc[True]):
            probs.append("one prefix is a prefix of the other")
    ck.ob("T1", v2p, v2p.f.node, not probs, "; ".join(probs) if probs else f"place codec bijective: {enc}", key="place codec")

    def sites(fm: FuncModel, want: dict, family: str):
        f = fm.f
        for c in own_walk(f.node):
            if not (isinstance(c, ast.Call) and callee_name(c) == "variable_to_place"):
                continue
            pos = call_arg(c, 1, "positive")
            if isinstance(pos, ast.Constant):
                continue  # declaration of both places
            # the value expression this polarity is computed from
            stmt = f.stmt_of(c)
            loop = next((a for a in f.ancestors(c) if isinstance(a, (ast.For, ast.ListComp))), None)
            value_keys = set()
            for x in ast.walk(pos) if pos is not None else []:
                if isinstance(x, ast.Subscript):
                    value_keys.add(text(x))
                if isinstance(x, ast.Name):
                    value_keys.add(x.id)
            pre: list[ast.stmt] = []
            tbl = None
            # statements of the enclosing loop body that precede the call (polarity computed by statements)
            if isinstance(loop, ast.For):
                pre = [s for s in loop.body if s.lineno < stmt.lineno]
                for s in ast.walk(loop):
                    if isinstance(s, ast.Subscript) and isinstance(s.ctx, ast.Load):
                        value_keys.add(text(s))
                if isinstance(loop.target, ast.Tuple):
                    for t in loop.target.elts:
                        value_keys.add(text(t))
            for vk in sorted(value_keys):
                t = polarity_table(fm, c, vk, pre)
                if t is not None and t[0] != t[1]:
                    tbl = t
                    break
                if t is not None and tbl is None:
                    tbl = t
            ok = tbl == want
            ck.ob("T1", fm, stmt, ok,
                  f"{family}: value v -> positive place iff v == {0 if want[0] else 1}" if ok else
                  f"{family}: this site maps value 0/1 to place polarity {tbl}, the rest of the {family} encoding uses {want}: "
                  f"the constraint is applied with the opposite value")

    cc = prog.fm(TRAP, "_create_clingo_constraints")
    sites(cc, {0: True, 1: False}, "trap-space encoding")
    fp = prog.fm(TRAP, "_create_clingo_fixed_point_constraints")
    sites(fp, {0: False, 1: True}, "fixed-point encoding")
    rs = prog.fm(TRAP, "compute_fixed_point_reduced_STG_async")
    sites(rs, {0: False, 1: True}, "fixed-point encoding (retained set)")
    # decoders: what is handed to the caller's callback is the model decoded with the polarity of the encoding
    from .. import peval
    for host, want, fam in (("trappist_async", {True: 0, False: 1}, "trap-space decoder"),
                            ("compute_fixed_point_reduced_STG_async", {True: 1, False: 0}, "fixed-point decoder")):
        hm = prog.fm(TRAP, host)
        cb = "on_solution" if "on_solution" in hm.f.params() else None
        calls = [c for c in own_walk(hm.f.node) if isinstance(c, ast.Call) and isinstance(c.func, ast.Name) and c.func.id == cb and c.args]
        if not calls:
            raise AnalysisError(f"anchor vanished: the callback of {host} is never called")
        for c in calls:
            cn = hm.cfgn(c)
            arg = hm.deref(c.args[0], cn)
            probs = []
            dec = prog.repo.resolve_call(hm.f, arg) if isinstance(arg, ast.Call) else None
            if not dec or dec not in prog.repo.functions:
                probs.append(f"the callback receives `{text(arg)[:50]}`, which is not a model decoded by a function of the package")
                ck.ob("T1", hm, hm.f.stmt_of(c), False, "; ".join(probs), key=f"decoder of {host}")
                continue
            df = prog.repo.functions[dec]
            env = {}
            for i, p_ in enumerate(df.params()):
                a_ = call_arg(arg, i, p_)
                if isinstance(a_, ast.Constant):
                    env[p_] = a_.value
                elif a_ is None and p_ in df.param_defaults() and isinstance(df.param_defaults()[p_], ast.Constant):
                    env[p_] = df.param_defaults()[p_].value
            node = peval.specialise(df.node, env) if env else df.node
            stores = [n for n in own_walk(node) if isinstance(n, ast.Assign) and isinstance(n.targets[0], ast.Subscript)]
            if not stores:
                probs.append("no value store")
            posname = "is_positive"
            for n_ in own_walk(node):
                if isinstance(n_, ast.Assign) and isinstance(n_.targets[0], ast.Tuple) and len(n_.targets[0].elts) == 2 \
                        and isinstance(n_.value, ast.Call) and callee_name(n_.value) == "place_to_variable":
                    posname = text(n_.targets[0].elts[1])
            # locals of the decoder that hold a constant under this call's arguments (`neg = 0 if pos == 1 else 1`)
            env = dict(env)
            one_def: dict[str, list] = {}
            for n_ in own_walk(node):
                if isinstance(n_, ast.Name) and isinstance(n_.ctx, ast.Store):
                    one_def.setdefault(n_.id, []).append(n_)
            for n_ in sorted((x for x in own_walk(node) if isinstance(x, ast.Assign) and len(x.targets) == 1
                              and isinstance(x.targets[0], ast.Name)), key=lambda x: x.lineno):
                if len(one_def.get(n_.targets[0].id, [])) == 1 and n_.targets[0].id not in env:
                    try:
                        env[n_.targets[0].id] = ev(n_.value, dict(env))
                    except Unknown:
                        pass
            for s_ in stores:
                tbl = {}
                for pol in (True, False):
                    try:
                        tbl[pol] = ev(s_.value, {posname: pol, **env})
                    except Unknown:
                        tbl = None
                        break
                if tbl != want:
                    probs.append(f"decodes positive/negative atoms to {tbl}, expected {want}")
            ck.ob("T1", hm, hm.f.stmt_of(c), not probs, "; ".join(probs) if probs else f"{fam}: {want}", key=f"decoder of {host}")
    # retained-set reduction deletes succs - preds of the retained place (read symbolically)
    from .symstr import SymEval
    f = rs.f
    pn_p, ret_p = f.params()[0], f.params()[1]
    se = SymEval(rs, pol_tables=True)
    probs = []
    R = ret_p
    SP = f"P(elem({R}),{{0:F,1:T}}@idx({R},elem({R})))"
    rem = [n for n in own_walk(f.node) if isinstance(n, ast.Call) and callee_name(n) in ("remove_node", "remove_nodes_from") and n.args]
    anchor = rem[0] if rem else f.node
    if not rem:
        probs.append("deleted transitions not computed")
    for c_ in rem:
        cn = rs.cfgn(c_)
        if se.val(c_.func.value, cn) != f"{pn_p}.copy()":
            probs.append("the reduction mutates the caller's Petri net")
        what = c_.args[0]
        if callee_name(c_) == "remove_node":
            lps = [l for l in rs.cfg.enclosing_loops(cn) if isinstance(l, ast.For) and text(l.target) == text(what)]
            col = se.collection(lps[0].iter, rs.cfg.loop_header[lps[0]]) if lps else None
        else:
            col = se.collection(what, cn)
        want_el = f"elem(succs({SP}))"
        want_c = logic.Not(logic.B(f"in:{want_el}|preds({SP})"))
        if not col or len(col) != 1:
            probs.append("the transitions to delete are not computed as one collection")
        else:
            el, cnd = col[0]
            # "does not give the token back" also as an edge test: has_edge(t, place) says that t is a predecessor of the place
            NET = se.val(c_.func.value, cn)
            alt_c = logic.Not(logic.B(f"T:{NET}.has_edge({want_el},{SP})"))
            same_c = False
            try:
                same_c = logic.equivalent(cnd, want_c) or logic.equivalent(cnd, alt_c)
            except logic.TooBig:
                pass
            if el != want_el or not same_c or logic.atoms(se.cond(cn, local=True)):
                probs.append(f"deleted transitions are `{el[:70]}` if `{logic.show(cnd)[:90]}`; expected consumers of the retained place "
                             f"that do not give the token back (successors of the place of the retained value minus its predecessors)")
    ck.ob("T1", rs, anchor, not probs, "; ".join(sorted(set(probs))) if probs else
          "retained variables lose exactly the transitions leaving the retained value", key="retained-set reduction")


# ------------------------------------------------------------------------------------------ T2
def t2(ck: Check) -> None:
    """The rule generators of the two time directions are mirror images: the clause templates of the encoder
    specialised to reverse_time=True are those of reverse_time=False with preds and succs exchanged."""
    fm = ck.prog.fm(TRAP, "_create_clingo_constraints")
    if "reverse_time" not in fm.f.params():
        raise AnalysisError("anchor vanished: reverse_time parameter of _create_clingo_constraints")
    fwd = {(t, logic.show(cnd)) for _, t, cnd, _ in _clauses(ck.prog, fm, {"problem": "min", "reverse_time": False})[0]}
    bwd = {(t, logic.show(cnd)) for _, t, cnd, _ in _clauses(ck.prog, fm, {"problem": "min", "reverse_time": True})[0]}

    def swap(x: str) -> str:
        return x.replace("preds(", "\x00(").replace("succs(", "preds(").replace("\x00(", "succs(")
    ok = {(swap(t), swap(c_)) for t, c_ in fwd} == bwd and fwd != bwd
    ck.ob("T2", fm, fm.f.node, ok, "siphon and trap rule generators are mirror images" if ok else
          "the forward (siphon) and the time-reversed (trap) rule generators differ by more than the swap "
          "predecessors<->successors (or do not differ at all): one time direction encodes a different problem",
          key="time reversal symmetry")


# ------------------------------------------------------------------------------------------ T3
def t3(ck: Check) -> None:
    prog = ck.prog
    for q, asyncq in (("trappist", "trappist_async"), ("compute_fixed_point_reduced_STG", "compute_fixed_point_reduced_STG_async")):
        fm = prog.fm(TRAP, q)
        f = fm.f
        cbs = [g for g in prog.repo.funcs() if g.parent is f]
        ren: dict[str, str] = {}
        if not cbs:
            # the callback may be built by a factory: on_solution=<factory>(results, solution_limit)
            for c0 in own_walk(f.node):
                if isinstance(c0, ast.Call) and callee_name(c0) == asyncq:
                    ap_ = prog.fm(TRAP, asyncq).f.params()
                    v0 = call_arg(c0, ap_.index("on_solution"), "on_solution") if "on_solution" in ap_ else None
                    if isinstance(v0, ast.Call):
                        tgt0 = prog.repo.resolve_call(f, v0)
                        g0 = prog.repo.functions.get(tgt0) if tgt0 else None
                        if g0 is not None:
                            inner0 = [h for h in prog.repo.funcs() if h.parent is g0]
                            rets0 = [r for r in own_walk(g0.node) if isinstance(r, ast.Return) and isinstance(r.value, ast.Name)]
                            if len(inner0) == 1 and rets0 and rets0[-1].value.id == inner0[0].name:
                                cbs = inner0
                                ren = {p_: text(a_) for p_, a_ in zip(g0.params(), v0.args)}
        probs = []
        if len(cbs) != 1:
            probs.append("result callback not found")
        else:
            cb = prog.model(cbs[0])
            # free variables of the callback that merely hold the limit (`x = solution_limit` once in the enclosing function)
            for a_ in own_walk(f.node):
                if isinstance(a_, ast.Assign) and len(a_.targets) == 1 and isinstance(a_.targets[0], ast.Name) \
                        and isinstance(a_.value, ast.Name) and a_.value.id == "solution_limit":
                    nm_ = a_.targets[0].id
                    if sum(1 for z in own_walk(f.node) if isinstance(z, ast.Name) and z.id == nm_ and isinstance(z.ctx, ast.Store)) == 1:
                        ren.setdefault(nm_, "solution_limit")
            app = [n for n in own_walk(cb.f.node) if isinstance(n, ast.Call) and isinstance(n.func, ast.Attribute) and n.func.attr == "append"]
            res = text(app[0].func.value) if app else None
            res = ren.get(res, res)
            rets = [r for r in own_walk(cb.f.node) if isinstance(r, ast.Return)]
            # the callback's answer, over all its returns: continue iff no limit or len(results) < limit

            def key0(e):
                t_ = text(e)
                if isinstance(e, ast.Call) and callee_name(e) == "len" and e.args:
                    return f"len({key0(e.args[0])})"
                return ren.get(t_, t_)
            tr0 = logic.Translator(key0, numeric={"solution_limit"})
            final = [r for r in own_walk(f.node) if isinstance(r, ast.Return) and isinstance(r.value, ast.Name)]
            if app and final and res != final[-1].value.id:
                probs.append("the callback does not fill the list that is returned")
            fs = []
            for r in rets:
                hyp = []
                for test, pol, b in cb.facts(cb.cfgn(r)):
                    ff = tr0.f(test)
                    hyp.append(ff if pol else logic.Not(ff))
                fs.append(logic.And(*hyp, tr0.f(r.value) if r.value is not None else logic.FALSE))
            want = logic.Or(logic.B("none:solution_limit"), logic.Lt(f"len({res})", "solution_limit"))
            try:
                okr = bool(rets) and logic.equivalent(logic.Or(*fs), want)
            except logic.TooBig:
                okr = False
            if not okr:
                probs.append(f"callback continues while `{logic.show(logic.Or(*fs))[:120] if fs else '?'}`: after the append this "
                             f"lets the result grow beyond the limit (expected: no limit, or len(results) < solution_limit)")
            if app and rets and any(r.lineno < app[0].lineno for r in rets):
                probs.append("a return precedes the append")
            if not app:
                probs.append("callback does not record the solution")
        ck.ob("T3", fm, cbs[0].node if cbs else f.node, not probs, "; ".join(probs) if probs else
              "callback: append, continue iff len(results) < limit", key=f"{q} callback")
        # early return for limit <= 0
        calls = [n for n in own_walk(f.node) if isinstance(n, ast.Call) and callee_name(n) == asyncq]
        probs = []
        if not calls:
            probs.append(f"{asyncq} is not called")
        else:
            cn = fm.cfgn(calls[0])
            guards = []
            for r in own_walk(f.node):
                if isinstance(r, ast.Return) and r.value is not None and (is_empty_list(r.value) or isinstance(r.value, ast.Name)):
                    rn = fm.cfgn(r)
                    if rn.id in fm.cfg.can_reach_avoiding(cn, []) or True:
                        tr = logic.Translator(lambda e: text(e), numeric={"solution_limit"})
                        fs = []
                        for test, pol, b in fm.facts(rn):
                            ff = tr.f(test)
                            fs.append(ff if pol else logic.Not(ff))
                        pc = logic.And(*fs)
                        fcs = fm.facts(rn)
                        # (the test that leads to this return is passed on every way to the call)
                        if logic.atoms(pc) and logic.implies(pc, logic.Le("solution_limit", "0")) and fcs \
                                and all(fm.cfg.dominates(fm.cfg.nodes[next(iter(fm.cfg.g.predecessors(b_.id)))], cn) for _t, _p, b_ in fcs):
                            guards.append((r, pc))
            if not guards:
                # the same contract written as a guard of the call: `if limit is None or limit > 0: <enumerate>`
                tr_ = logic.Translator(lambda e: text(e), numeric={"solution_limit"})
                fs_ = []
                for test, pol, b in fm.facts(cn):
                    ff = tr_.f(test)
                    fs_.append(ff if pol else logic.Not(ff))
                pcc = logic.And(*fs_)
                try:
                    if fs_ and logic.implies(pcc, logic.Or(logic.B("none:solution_limit"), logic.Lt("0", "solution_limit"))):
                        guards.append((None, pcc))
                except logic.TooBig:
                    pass
            if not guards:
                probs.append("a solution limit <= 0 still runs the enumeration: the callback appends the first solution before "
                             "it looks at the limit, so limit 0 yields one result and `len(result) == limit` checks in the "
                             "callers never see a truncation")
            else:
                # every path to the enumeration with a non-None limit <= 0 must take the early return:
                # the call's path condition must exclude (limit not None and limit <= 0)
                tr = logic.Translator(lambda e: text(e), numeric={"solution_limit"})
                fs = []
                for test, pol, b in fm.facts(cn):
                    ff = tr.f(test)
                    fs.append(ff if pol else logic.Not(ff))
                pc = logic.And(*fs)
                bad = logic.And(logic.Not(logic.B("none:solution_limit")), logic.Le("solution_limit", "0"))
                if logic.satisfiable(logic.And(pc, bad)):
                    probs.append("the enumeration can still be reached with a limit <= 0")
            # ... and only then: an early empty answer for a positive limit loses every solution (the pruning probe of
            # expand_attractor_seeds asks with limit 1)
            after_call = fm.cfg.reach_avoiding(cn, [])
            for r in own_walk(f.node):
                rv_ = fm.deref(r.value, fm.cfgn(r)) if isinstance(r, ast.Return) and isinstance(r.value, ast.Name) else getattr(r, "value", None)
                if isinstance(r, ast.Return) and rv_ is not None and is_empty_list(rv_) and fm.cfgn(r).id not in after_call:
                    tr2 = logic.Translator(lambda e: text(e), numeric={"solution_limit"})
                    fs2 = []
                    for test, pol, b in fm.facts(fm.cfgn(r)):
                        ff = tr2.f(test)
                        fs2.append(ff if pol else logic.Not(ff))
                    try:
                        if fs2 and logic.satisfiable(logic.And(logic.And(*fs2), logic.Lt("0", "solution_limit"), logic.Not(logic.B("none:solution_limit")))):
                            probs.append(f"line {r.lineno}: the empty list is returned before the enumeration also for a positive limit "
                                         f"(`{logic.show(logic.And(*fs2))[:60]}`)")
                    except logic.TooBig:
                        pass
        ck.ob("T3", fm, f.node, not probs, "; ".join(probs) if probs else "limit <= 0 returns the empty list before enumerating",
              key=f"{q} zero limit")
        # the async loop stops when the callback returns False
        am = prog.fm(TRAP, asyncq)
        probs = []
        loops = [n for n in own_walk(am.f.node) if isinstance(n, ast.For) and "iterator" in text(n.iter)]
        if len(loops) != 1:
            probs.append("model loop not found")
        else:
            lp = loops[0]
            brk = [n for n in ast.walk(lp) if isinstance(n, ast.Break)]
            okb = False
            for b in brk:
                for test, pol, bn in am.facts(am.cfgn(b)):
                    t, p = test, pol
                    while isinstance(t, ast.UnaryOp) and isinstance(t.op, ast.Not):
                        t, p = t.operand, not p
                    if isinstance(t, ast.Call) and callee_name(t) == "on_solution" and not p:
                        okb = True
            if not okb:
                probs.append("the model loop does not stop when the callback returns False: limits are ignored")
            cont = [n for n in ast.walk(lp) if isinstance(n, (ast.Continue,))]
            if cont:
                probs.append("some models are skipped")
        ck.ob("T3", am, loops[0] if loops else am.f.node, not probs, "; ".join(probs) if probs else
              "every model is decoded and passed on; enumeration stops on the callback's request", key=f"{asyncq} loop")


# ------------------------------------------------------------------------------------------ T4
def _clauses(prog, fm: FuncModel, spec: dict | None):
    """[(call, template, condition, cfg node)], evaluator -- for the encoder specialised to `spec`."""
    from .. import peval
    from ..repo import Func
    from .symstr import SymEval
    g = fm
    if spec:
        node = peval.specialise(fm.f.node, {k: v for k, v in spec.items() if k in fm.f.params()})
        g = FuncModel(prog, Func(fm.f.module, fm.f.qualname, node, fm.f.cls, fm.f.parent))
    se = SymEval(g)
    ctl = None
    for n in own_walk(g.f.node):
        if isinstance(n, ast.Assign) and isinstance(n.value, ast.Call) and callee_name(n.value) == "Control" \
                and isinstance(n.targets[0], ast.Name):
            ctl = n.targets[0].id
    if ctl is None:
        raise AnalysisError(f"anchor vanished: clingo Control object of {fm.f.qualname}")
    out = []
    for c in own_walk(g.f.node):
        if isinstance(c, ast.Call) and isinstance(c.func, ast.Attribute) and c.func.attr == "add" and text(c.func.value) == ctl and c.args:
            cn = g.cfgn(c)
            a = c.args[-1]
            # deferred emission: the rules were collected in a list first (`for rule in rules: ctl.add(rule)`)
            if isinstance(a, ast.Name):
                lps = [l for l in g.cfg.enclosing_loops(cn) if isinstance(l, ast.For)]
                if lps and isinstance(lps[0].target, ast.Name) and lps[0].target.id == a.id:
                    col = se.collection(lps[0].iter, g.cfg.loop_header[lps[0]])
                    if col:
                        outer = se.cond(g.cfg.loop_header[lps[0]])
                        inner = se.cond(cn, local=True) if False else logic.TRUE
                        for el, cnd in col:
                            out.append((c, el, logic.And(outer, cnd), cn))
                        continue
            # the whole program handed over at once: ctl.add("\n".join(rules))  (statements end with '.', white space
            # between them has no meaning)
            if isinstance(a, ast.Call) and isinstance(a.func, ast.Attribute) and a.func.attr == "join" and len(a.args) == 1 \
                    and isinstance(a.func.value, ast.Constant) and isinstance(a.func.value.value, str) \
                    and a.func.value.value.strip() == "" and a.func.value.value != "":
                col = se.collection(a.args[0], cn)
                if col:
                    outer = se.cond(cn)
                    for el, cnd in col:
                        out.append((c, el, logic.And(outer, cnd), cn))
                    continue
            t = a.value if isinstance(a, ast.Constant) and isinstance(a.value, str) else se.val(a, cn)
            out.append((c, t, se.cond(cn), cn))
    return out, se, g


N_ = "elem(nodes(petri_net))"
V_ = "elem(variables)"
KT = logic.B(f"eq:'transition'|kind({N_})")
KP = logic.B(f"eq:'place'|kind({N_})")
EXCL = logic.Not(logic.And(KT, KP))  # a node has one kind


def _expected_trap(problem: str, rev: bool):
    head, body = ("succs", "preds") if rev else ("preds", "succs")
    free = f"acc[{N_}]"
    rows = [
        (f"{{{{P({V_},True)}}}}.", logic.TRUE, "choice of the positive place"),
        (f"{{{{P({V_},False)}}}}.", logic.TRUE, "choice of the negative place"),
        (f":- {{P({V_},True)}}, {{P({V_},False)}}.", logic.TRUE, "consistency (not both places)"),
        ("{P(elem(ensure_subspace),*)}.", logic.TRUE, "ensure_subspace fact"),
        (":- {join(', ',map(P(elem(elem(avoid_subspaces)),*),elem(avoid_subspaces)))}.", logic.TRUE, "avoid_subspaces constraint"),
        (f"{{join('; ',{head}({N_}))}} :- {{elem({body}({N_}))}}.",
         logic.And(KT, logic.Not(logic.B(f"in:elem({body}({N_}))|{head}({N_})"))), "trap rule" if rev else "siphon rule"),
    ]
    if problem == "fix":
        rows.append((f"{{P({V_},True)}} ; {{P({V_},False)}}.", logic.TRUE, "totality (fixed points only)"))
    if problem == "max":
        nonempty = logic.Lt("0", f"len({free})")
        rows.append((f"{{join('; ',{free})}}.", nonempty, "non-triviality (max only)"))
        rows.append(("{P(elem(optimize_source_variables),True)}; {P(elem(optimize_source_variables),False)}.",
                     logic.And(nonempty, logic.Not(logic.B("in:elem(optimize_source_variables)|ensure_subspace"))),
                     "source variable fixed (max only)"))
    return rows


def _expected_fp():
    A = "elem(avoid_subspaces)"
    ne = logic.Lt("0", f"len({A})")
    return [
        (f"{{{{P({V_},True)}}}}.", logic.TRUE, "choice of the positive place"),
        (f"{{{{P({V_},False)}}}}.", logic.TRUE, "choice of the negative place"),
        (f":- {{P({V_},True)}}, {{P({V_},False)}}.", logic.TRUE, "consistency"),
        (f"{{P({V_},True)}} ; {{P({V_},False)}}.", logic.TRUE, "totality"),
        (f":- {{join('; ',preds({N_}))}}.", KT, "no transition enabled"),
        ("{P(elem(ensure_subspace),*)}.", logic.TRUE, "ensure_subspace fact"),
        (f":- {{join(', ',map(P(elem({A}),*),{A}))}}.", ne, "avoid_subspaces constraint"),
        ("#false.", logic.Not(ne), "empty avoided space excludes everything"),
    ]


def _match(ck: Check, fm: FuncModel, rows, clauses, label: str, report_ok: bool) -> None:
    """Every ctl.add is one of the expected clauses and is emitted exactly under its condition; none is missing."""
    seen = set()
    for c, t, cnd, cn in clauses:
        row = next((r for r in rows if r[0] == t), None)
        if row is None:
            ck.ob("T4", fm, c, False, f"{label}: clause `{t}` is not part of the encoding (unrecognised ctl.add)",
                  key=f"{label} unrecognised {t[:80]}")
            continue
        seen.add(row[0])
        try:
            ok = logic.equivalent(logic.And(cnd, EXCL), logic.And(row[1], EXCL))
        except logic.TooBig:
            ok = False
        if report_ok or not ok:
            ck.ob("T4", fm, c, ok, f"{row[2]}: emitted exactly when required" if ok else
                  f"{label}: {row[2]} (`{t}`) is emitted under `{logic.show(cnd)}`, the encoding requires `{logic.show(row[1])}`",
                  key=f"{row[2]}" + ("" if ok else f" [{label}]"))
    for r in rows:
        if r[0] not in seen:
            ck.ob("T4", fm, fm.f.node, False, f"{label}: the encoding no longer emits: {r[2]} (`{r[0]}`)", key=f"missing {r[2]} [{label}]")


def _acc_ok(ck: Check, fm: FuncModel, se, g: FuncModel, label: str) -> None:
    """free places = places of variables outside ensure_subspace."""
    tok = f"acc[{N_}]"
    probs = []
    if tok not in se.accs:
        probs.append("the list of free places is not collected from the nodes of the Petri net")
    else:
        want = logic.And(KP, logic.Not(logic.B(f"in:idx(p2v({N_}),0)|ensure_subspace")))
        for el, pc, cn in se.contributions(tok):
            if not logic.equivalent(logic.And(pc, EXCL), logic.And(want, EXCL)):
                probs.append(f"a place counts as free under `{logic.show(pc)}`, expected: place of a variable outside ensure_subspace "
                             f"(otherwise the non-triviality clause is satisfied by the enclosing space itself, or real sub-spaces "
                             f"are excluded)")
    ck.ob("T4", fm, fm.f.node, not probs, "; ".join(probs) if probs else
          "free places = places of variables outside ensure_subspace; non-triviality = their disjunction", key="free places")


def _loops_complete(ck: Check, fm: FuncModel, g: FuncModel, se, label: str) -> None:
    """No loop that feeds the encoding is left early (except after `#false.`)."""
    for n in own_walk(g.f.node):
        if isinstance(n, ast.For):
            it = se.val(n.iter, g.cfg.loop_header[n])
            if not any(k in it for k in ("variables", "ensure_subspace", "avoid_subspaces", "nodes", "preds(", "succs(")):
                continue
            bad = []
            for s_ in ast.walk(n):
                if isinstance(s_, ast.Break) and g.cfg.enclosing_loops(g.cfgn(s_))[0] is n:
                    prev = [c for c in ast.walk(n) if isinstance(c, ast.Call) and c.args and isinstance(c.args[-1], ast.Constant)
                            and c.args[-1].value == "#false." and g.cfgn(s_).id in g.cfg.reach_avoiding(g.cfgn(c), [])]
                    if not prev:
                        bad.append(s_.lineno)
            ck.ob("T4", fm, n, not bad, f"every element of {it} is encoded" if not bad else
                  f"{label}: the loop over `{it}` is left early (line {bad}): the remaining elements are not encoded",
                  key=f"for over {it[:60]}")


FORWARDED = ("ensure_subspace", "avoid_subspaces", "retained_set", "problem", "reverse_time", "optimize_source_variables")


def _same_request(v: ast.AST, pn: str) -> bool:
    """value-preserving spellings: a copy of the parameter, or the parameter with a default for None"""
    t = text(v)
    if t in (pn, f"list({pn})", f"dict({pn})", f"{pn}.copy()", f"copy({pn})", f"copy.copy({pn})", f"tuple({pn})"):
        return True
    if isinstance(v, ast.BoolOp) and isinstance(v.op, ast.Or) and len(v.values) == 2 and text(v.values[0]) == pn:
        return True
    if isinstance(v, ast.IfExp):
        tt = text(v.test)
        if tt in (f"{pn} is None",) and _same_request(v.orelse, pn):
            return True
        if tt in (f"{pn} is not None",) and _same_request(v.body, pn):
            return True
    return False


def t5(ck: Check) -> None:
    """What the caller asked for reaches the encoder: between the solver entry points and the functions that write the
    ASP program, the request parameters are handed down unchanged (a `None` may be replaced by the default)."""
    prog = ck.prog
    MOD = "biobalm.trappist_core"
    # an omitted optional argument asks for nothing: no limit, no restriction, nothing avoided
    for fm in prog.models():
        f = fm.f
        if f.module.name != MOD or f.parent is not None:
            continue
        a_ = f.node.args
        pos = a_.posonlyargs + a_.args
        dflt = dict(zip([x.arg for x in pos[len(pos) - len(a_.defaults):]], a_.defaults))
        dflt.update({x.arg: d for x, d in zip(a_.kwonlyargs, a_.kw_defaults) if d is not None})
        for pn in ("solution_limit", "ensure_subspace", "avoid_subspaces", "optimize_source_variables"):
            if pn in dflt:
                d_ = dflt[pn]
                ok = is_none(d_) or (pn != "solution_limit" and (isinstance(d_, (ast.List, ast.Tuple)) and not d_.elts
                                                                 or isinstance(d_, ast.Dict) and not d_.keys))
                ck.ob("T5", fm, f.node, ok, f"`{pn}` defaults to nothing requested" if ok else
                      f"`{pn}` defaults to `{text(dflt[pn])}`: a caller that does not ask for a "
                      f"{'limit gets a truncated list' if pn == 'solution_limit' else 'restriction gets one'} without knowing",
                      key=f"{f.name}: default of {pn}")
    for fm in prog.models():
        f = fm.f
        if f.module.name != MOD:
            continue
        mine = set(f.params())
        # a request parameter is re-bound only to supply the default of an omitted argument
        for n in fm.cfg.nodes:
            if n.kind not in ("stmt", "for", "with") or n.ast is None:
                continue
            for pn in FORWARDED:
                if pn in mine and pn in fm.cfg.defs_of(n):
                    v = n.ast.value if isinstance(n.ast, ast.Assign) and len(n.ast.targets) == 1 and text(n.ast.targets[0]) == pn else None
                    pc = fm.pc(n)
                    none_atom = logic.B(f"none:{pn}")
                    ok = v is not None and ((none_atom[1] in logic.atoms(pc) and logic.implies(pc, none_atom)) or _same_request(v, pn))
                    if ok and pn == "optimize_source_variables" and not _same_request(v, pn):
                        # the default is computed from the very net that is being solved, every time
                        dv = fm.deref(v, n)
                        enc_args = {a_.id for c_ in own_walk(f.node) if isinstance(c_, ast.Call) and callee_name(c_) == "_create_clingo_constraints"
                                    for a_ in list(c_.args) + [k_.value for k_ in c_.keywords] if isinstance(a_, ast.Name)}
                        fresh = is_empty_list(dv) or (
                            isinstance(dv, ast.Call) and callee_name(dv) == "extract_source_variables" and len(dv.args) == 1
                            and isinstance(dv.args[0], ast.Name) and (dv.args[0].id in mine or dv.args[0].id in enc_args))
                        ck.ob("T5", fm, n.ast, fresh, "default source variables extracted from the net being solved" if fresh else
                              f"the default for `{pn}` is `{text(dv)[:60]}`, not extract_source_variables(<the net>): a list that was "
                              f"remembered (with the net, its copies and restrictions, or globally) describes another net",
                              key=f"{f.name}: default value of {pn}")
                        continue
                    ck.ob("T5", fm, n.ast, ok, f"`{pn}`: default for an omitted argument" if ok else
                          f"the request parameter `{pn}` is re-bound (`{text(n.ast)[:60]}`) although the caller supplied a "
                          f"value: the rest of the function works with something the caller did not ask for",
                          key=f"{f.name}: rebinding of {pn}")
        for c in own_walk(f.node):
            if not isinstance(c, ast.Call):
                continue
            tgt = prog.repo.resolve_call(f, c)
            if not tgt or not tgt.startswith(MOD + ":") or tgt == f.key:
                continue
            g = prog.repo.functions[tgt]
            gp = g.params()
            for pn in FORWARDED:
                if pn not in mine or pn not in gp:
                    continue
                a = call_arg(c, gp.index(pn), pn)
                cn = fm.cfgn(c)
                probs = []
                if a is None:
                    probs.append(f"`{pn}` is not handed to {g.name}: the callee falls back to its default")
                else:
                    vds = fm.value_defs(a.id, cn) if isinstance(a, ast.Name) else [(cn, a)]
                    for d, v in vds:
                        if d.kind == "entry":
                            nm = a.id if isinstance(a, ast.Name) else None
                            # the entry definition must be the parameter of the same name (possibly through plain copies)
                            continue
                        if v is None:
                            probs.append(f"line {d.lineno}: `{pn}` is bound by a {type(d.ast).__name__}")
                            continue
                        if (isinstance(v, ast.Name) and v.id == pn) or _same_request(v, pn):
                            continue
                        pc = fm.pc(d)
                        none_atom = logic.B(f"none:{pn}")
                        if none_atom[1] in logic.atoms(pc) and logic.implies(pc, none_atom):
                            continue       # default for an omitted argument
                        probs.append(f"line {d.lineno}: `{pn}` is replaced by `{text(v)[:60]}` before it reaches {g.name}: the "
                                     f"encoder no longer sees the caller's request (e.g. an avoided subspace that contradicts "
                                     f"the enclosing subspace must exclude nothing; a rewritten one excludes solutions)")
                    if isinstance(a, ast.Name) and a.id != pn and not any(
                            isinstance(v, ast.Name) and v.id == pn for d, v in fm.value_defs(a.id, cn)) \
                            and all(d.kind == "entry" for d, v in vds):
                        probs.append(f"{g.name} receives `{a.id}` as its `{pn}`")
                ck.ob("T5", fm, f.stmt_of(c), not probs, "; ".join(probs) if probs else
                      f"`{pn}` handed down to {g.name} unchanged", key=f"{f.name} -> {g.name}: {pn}")


def t7(ck: Check) -> None:
    """Every request is answered by its own encoder and solver run: in the two callback entry points every path from the
    entry to a normal return passes the encoder call and the solve call, and neither hands the request to another solver
    entry point (which has other request parameters: time direction, problem kind, source optimisation, retained set)."""
    from .common import escapes
    entries = {"trappist_async": "_create_clingo_constraints",
               "compute_fixed_point_reduced_STG_async": "_create_clingo_fixed_point_constraints"}
    solvers = set(entries) | {"trappist", "compute_fixed_point_reduced_STG"}
    for q, enc in entries.items():
        fm = ck.prog.fm(TRAP, q)
        f = fm.f
        probs = []
        solves = [fm.cfgn(c) for c in own_walk(f.node) if isinstance(c, ast.Call) and isinstance(c.func, ast.Attribute) and c.func.attr == "solve"]
        encs = [fm.cfgn(c) for c in own_walk(f.node) if isinstance(c, ast.Call) and callee_name(c) == enc]
        if not solves or not encs:
            raise AnalysisError(f"anchor vanished: {q} no longer calls {enc} and solve()")
        for what, cuts in (("the solver run", solves), (f"the encoder `{enc}`", encs)):
            esc = escapes(fm, fm.cfg.entry, cuts, None, need_pre=False)
            if esc is not None:
                probs.append(f"a path returns without {what} (reaches {esc}): an early exit claims an empty answer that nothing "
                             f"proves -- e.g. an avoided subspace that contradicts the enclosing one excludes nothing")
        for c in own_walk(f.node):
            if isinstance(c, ast.Call) and callee_name(c) in solvers and callee_name(c) != q:
                probs.append(f"line {c.lineno}: the request is handed to `{callee_name(c)}`, which does not take all of this entry "
                             f"point's request parameters (time direction, problem kind, source optimisation / retained set)")
        ck.ob("T7", fm, f.node, not probs, "; ".join(sorted(set(probs))) if probs else
              "every path encodes the request and runs the solver; no delegation to another solver entry point", key=f"{q} paths")


def t6(ck: Check) -> None:
    """The net that is encoded is the caller's net: the parameter itself, its translation from the given network, or a
    copy of it from which only the retained-set transitions were removed. Anything else between the entry point and the
    encoder changes which transitions exist, i.e. which states count as deadlocks / which sets as traps."""
    prog = ck.prog
    MOD = "biobalm.trappist_core"
    n_ = 0
    for fm in prog.models():
        f = fm.f
        if f.module.name != MOD:
            continue
        for c in own_walk(f.node):
            if not (isinstance(c, ast.Call) and callee_name(c) in ("_create_clingo_constraints", "_create_clingo_fixed_point_constraints")):
                continue
            g = prog.repo.functions.get(prog.repo.resolve_call(f, c) or "")
            if g is None:
                continue
            idx = g.params().index("petri_net")
            a = call_arg(c, idx, "petri_net")
            cn = fm.cfgn(c)
            n_ += 1
            probs = []
            net_params = [p_ for p_ in f.params() if p_ in ("petri_net", "network")]
            vds = fm.value_defs(a.id, cn) if isinstance(a, ast.Name) else [(cn, a)]
            for d, v in vds:
                if d.kind == "entry":
                    continue
                if v is None:
                    probs.append(f"line {d.lineno}: the encoded net is bound by a {type(d.ast).__name__}")
                    continue
                t = text(v)
                ok = any(t in (p_, f"{p_}.copy()", f"copy.deepcopy({p_})", f"deepcopy({p_})", f"copy.copy({p_})") for p_ in net_params) \
                    or (isinstance(v, ast.Call) and callee_name(v) == "network_to_petrinet" and v.args and text(v.args[0]) in net_params)
                if not ok:
                    probs.append(f"line {d.lineno}: the encoded net is `{t[:60]}`, not the caller's net (or its copy reduced by the "
                                 f"retained set): transitions are added or removed on the way, so the solver answers for another "
                                 f"transition system (e.g. restricting to a subspace that is no trap space deletes enabled "
                                 f"transitions and reports spurious deadlocks)")
            # in-place changes of the net: only remove_node of the retained-set transitions (checked in T1)
            if isinstance(a, ast.Name):
                for x in own_walk(f.node):
                    if isinstance(x, ast.Call) and isinstance(x.func, ast.Attribute) and text(x.func.value) == a.id \
                            and x.func.attr in ("add_node", "add_edge", "remove_edge", "remove_edges_from", "clear",
                                                "add_nodes_from", "add_edges_from", "update"):
                        probs.append(f"line {x.lineno}: `{text(x)[:50]}` edits the net that is encoded")
            ck.ob("T6", fm, f.stmt_of(c), not probs, "; ".join(probs) if probs else
                  "the encoded net is the caller's net (copy reduced by the retained set only)", key=f"{f.name}: encoded net")
    if n_ == 0:
        raise AnalysisError("anchor vanished: encoder calls in trappist_core")


def t4(ck: Check) -> None:
    prog = ck.prog
    fm = prog.fm(TRAP, "_create_clingo_constraints")
    first = True
    for problem in ("min", "max", "fix"):
        for rev in (False, True):
            label = f"problem={problem}, reverse_time={rev}"
            clauses, se, g = _clauses(prog, fm, {"problem": problem, "reverse_time": rev})
            # obligations are reported once per clause kind (first specialisation that has it); failures for every one
            _match(ck, fm, _expected_trap(problem, rev), clauses, label, report_ok=(problem, rev) in (("max", False), ("fix", False), ("min", True)))
            if problem == "max" and not rev:
                _acc_ok(ck, fm, se, g, label)
                _loops_complete(ck, fm, g, se, label)
            first = False
    fp = prog.fm(TRAP, "_create_clingo_fixed_point_constraints")
    clauses, se, g = _clauses(prog, fp, None)
    _match(ck, fp, _expected_fp(), clauses, "fixed points", report_ok=True)
    _loops_complete(ck, fp, g, se, "fixed points")
