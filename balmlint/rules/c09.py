"""C09 -- the trap-space solver returns exactly the requested trap spaces (encoder/decoder agreement, limit contract)."""

from __future__ import annotations

import ast
import copy
import re

from .. import logic
from ..program import FuncModel, call_arg
from ..report import Check
from ..repo import AnalysisError, dotted, own_walk, text
from .common import callee_name, is_empty_list, is_false, is_none, is_true, reach_stop

TRAP = "biobalm.trappist_core"
PN = "biobalm.petri_net_translation"

EXPLANATION = (
    "(T1) polarity tables: the place-name codec (variable_to_place / place_to_variable) is evaluated over "
    "{True, False} and must be a bijection with matching prefix lengths; in the trap-space family (ensure_subspace, "
    "avoid_subspaces, model decoder) every site must map value v to the place polarity `v == 0`, in the fixed-point "
    "family (ensure, avoid, decoder, retained-set source place) to `v == 1` -- each polarity expression is evaluated "
    "for v in {0, 1} by an interpreter of the few statement forms involved; the retained-set reduction deletes "
    "exactly the transitions that consume the retained place without producing it. (T2) the siphon (forward) and "
    "trap (reversed) rule generators are mirror images under predecessors<->successors. (T3) limit contract: the "
    "result callback appends and continues iff len(results) < limit, a limit <= 0 returns before the enumeration, and "
    "the enumeration loops stop when the callback says so: len(result) <= max(limit, 0). (T4) clause bookkeeping: "
    "every ctl.add in the two encoders is recognised as one of the clause kinds of the encoding and is emitted under "
    "exactly its condition (totality only for 'fix', non-triviality and source clauses only for 'max' with free "
    "places, free places = places of variables outside ensure_subspace, one rule per (transition, non-tautological "
    "place) with no further filtering, avoid clauses over all literals of the avoided space, #false for the empty one)."
)
ASSUMPTIONS = [
    "the logic programs have the intended models (siphon/trap characterisation of trap spaces; clingo is correct)",
    "domain-heuristic options make clingo enumerate subset-minimal / maximal models",
]


def run(ck: Check) -> None:
    t1(ck)
    t2(ck)
    t3(ck)
    t4(ck)
    ck.floor("T1", 9)
    ck.floor("T2", 1)
    ck.floor("T3", 4)
    ck.floor("T4", 14)


# ------------------------------------------------------------------------------------------ tiny evaluator
class Unknown(Exception):
    pass


def ev(e: ast.AST, env: dict):
    """Evaluate a polarity expression over constants (no calls into the analysed code)."""
    if isinstance(e, ast.Constant):
        return e.value
    if isinstance(e, ast.Name):
        if e.id in env:
            return env[e.id]
        raise Unknown(e.id)
    if isinstance(e, ast.Subscript):
        k = text(e)
        if k in env:
            return env[k]
        raise Unknown(k)
    if isinstance(e, ast.UnaryOp) and isinstance(e.op, ast.Not):
        return not ev(e.operand, env)
    if isinstance(e, ast.BoolOp):
        vals = [ev(v, env) for v in e.values]
        return all(vals) if isinstance(e.op, ast.And) else any(vals)
    if isinstance(e, ast.Compare) and len(e.ops) == 1:
        a, b = ev(e.left, env), ev(e.comparators[0], env)
        op = e.ops[0]
        if isinstance(op, ast.Eq):
            return a == b
        if isinstance(op, ast.NotEq):
            return a != b
        if isinstance(op, ast.Is):
            return a is b
        if isinstance(op, ast.IsNot):
            return a is not b
    if isinstance(e, ast.IfExp):
        return ev(e.body, env) if ev(e.test, env) else ev(e.orelse, env)
    if isinstance(e, ast.Call) and isinstance(e.func, ast.Name) and e.func.id in ("bool", "int") and len(e.args) == 1:
        v = ev(e.args[0], env)
        return bool(v) if e.func.id == "bool" else int(v)
    if isinstance(e, ast.BinOp) and isinstance(e.op, ast.Sub):
        return ev(e.left, env) - ev(e.right, env)
    raise Unknown(text(e))


def run_stmts(stmts: list[ast.stmt], env: dict) -> None:
    for s in stmts:
        if isinstance(s, ast.Assign) and len(s.targets) == 1 and isinstance(s.targets[0], ast.Name):
            try:
                env[s.targets[0].id] = ev(s.value, env)
            except Unknown:
                env.pop(s.targets[0].id, None)
        elif isinstance(s, ast.If):
            try:
                t = ev(s.test, env)
            except Unknown:
                continue
            run_stmts(s.body if t else s.orelse, env)


def polarity_table(fm: FuncModel, call: ast.Call, value_expr_key: str, pre: list[ast.stmt]) -> dict | None:
    """{v: polarity} for v in {0,1} of the `positive` argument of a variable_to_place call."""
    pos = call_arg(call, 1, "positive")
    if pos is None:
        return None
    out = {}
    for v in (0, 1):
        env = {value_expr_key: v}
        run_stmts(pre, env)
        try:
            out[v] = bool(ev(pos, env))
        except Unknown:
            return None
    return out


# ------------------------------------------------------------------------------------------ T1
def t1(ck: Check) -> None:
    prog = ck.prog
    # codec
    v2p = prog.fm(PN, "variable_to_place")
    p2v = prog.fm(PN, "place_to_variable")
    enc = {}
    probs = []
    for r in own_walk(v2p.f.node):
        if isinstance(r, ast.Return) and isinstance(r.value, ast.JoinedStr):
            pc = v2p.pc(v2p.cfgn(r))
            prefix = "".join(x.value for x in r.value.values if isinstance(x, ast.Constant))
            at = logic.B("T:positive")
            if logic.implies(pc, at):
                enc[True] = prefix
            elif logic.implies(pc, logic.Not(at)):
                enc[False] = prefix
            tail = [x for x in r.value.values if isinstance(x, ast.FormattedValue)]
            if len(tail) != 1 or text(tail[0].value) != "variable" or not isinstance(r.value.values[-1], ast.FormattedValue):
                probs.append("place name is not <prefix><variable>")
    dec = {}
    for r in own_walk(p2v.f.node):
        if isinstance(r, ast.Return) and isinstance(r.value, ast.Tuple):
            t = p2v.facts(p2v.cfgn(r))
            pre = None
            for test, pol, b in t:
                if pol and isinstance(test, ast.Call) and callee_name(test) == "startswith":
                    pre = test.args[0].value
            sl = r.value.elts[0]
            if pre is None or not (isinstance(sl, ast.Subscript) and isinstance(sl.slice, ast.Slice)
                                   and isinstance(sl.slice.lower, ast.Constant) and sl.slice.lower.value == len(pre)):
                probs.append(f"decoder strips {text(sl)} for prefix {pre!r}")
            else:
                dec[pre] = r.value.elts[1].value if isinstance(r.value.elts[1], ast.Constant) else None
    if set(enc) != {True, False} or len(set(enc.values())) != 2:
        probs.append(f"encoder prefixes {enc}")
    elif {v: k for k, v in enc.items()} != dec:
        probs.append(f"place codec is not a bijection: encoder {enc}, decoder {dec}")
    else:
        for p in enc.values():
            if not re.match(r"^[a-z][a-z0-9_]*$", p):
                probs.append(f"prefix {p!r} does not start with a lower-case letter (clingo constants must)")
        if enc[True].startswith(enc[False]) or enc[False].startswith(enc[True]):
            probs.append("one prefix is a prefix of the other")
    ck.ob("T1", v2p, v2p.f.node, not probs, "; ".join(probs) if probs else f"place codec bijective: {enc}", key="place codec")

    def sites(fm: FuncModel, want: dict, family: str):
        f = fm.f
        for c in own_walk(f.node):
            if not (isinstance(c, ast.Call) and callee_name(c) == "variable_to_place"):
                continue
            pos = call_arg(c, 1, "positive")
            if isinstance(pos, ast.Constant):
                continue  # declaration of both places
            # the value expression this polarity is computed from
            stmt = f.stmt_of(c)
            loop = next((a for a in f.ancestors(c) if isinstance(a, (ast.For, ast.ListComp))), None)
            value_keys = set()
            for x in ast.walk(pos) if pos is not None else []:
                if isinstance(x, ast.Subscript):
                    value_keys.add(text(x))
                if isinstance(x, ast.Name):
                    value_keys.add(x.id)
            pre: list[ast.stmt] = []
            tbl = None
            # statements of the enclosing loop body that precede the call (polarity computed by statements)
            if isinstance(loop, ast.For):
                pre = [s for s in loop.body if s.lineno < stmt.lineno]
                for s in ast.walk(loop):
                    if isinstance(s, ast.Subscript) and isinstance(s.ctx, ast.Load):
                        value_keys.add(text(s))
                if isinstance(loop.target, ast.Tuple):
                    for t in loop.target.elts:
                        value_keys.add(text(t))
            for vk in sorted(value_keys):
                t = polarity_table(fm, c, vk, pre)
                if t is not None and t[0] != t[1]:
                    tbl = t
                    break
                if t is not None and tbl is None:
                    tbl = t
            ok = tbl == want
            ck.ob("T1", fm, stmt, ok,
                  f"{family}: value v -> positive place iff v == {0 if want[0] else 1}" if ok else
                  f"{family}: this site maps value 0/1 to place polarity {tbl}, the rest of the {family} encoding uses {want}: "
                  f"the constraint is applied with the opposite value")

    cc = prog.fm(TRAP, "_create_clingo_constraints")
    sites(cc, {0: True, 1: False}, "trap-space encoding")
    fp = prog.fm(TRAP, "_create_clingo_fixed_point_constraints")
    sites(fp, {0: False, 1: True}, "fixed-point encoding")
    rs = prog.fm(TRAP, "compute_fixed_point_reduced_STG_async")
    sites(rs, {0: False, 1: True}, "fixed-point encoding (retained set)")
    # decoders
    for q, want, fam in (("_clingo_model_to_space", {True: 0, False: 1}, "trap-space decoder"),
                         ("_clingo_model_to_fixed_point", {True: 1, False: 0}, "fixed-point decoder")):
        fm = prog.fm(TRAP, q)
        stores = [n for n in own_walk(fm.f.node) if isinstance(n, ast.Assign) and isinstance(n.targets[0], ast.Subscript)]
        probs = []
        if not stores:
            probs.append("no value store")
        for s in stores:
            tbl = {}
            for pol in (True, False):
                try:
                    tbl[pol] = ev(s.value, {"is_positive": pol})
                except Unknown:
                    tbl = None
                    break
            if tbl != want:
                probs.append(f"decodes positive/negative atoms to {tbl}, expected {want}")
        ck.ob("T1", fm, stores[0] if stores else fm.f.node, not probs, "; ".join(probs) if probs else f"{fam}: {want}", key=q)
    # retained-set reduction deletes succs - preds of the retained place
    f = rs.f
    probs = []
    dele = [n for n in own_walk(f.node) if isinstance(n, ast.Assign) and "deleted" in text(n.targets[0])]
    if not dele:
        probs.append("deleted transitions not computed")
    else:
        v = dele[0].value
        t = text(v)
        if not re.search(r"set\(succs\) - set\(preds\)", t):
            probs.append(f"deleted transitions are `{t}`, expected consumers of the retained place that do not give the "
                         f"token back (set(succs) - set(preds))")
        for nm, meth in (("preds", "predecessors"), ("succs", "successors")):
            d = [n for n in own_walk(f.node) if isinstance(n, ast.Assign) and text(n.targets[0]) == nm]
            if not d or f".{meth}(source_place)" not in text(d[0].value):
                probs.append(f"`{nm}` is not {meth}(source_place)")
        rem = [n for n in own_walk(f.node) if isinstance(n, ast.Call) and callee_name(n) == "remove_node"]
        if not rem or "reduced" not in text(rem[0].func.value):
            probs.append("transitions are not removed from the copy of the net")
        cp = [n for n in own_walk(f.node) if isinstance(n, (ast.Assign, ast.AnnAssign)) and n.value is not None
              and "copy" in text(n.value) and "petri_net" in text(n.value)]
        if not cp:
            probs.append("the reduction mutates the caller's Petri net")
    ck.ob("T1", rs, dele[0] if dele else f.node, not probs, "; ".join(probs) if probs else
          "retained variables lose exactly the transitions leaving the retained value", key="retained-set reduction")


# ------------------------------------------------------------------------------------------ T2
SWAP = {"predecessors": "successors", "successors": "predecessors", "predecessor": "successor", "successor": "predecessor",
        "p_disjunction": "s_disjunction", "s_disjunction": "p_disjunction"}


def t2(ck: Check) -> None:
    fm = ck.prog.fm(TRAP, "_create_clingo_constraints")
    ifs = [n for n in own_walk(fm.f.node) if isinstance(n, ast.If) and text(n.test) in ("not reverse_time", "reverse_time")]
    if len(ifs) != 1:
        raise AnalysisError("anchor vanished: time-direction split of _create_clingo_constraints")
    node = ifs[0]
    fwd, bwd = (node.body, node.orelse) if text(node.test) == "not reverse_time" else (node.orelse, node.body)

    class Sw(ast.NodeTransformer):
        def visit_AnnAssign(self, n):
            self.generic_visit(n)
            if n.value is not None:
                return ast.copy_location(ast.Assign([n.target], n.value), n)
            return n

        def visit_Name(self, n):
            return ast.copy_location(ast.Name(SWAP.get(n.id, n.id), n.ctx), n)

        def visit_Attribute(self, n):
            self.generic_visit(n)
            n.attr = SWAP.get(n.attr, n.attr)
            return n

    def norm(stmts):
        m = ast.fix_missing_locations(ast.Module([Sw().visit(copy.deepcopy(s)) for s in stmts], []))
        t = ast.unparse(m)
        t = re.sub(r"list\((.*?)\)", r"\1", t)
        return t

    class Plain(ast.NodeTransformer):
        def visit_AnnAssign(self, n):
            self.generic_visit(n)
            if n.value is not None:
                return ast.copy_location(ast.Assign([n.target], n.value), n)
            return n

    def plain(stmts):
        t = ast.unparse(ast.fix_missing_locations(ast.Module([Plain().visit(copy.deepcopy(x)) for x in stmts], [])))
        return re.sub(r"list\((.*?)\)", r"\1", t)

    ok = norm(fwd) == plain(bwd)
    ck.ob("T2", fm, node, ok, "siphon and trap rule generators are mirror images" if ok else
          "the forward (siphon) and the time-reversed (trap) rule generators differ by more than the swap "
          "predecessors<->successors: one time direction encodes a different problem",
          key="time reversal symmetry")


# ------------------------------------------------------------------------------------------ T3
def t3(ck: Check) -> None:
    prog = ck.prog
    for q, asyncq in (("trappist", "trappist_async"), ("compute_fixed_point_reduced_STG", "compute_fixed_point_reduced_STG_async")):
        fm = prog.fm(TRAP, q)
        f = fm.f
        cbs = [g for g in prog.repo.funcs() if g.parent is f]
        probs = []
        if len(cbs) != 1:
            probs.append("result callback not found")
        else:
            cb = prog.model(cbs[0])
            app = [n for n in own_walk(cb.f.node) if isinstance(n, ast.Call) and isinstance(n.func, ast.Attribute) and n.func.attr == "append"]
            res = text(app[0].func.value) if app else None
            rets = [r for r in own_walk(cb.f.node) if isinstance(r, ast.Return)]
            for r in rets:
                pc = cb.pc(cb.cfgn(r))
                v = r.value
                if is_true(v):
                    if not logic.implies(pc, logic.B("none:solution_limit")):
                        probs.append("enumeration continues unconditionally although a limit may be set")
                elif isinstance(v, ast.Compare):
                    tr = logic.Translator(lambda e: text(e), numeric={"solution_limit"})
                    fml = tr.f(v)
                    want = logic.Lt(f"len({res})", "solution_limit")
                    if not logic.equivalent(fml, want):
                        probs.append(f"callback continues while `{text(v)}`: after the append this lets the result grow "
                                     f"beyond the limit (expected len(results) < solution_limit)")
                else:
                    probs.append(f"callback returns `{text(v) if v is not None else None}`")
            if app and rets and any(r.lineno < app[0].lineno for r in rets):
                probs.append("a return precedes the append")
            if not app:
                probs.append("callback does not record the solution")
        ck.ob("T3", fm, cbs[0].node if cbs else f.node, not probs, "; ".join(probs) if probs else
              "callback: append, continue iff len(results) < limit", key=f"{q} callback")
        # early return for limit <= 0
        calls = [n for n in own_walk(f.node) if isinstance(n, ast.Call) and callee_name(n) == asyncq]
        probs = []
        if not calls:
            probs.append(f"{asyncq} is not called")
        else:
            cn = fm.cfgn(calls[0])
            guards = []
            for r in own_walk(f.node):
                if isinstance(r, ast.Return) and r.value is not None and (is_empty_list(r.value) or isinstance(r.value, ast.Name)):
                    rn = fm.cfgn(r)
                    if rn.id in fm.cfg.can_reach_avoiding(cn, []) or True:
                        tr = logic.Translator(lambda e: text(e), numeric={"solution_limit"})
                        fs = []
                        for test, pol, b in fm.facts(rn):
                            ff = tr.f(test)
                            fs.append(ff if pol else logic.Not(ff))
                        pc = logic.And(*fs)
                        if logic.atoms(pc) and logic.implies(pc, logic.Le("solution_limit", "0")) and r.lineno < calls[0].lineno:
                            guards.append((r, pc))
            if not guards:
                probs.append("a solution limit <= 0 still runs the enumeration: the callback appends the first solution before "
                             "it looks at the limit, so limit 0 yields one result and `len(result) == limit` checks in the "
                             "callers never see a truncation")
            else:
                # every path to the enumeration with a non-None limit <= 0 must take the early return:
                # the call's path condition must exclude (limit not None and limit <= 0)
                tr = logic.Translator(lambda e: text(e), numeric={"solution_limit"})
                fs = []
                for test, pol, b in fm.facts(cn):
                    ff = tr.f(test)
                    fs.append(ff if pol else logic.Not(ff))
                pc = logic.And(*fs)
                bad = logic.And(logic.Not(logic.B("none:solution_limit")), logic.Le("solution_limit", "0"))
                if logic.satisfiable(logic.And(pc, bad)):
                    probs.append("the enumeration can still be reached with a limit <= 0")
        ck.ob("T3", fm, f.node, not probs, "; ".join(probs) if probs else "limit <= 0 returns the empty list before enumerating",
              key=f"{q} zero limit")
        # the async loop stops when the callback returns False
        am = prog.fm(TRAP, asyncq)
        probs = []
        loops = [n for n in own_walk(am.f.node) if isinstance(n, ast.For) and "iterator" in text(n.iter)]
        if len(loops) != 1:
            probs.append("model loop not found")
        else:
            lp = loops[0]
            brk = [n for n in ast.walk(lp) if isinstance(n, ast.Break)]
            okb = False
            for b in brk:
                for test, pol, bn in am.facts(am.cfgn(b)):
                    t, p = test, pol
                    while isinstance(t, ast.UnaryOp) and isinstance(t.op, ast.Not):
                        t, p = t.operand, not p
                    if isinstance(t, ast.Call) and callee_name(t) == "on_solution" and not p:
                        okb = True
            if not okb:
                probs.append("the model loop does not stop when the callback returns False: limits are ignored")
            cont = [n for n in ast.walk(lp) if isinstance(n, (ast.Continue,))]
            if cont:
                probs.append("some models are skipped")
        ck.ob("T3", am, loops[0] if loops else am.f.node, not probs, "; ".join(probs) if probs else
              "every model is decoded and passed on; enumeration stops on the callback's request", key=f"{asyncq} loop")


# ------------------------------------------------------------------------------------------ T4
def _pc_atoms(fm: FuncModel, n, scope: ast.AST | None):
    """Path condition (text atoms) restricted to tests inside `scope` (e.g. the function body)."""
    tr = logic.Translator(lambda e: text(e))
    fs = []
    for test, pol, b in fm.facts(n):
        if b.loop is not None:
            continue
        f = tr.f(test)
        fs.append(f if pol else logic.Not(f))
    return logic.And(*fs)


def _tmpl(c: ast.Call) -> str:
    a = c.args[-1] if c.args else None
    if isinstance(a, ast.JoinedStr):
        out = ""
        for x in a.values:
            out += x.value if isinstance(x, ast.Constant) else "{" + text(x.value) + "}"
        return out
    if isinstance(a, ast.Constant):
        return str(a.value)
    return text(a) if a is not None else ""


def t4(ck: Check) -> None:
    prog = ck.prog
    P_MAX = logic.B("eq:'max'|problem")
    P_FIX = logic.B("eq:'fix'|problem")
    FREE = logic.Lt("0", "len(free_places)")
    REV = logic.B("T:reverse_time")
    KP = logic.B("eq:'place'|kind")
    KT = logic.B("eq:'transition'|kind")
    # ---- trap-space encoder
    fm = prog.fm(TRAP, "_create_clingo_constraints")
    table = [
        (r"^\{\{p_name\}\}\.$", logic.TRUE, "choice of the positive place"),
        (r"^\{\{n_name\}\}\.$", logic.TRUE, "choice of the negative place"),
        (r"^:- \{p_name\}, \{n_name\}\.$", logic.TRUE, "consistency (not both places)"),
        (r"^\{p_name\} ; \{n_name\}\.$", P_FIX, "totality (fixed points only)"),
        (r"^\{variable_to_place\(fixed_var, positive\)\}\.$", logic.TRUE, "ensure_subspace fact"),
        (r"^:- \{fixed_vars\}\.$", logic.TRUE, "avoid_subspaces constraint"),
        (r"^\{p_disjunction\} :- \{successor\}\.$",
         logic.And(logic.Not(KP), KT, logic.Not(REV), logic.Not(logic.B("in:successor|predecessors"))), "siphon rule"),
        (r"^\{s_disjunction\} :- \{predecessor\}\.$",
         logic.And(logic.Not(KP), KT, REV, logic.Not(logic.B("in:predecessor|successors"))), "trap rule"),
        (r"^\{max_condition\}\.$", logic.And(P_MAX, FREE), "non-triviality (max only)"),
        (r"^\{variable_to_place\(variable, True\)\}; \{variable_to_place\(variable, False\)\}\.$",
         logic.And(P_MAX, FREE, logic.Not(logic.B("in:variable|ensure_subspace"))), "source variable fixed (max only)"),
    ]
    _check_adds(ck, fm, table)
    # free places = places of variables not in ensure_subspace
    f = fm.f
    app = [n for n in own_walk(f.node) if isinstance(n, ast.Call) and isinstance(n.func, ast.Attribute) and n.func.attr == "append"
           and text(n.func.value) == "free_places"]
    probs = []
    if len(app) != 1:
        probs.append("free_places is filled at an unexpected number of sites")
    else:
        pc = _pc_atoms(fm, fm.cfgn(app[0]), None)
        want = logic.And(KP, logic.Not(logic.B("in:place_to_variable(node)[0]|ensure_subspace")))
        if not logic.equivalent(pc, want):
            probs.append(f"a place counts as free under `{logic.show(pc)}`, expected: place of a variable outside ensure_subspace "
                         f"(otherwise the non-triviality clause is satisfied by the enclosing space itself, or real sub-spaces "
                         f"are excluded)")
        if text(app[0].args[0]) != "node":
            probs.append("free_places does not collect the place itself")
    mc = [n for n in own_walk(f.node) if isinstance(n, ast.Assign) and text(n.targets[0]) == "max_condition"]
    if not mc or "free_places" not in text(mc[0].value) or "; " not in text(mc[0].value):
        probs.append("non-triviality clause is not the disjunction of the free places")
    ck.ob("T4", fm, app[0] if app else f.node, not probs, "; ".join(probs) if probs else
          "free places = places of variables outside ensure_subspace; non-triviality = their disjunction", key="free places")
    # avoid clause ranges over all literals
    _check_avoid_comp(ck, fm)
    # loops range over everything
    _check_loops(ck, fm, {"variables": "every variable gets its places", "ensure_subspace": "every ensured variable",
                          "avoid_subspaces": "every avoided space", "optimize_source_variables": "every source variable"})
    # ---- fixed-point encoder
    fp = prog.fm(TRAP, "_create_clingo_fixed_point_constraints")
    NE = logic.Lt("0", "len(to_avoid)")
    table2 = [
        (r"^\{\{p_name\}\}\.$", logic.TRUE, "choice of the positive place"),
        (r"^\{\{n_name\}\}\.$", logic.TRUE, "choice of the negative place"),
        (r"^:- \{p_name\}, \{n_name\}\.$", logic.TRUE, "consistency"),
        (r"^\{p_name\} ; \{n_name\}\.$", logic.TRUE, "totality"),
        (r"^:- \{pred_rhs\}\.$", logic.And(logic.Not(KP), KT), "no transition enabled"),
        (r"^\{place_name\}\.$", logic.TRUE, "ensure_subspace fact"),
        (r"^:- \{fixed_vars\}\.$", NE, "avoid_subspaces constraint"),
        (r"^#false\.$", logic.Not(NE), "empty avoided space excludes everything"),
    ]
    _check_adds(ck, fp, table2)
    _check_avoid_comp(ck, fp)
    _check_loops(ck, fp, {"variables": "every variable gets its places", "ensure_subspace": "every ensured variable",
                          "avoid_subspaces": "every avoided space"})
    pr = [n for n in own_walk(fp.f.node) if isinstance(n, ast.Assign) and text(n.targets[0]) == "pred_rhs"]
    okp = bool(pr) and "preds" in text(pr[0].value) and "; " in text(pr[0].value)
    pd = [n for n in own_walk(fp.f.node) if isinstance(n, ast.Assign) and text(n.targets[0]) == "preds"]
    okp = okp and bool(pd) and ".predecessors(node)" in text(pd[0].value)
    ck.ob("T4", fp, pr[0] if pr else fp.f.node, okp, "deadlock clause = disjunction... negated conjunction of all input places" if okp else
          "the 'no transition enabled' clause is not built from all predecessors of the transition", key="deadlock clause")


def _check_adds(ck: Check, fm: FuncModel, table) -> None:
    f = fm.f
    seen = set()
    for c in own_walk(f.node):
        if not (isinstance(c, ast.Call) and isinstance(c.func, ast.Attribute) and c.func.attr == "add" and text(c.func.value) == "ctl"):
            continue
        t = _tmpl(c)
        row = next((r for r in table if re.match(r[0], t)), None)
        if row is None:
            ck.ob("T4", fm, f.stmt_of(c), False, f"clause `{t}` is not part of the encoding (unrecognised ctl.add)")
            continue
        seen.add(row[0])
        pc = _pc_atoms(fm, fm.cfgn(c), None)
        try:
            ok = logic.equivalent(pc, row[1])
        except logic.TooBig:
            ok = False
        ck.ob("T4", fm, f.stmt_of(c), ok, f"{row[2]}: emitted exactly when required" if ok else
              f"{row[2]} (`{t}`) is emitted under `{logic.show(pc)}`, the encoding requires `{logic.show(row[1])}`")
    for r in table:
        if r[0] not in seen:
            ck.ob("T4", fm, f.node, False, f"the encoding no longer emits: {r[2]}", key=f"missing {r[2]}")


def _check_avoid_comp(ck: Check, fm: FuncModel) -> None:
    comps = [n for n in own_walk(fm.f.node) if isinstance(n, ast.Assign) and text(n.targets[0]) == "fixed_list"]
    probs = []
    if len(comps) != 1 or not isinstance(comps[0].value, ast.ListComp):
        probs.append("avoid clause literals not built by one comprehension")
    else:
        lc = comps[0].value
        g = lc.generators[0]
        if g.ifs:
            probs.append("some literals of an avoided space are dropped (filtered comprehension): the avoided region grows")
        if text(g.iter) != "to_avoid":
            probs.append(f"literals range over `{text(g.iter)}`")
        else:
            at = fm.cfgn(comps[0])
            for d in fm.cfg.reaching_defs("to_avoid", at):
                if not (d.kind == "for" and text(d.ast.iter) == "avoid_subspaces"):
                    probs.append(f"line {d.lineno}: the avoided space is rewritten before its constraint is built "
                                 f"(`{text(d.ast)[:60] if d.ast is not None else ''}`): a different region is excluded")
            for d in fm.cfg.reaching_defs("avoid_subspaces", at):
                ok = d.kind == "entry" or (d.kind == "stmt" and isinstance(d.ast, ast.Assign) and is_empty_list(d.ast.value))
                if not ok:
                    probs.append(f"line {d.lineno}: the list of avoided spaces is rewritten")
        if not (isinstance(lc.elt, ast.Call) and callee_name(lc.elt) == "variable_to_place" and text(lc.elt.args[0]) == text(g.target)):
            probs.append("literal is not the place of the avoided variable")
    j = [n for n in own_walk(fm.f.node) if isinstance(n, ast.Assign) and text(n.targets[0]) == "fixed_vars"]
    if not j or "', '.join(fixed_list)" not in text(j[0].value):
        probs.append("literals are not conjoined with ', '")
    ck.ob("T4", fm, comps[0] if comps else fm.f.node, not probs, "; ".join(probs) if probs else
          "avoid constraint = conjunction of all literals of the avoided space", key="avoid literals")


def _check_loops(ck: Check, fm: FuncModel, iters: dict) -> None:
    for n in own_walk(fm.f.node):
        if isinstance(n, ast.For):
            it = text(n.iter)
            base = it.replace(".items()", "")
            if base in iters:
                skips = [s for s in ast.walk(n) if isinstance(s, (ast.Continue, ast.Break))]
                bad = []
                for s in skips:
                    if isinstance(s, ast.Break):
                        # allowed only after #false
                        prev = [c for c in ast.walk(n) if isinstance(c, ast.Call) and _tmpl(c) == "#false." and c.lineno < s.lineno]
                        if prev:
                            continue
                    bad.append(s.lineno)
                ck.ob("T4", fm, n, not bad, iters[base] if not bad else
                      f"the loop over `{base}` skips elements (line {bad})", key=f"for over {base}")
