"""Machinery shared by the rule sets: growth model (wrappers), fresh diagrams, iteration
regions, path obligations."""

from __future__ import annotations

import ast
from dataclasses import dataclass
from typing import Iterable

from ..cfg import N
from ..program import FieldEvent, FuncModel, GrowthEvent, Program, call_arg
from ..repo import AnalysisError, Func, dotted, own_walk, text

SD_MOD = "biobalm.succession_diagram"
ATTR_FIELDS = ("attractor_seeds", "attractor_sets", "attractor_candidates")
FRESH_MAKERS = {"component_subdiagram", "SuccessionDiagram", "from_rules", "from_file"}


def is_none(e: ast.AST | None) -> bool:
    return isinstance(e, ast.Constant) and e.value is None


def is_true(e: ast.AST | None) -> bool:
    return isinstance(e, ast.Constant) and e.value is True


def is_false(e: ast.AST | None) -> bool:
    return isinstance(e, ast.Constant) and e.value is False


def is_empty_list(e: ast.AST | None) -> bool:
    return isinstance(e, ast.List) and not e.elts


def callee_name(c: ast.Call) -> str:
    if isinstance(c.func, ast.Name):
        return c.func.id
    if isinstance(c.func, ast.Attribute):
        return c.func.attr
    return ""


def fresh_diagrams(fm: FuncModel) -> set[str]:
    """Local names bound (only) to diagrams created in this function."""
    out: set[str] = set()
    bad: set[str] = set()
    for n in own_walk(fm.f.node):
        if isinstance(n, ast.Assign):
            for t in n.targets:
                if isinstance(t, ast.Name):
                    v = n.value
                    if isinstance(v, ast.Call) and callee_name(v) in FRESH_MAKERS:
                        out.add(t.id)
                    else:
                        bad.add(t.id)
    return out - bad - set(fm.f.params())


@dataclass
class Growth:
    fm: FuncModel
    cfgn: N
    stmt: ast.stmt
    call: ast.Call
    diag_expr: ast.expr
    parent_expr: ast.expr
    via: str  # primitive or wrapper name
    resets: bool = False  # the wrapper discards the parent's attractor data itself when the parent is not expanded yet


class GrowthModel:
    """Growth events (a node gains an out-edge), including calls of *primitive wrappers*:
    functions that perform a growth event on a parent that is one of their own parameters and
    that neither finalise (`expanded`) nor touch attractor data of that parent themselves
    (today: `_ensure_edge`, `_ensure_node`)."""

    def __init__(self, prog: Program):
        self.prog = prog
        # wrapper key -> (index of diagram param or -1 for receiver, parent param name, parent index)
        self.wrappers: dict[str, tuple[str, int]] = {}
        self.resetting: set[str] = set()   # wrappers with a guarded full reset in front of their growth event
        self._compute()

    def _direct(self, fm: FuncModel) -> list[Growth]:
        out = []
        for n in own_walk(fm.f.node):
            if isinstance(n, ast.Call) and isinstance(n.func, ast.Attribute):
                d = dotted(n.func) or ""
                if d.endswith("dag.add_edge") and n.args:
                    out.append(Growth(fm, fm.cfgn(n), fm.f.stmt_of(n), n, n.func.value.value, n.args[0], "dag.add_edge"))
        return out

    def _wrapper_calls(self, fm: FuncModel) -> list[Growth]:
        out = []
        for n in own_walk(fm.f.node):
            if not isinstance(n, ast.Call):
                continue
            tgt = self.prog.repo.resolve_call(fm.f, n)
            if tgt in self.wrappers:
                pname, pidx = self.wrappers[tgt]
                callee = self.prog.repo.functions[tgt]
                is_method = callee.cls is not None and callee.params()[:1] == ["self"]
                if is_method and isinstance(n.func, ast.Attribute):
                    diag = n.func.value
                    parent = call_arg(n, pidx - 1, pname)
                else:
                    diag = n.args[0] if n.args else None
                    parent = call_arg(n, pidx, pname)
                if parent is None or diag is None or is_none(parent):
                    continue
                out.append(Growth(fm, fm.cfgn(n), fm.f.stmt_of(n), n, diag, parent, callee.name, tgt in self.resetting))
        return out

    def events(self, fm: FuncModel) -> list[Growth]:
        return self._direct(fm) + self._wrapper_calls(fm)

    def _compute(self) -> None:
        changed = True
        while changed:
            changed = False
            for fm in self.prog.models():
                if fm.f.key in self.wrappers:
                    continue
                params = fm.f.params()
                for g in self.events(fm):
                    if isinstance(g.parent_expr, ast.Name) and g.parent_expr.id in params:
                        # parameter must not be rebound in the function
                        p = g.parent_expr.id
                        rebound = any(isinstance(x, ast.Name) and x.id == p and isinstance(x.ctx, ast.Store)
                                      for x in own_walk(fm.f.node))
                        if rebound:
                            continue
                        touched = [e for e in fm.field_events() if e.kind == "store" and e.nid == p
                                   and (e.field == "expanded" or e.field in ATTR_FIELDS)]
                        resets = g.resets
                        if touched:
                            # the one accepted exception: the wrapper discards all attractor data of the parent under the
                            # guard "parent not expanded yet", on every such path to its growth event
                            from .. import logic
                            okr = not any(e.field == "expanded" for e in touched)
                            for e in touched:
                                pc = fm.pc(e.cfgn)
                                ga = logic.B(f"T:FIELD<{e.diag}|{p}|expanded>")
                                if not (is_none(e.value) and ga[1] in logic.atoms(pc) and logic.implies(pc, logic.Not(ga))):
                                    okr = False
                            if okr:
                                exp_true = []
                                for bnode in fm.cfg.nodes:
                                    if bnode.kind == "branch" and bnode.test is not None and bnode.id in fm.cfg.g:
                                        tn = fm.cfg.nodes[next(iter(fm.cfg.g.predecessors(bnode.id)))]
                                        ff = fm.formula(bnode.test, tn)
                                        ff = ff if bnode.pol else logic.Not(ff)
                                        ats = logic.atoms(ff)
                                        if len(ats) == 1 and next(iter(ats))[1].endswith(f"|{p}|expanded>") and \
                                                logic.implies(ff, ("atom", next(iter(ats)))):
                                            exp_true.append(bnode)
                                for fld in ATTR_FIELDS:
                                    cuts = [e.cfgn for e in touched if e.field == fld] + exp_true
                                    if g.cfgn.id in fm.cfg.reach_avoiding(fm.cfg.entry, cuts):
                                        okr = False
                            if not okr:
                                continue
                            resets = True
                        self.wrappers[fm.f.key] = (p, params.index(p))
                        if resets:
                            self.resetting.add(fm.f.key)
                        changed = True
                        break


def region_of(fm: FuncModel, at: N, exprs: Iterable[ast.AST]) -> ast.AST | None:
    """Innermost loop enclosing `at` inside which a free name of the (canonical) expressions is
    (re)bound: the handle then denotes one node per iteration.  None = whole function."""
    names: set[str] = set()
    for e in exprs:
        c = fm.canon_ast(e, at)
        names |= {n.id for n in ast.walk(c) if isinstance(n, ast.Name)}
    for loop in fm.cfg.enclosing_loops(at):
        ids = fm.cfg.loop_nodes[loop]
        for i in ids:
            n = fm.cfg.nodes[i]
            if n.kind == "branch":
                continue
            if fm.cfg.defs_of(n) & names:
                return loop
    return None


def reach_stop(fm: FuncModel, src: N, cuts: set[int], stops: set[int]) -> set[int]:
    """Nodes reachable from src (>= 1 edge) without passing through `cuts`; traversal does not
    continue past `stops` (they are reported when reached)."""
    g = fm.cfg.g
    seen: set[int] = set()
    todo = [s for s in g.successors(src.id)]
    while todo:
        i = todo.pop()
        if i in seen or i in cuts:
            continue
        seen.add(i)
        if i in stops:
            continue
        todo.extend(g.successors(i))
    return seen


def escapes(fm: FuncModel, at: N, cuts: Iterable[N], loop: ast.AST | None,
            need_pre: bool = True) -> str | None:
    """Is there a path  region-start -> at -> region-end  that passes none of `cuts`?
    Returns a description of the escaping path's end, or None if every such path is cut.
    region = body of `loop` (one iteration) or the whole function; exceptional exits are not ends."""
    cfg = fm.cfg
    cut_ids = {c.id for c in cuts}
    if at.id in cut_ids:
        return None
    if loop is not None:
        header = cfg.loop_header[loop]
        start = next(cfg.nodes[s] for s in cfg.g.successors(header.id)
                     if cfg.nodes[s].kind == "branch" and cfg.nodes[s].pol)
        stops = {header.id, cfg.exit.id}
    else:
        start = cfg.entry
        stops = {cfg.exit.id}
    if need_pre and start is not at:
        pre = reach_stop(fm, start, cut_ids, stops)
        if at.id not in pre:
            return None
    post = reach_stop(fm, at, cut_ids, stops)
    hit = post & stops
    if not hit:
        return None
    ends = []
    for i in sorted(hit):
        n = cfg.nodes[i]
        if n is cfg.exit:
            rets = [cfg.nodes[p] for p in cfg.g.predecessors(i) if p in post or p == at.id]
            ends.append("function exit" + (f" (via line {rets[0].lineno})" if rets and rets[0].lineno else ""))
        else:
            ends.append(f"next iteration of the loop at line {n.lineno}")
    return "; ".join(ends)


def earlier_sweeps(fm: FuncModel, loop: ast.AST | None) -> list[ast.For]:
    """Loops that ran to completion before `loop` over the very same collection: `for x in L: A(x)` ... `for y in L: B(y)`
    with L a local bound once to a fresh list (list(..), sorted(..), a comprehension) and not changed in between. What
    the first loop does to every element has been done to the element the second loop is looking at."""
    if not isinstance(loop, ast.For) or not isinstance(loop.iter, ast.Name) or not isinstance(loop.target, ast.Name):
        return []
    L = loop.iter.id
    hdr2 = fm.cfg.loop_header[loop]
    defs2 = fm.cfg.reaching_defs(L, hdr2)
    if len(defs2) != 1 or defs2[0].kind != "stmt" or not isinstance(defs2[0].ast, ast.Assign):
        return []
    v = defs2[0].ast.value
    fresh = isinstance(v, (ast.List, ast.ListComp)) or isinstance(v, ast.Call) and isinstance(v.func, ast.Name) \
        and v.func.id in ("list", "sorted", "tuple")
    if not fresh:
        return []
    out = []
    par = fm.f.parents.get(loop)
    for fld in ("body", "orelse", "finalbody"):
        blk = getattr(par, fld, None)
        if not (isinstance(blk, list) and loop in blk):
            continue
        k = blk.index(loop)
        for st in blk[:k]:
            if not (isinstance(st, ast.For) and isinstance(st.iter, ast.Name) and st.iter.id == L and isinstance(st.target, ast.Name)
                    and not st.orelse):
                continue
            if [d.id for d in fm.cfg.reaching_defs(L, fm.cfg.loop_header[st])] != [defs2[0].id]:
                continue
            if any(isinstance(b, ast.Break) and fm.cfg.enclosing_loops(fm.cfgn(b))[0] is st for b in ast.walk(st)):
                continue
            # the list is not changed from the first loop on
            touched = False
            for s2 in blk[blk.index(st):k + 1]:
                for y in ast.walk(s2):
                    if isinstance(y, ast.Call) and isinstance(y.func, ast.Attribute) and isinstance(y.func.value, ast.Name) \
                            and y.func.value.id == L and y.func.attr not in ("copy", "index", "count"):
                        touched = True
                    if isinstance(y, ast.Subscript) and isinstance(y.ctx, (ast.Store, ast.Del)) and isinstance(y.value, ast.Name) \
                            and y.value.id == L:
                        touched = True
                    if isinstance(y, ast.Name) and y.id == L and isinstance(y.ctx, (ast.Store, ast.Del)):
                        touched = True
            if not touched:
                out.append(st)
    return out


def swept_reset(fm: FuncModel, loop: ast.AST | None, diag_key: str, field: str, is_reset) -> bool:
    """Was `field` of every element of the collection `loop` ranges over reset by an earlier complete sweep?"""
    for l1 in earlier_sweeps(fm, loop):
        hk1 = None
        for e in fm.field_events():
            if e.kind == "store" and e.field == field and e.hk[0] == diag_key and fm.cfg.loop_header[l1].id != e.cfgn.id \
                    and e.cfgn.id in fm.cfg.loop_nodes[l1] and is_reset(e.value):
                # the handle must be the sweep's own element
                if e.hk[1] == fm.vkey(ast.Name(l1.target.id, ast.Load()), e.cfgn):
                    hk1 = e.hk
        if hk1 is None:
            continue
        cuts = [e.cfgn for e in handle_stores(fm, hk1, field) if is_reset(e.value)]
        hdr = fm.cfg.loop_header[l1]
        start = next(fm.cfg.nodes[s_] for s_ in fm.cfg.g.successors(hdr.id)
                     if fm.cfg.nodes[s_].kind == "branch" and fm.cfg.nodes[s_].pol)
        reach = reach_stop(fm, start, {c.id for c in cuts}, {hdr.id, fm.cfg.exit.id})
        if start.id not in {c.id for c in cuts} and hdr.id in reach:
            continue        # an iteration can end without the reset
        return True
    return False


def handle_stores(fm: FuncModel, hk: tuple, field: str) -> list[FieldEvent]:
    return [e for e in fm.field_events() if e.kind == "store" and e.field == field and e.hk == hk]


def expanded_assertions(fm: FuncModel, hk: tuple, value: bool = True, field: str = "expanded") -> list[N]:
    """Branch nodes on which the `expanded` (or another Boolean) field of the handle is known to be `value`."""
    global _ASSERT_FIELD
    _ASSERT_FIELD = field
    try:
        return _field_assertions(fm, hk, value)
    finally:
        _ASSERT_FIELD = "expanded"


_ASSERT_FIELD = "expanded"


def _field_assertions(fm: FuncModel, hk: tuple, value: bool) -> list[N]:
    out = []
    for b in fm.cfg.nodes:
        if b.kind != "branch" or b.test is None or b.id not in fm.cfg.g:
            continue
        tnode = fm.cfg.nodes[next(iter(fm.cfg.g.predecessors(b.id)))]
        pol = _expanded_polarity(fm, b.test, tnode, hk)
        if pol is None:
            # a conjunct of a test that was taken / a disjunct of one that was not: `if flag and not node["expanded"]:`
            t = b.test
            parts = t.values if isinstance(t, ast.BoolOp) and ((isinstance(t.op, ast.And) and b.pol) or (isinstance(t.op, ast.Or) and not b.pol)) else []
            for part in parts:
                p2 = _expanded_polarity(fm, part, tnode, hk)
                if p2 is not None and (p2 == b.pol) == value:
                    out.append(b)
                    break
            continue
        if (pol == b.pol) == value:
            out.append(b)
    return out


def _expanded_polarity(fm: FuncModel, test: ast.expr, at: N, hk: tuple) -> bool | None:
    """If `test` is (not)* H["expanded"] for the handle hk: the polarity under which expanded is
    True when the test is True."""
    pol = True
    e = test
    while isinstance(e, ast.UnaryOp) and isinstance(e.op, ast.Not):
        pol = not pol
        e = e.operand
    if isinstance(e, ast.Name):
        sd = fm.single_def(e.id, at)
        if sd is None or fm.stale(sd[0], at, sd[1]):
            return None
        r = _expanded_polarity(fm, sd[1], sd[0], hk)
        return None if r is None else (r == pol)
    if isinstance(e, ast.Subscript) and isinstance(e.slice, ast.Constant) and e.slice.value == _ASSERT_FIELD:
        if fm.hkey(e.value, at) == hk:
            return pol
    return None


def require(cond: bool, msg: str) -> None:
    if not cond:
        raise AnalysisError(msg)


# --------------------------------------------------------------------------- path enumeration
def enumerate_paths(fm: FuncModel, start: N, target: N, stop: set[int] | None = None, budget: int = 3000):
    """Simple paths start -> target (start not revisited, no node twice).  Yields lists of node ids
    (excluding start, including target).  Raises AnalysisError when the budget is exhausted."""
    g = fm.cfg.g
    stop = stop or set()
    # prune: only nodes from which target is reachable
    can = fm.cfg.can_reach_avoiding(target, [start]) | {target.id}
    count = [0]

    def rec(i, path, seen):
        if i == target.id:
            count[0] += 1
            if count[0] > budget:
                raise AnalysisError("path enumeration budget exhausted")
            yield list(path)
            return
        if i in stop:
            return
        for s in g.successors(i):
            if s in seen or s not in can or s == start.id:
                continue
            path.append(s)
            seen.add(s)
            yield from rec(s, path, seen)
            seen.discard(s)
            path.pop()

    for s in g.successors(start.id):
        if s in can:
            yield from rec(s, [s], {start.id, s})


def paths_imply(fm: FuncModel, start: N, target: N, goal, translator, names_killing=None, stop: set[int] | None = None,
                canon: bool = False) -> str | None:
    """On every simple path start -> target (avoiding `stop`) the branch conditions taken (those not invalidated
    by a later write on the path to a location they read) imply `goal`.  Returns None if so, else a description
    of a path on which the goal does not follow."""
    from .. import logic
    for path in enumerate_paths(fm, start, target, stop):
        facts = []  # (formula, reads)
        for i in path[:-1] if path and path[-1] == target.id else path:
            n = fm.cfg.nodes[i]
            w = fm.node_writes(n) if n.kind in ("stmt", "test", "for") else set()
            if w:
                facts = [(f, r) for f, r in facts if not (r & {x.partition("@")[0] for x in w} or r & w)]
            if n.kind == "stmt" and isinstance(n.ast, ast.Assign) and len(n.ast.targets) == 1 and isinstance(n.ast.targets[0], ast.Name) \
                    and isinstance(n.ast.value, ast.Constant) and isinstance(n.ast.value.value, bool):
                # a Boolean flag set on the path is a fact until the flag is written again
                fl = logic.B("T:" + n.ast.targets[0].id)
                facts.append((fl if n.ast.value.value else logic.Not(fl), {n.ast.targets[0].id}))
            elif n.kind == "stmt" and isinstance(n.ast, ast.Assign) and len(n.ast.targets) == 1 and isinstance(n.ast.targets[0], ast.Name) \
                    and (isinstance(n.ast.value, (ast.Constant, ast.List, ast.Dict, ast.Set, ast.Tuple, ast.ListComp, ast.SetComp, ast.DictComp))):
                # `x = None` / `x = []` on the path decides later `x is None` tests
                fl = logic.B("none:" + n.ast.targets[0].id)
                isnone = isinstance(n.ast.value, ast.Constant) and n.ast.value.value is None
                facts.append((fl if isnone else logic.Not(fl), {n.ast.targets[0].id}))
            if n.kind == "branch" and n.test is not None:
                if canon:
                    tnode = fm.cfg.nodes[next(iter(fm.cfg.g.predecessors(n.id)))]
                    f = fm.translator(tnode).f(n.test)
                    reads = {r for r in fm.reads_deep(n.test, tnode) if not r.startswith(("F:", "*"))} | \
                        {r.partition("@")[0] for r in fm.reads_deep(n.test, tnode) if r.startswith("F:")}
                else:
                    f = translator.f(n.test)
                    reads = {x.id for x in ast.walk(n.test) if isinstance(x, ast.Name)}
                facts.append((f if n.pol else logic.Not(f), reads))
        hyp = logic.And(*[f for f, _ in facts])
        try:
            if not logic.implies(hyp, goal):
                lines = [fm.cfg.nodes[i].lineno for i in path if fm.cfg.nodes[i].kind == "branch"]
                return f"path through lines {lines[:8]} (conditions: {logic.show(hyp)[:160]})"
        except logic.TooBig:
            return "path condition too large to decide"
    return None


# --------------------------------------------------------------------------- traversal drivers (shared by C03/C13/C19)
ORDER_WRAPPERS = {"sorted", "list", "reversed", "tuple"}


def unwrap_order(e: ast.AST) -> ast.AST:
    """Strip wrappers that only reorder / copy a sequence (no element is lost)."""
    while isinstance(e, ast.Call) and callee_name(e) in ORDER_WRAPPERS and e.args and isinstance(e.func, ast.Name):
        e = e.args[0]
    return e


def _elt_is(x: ast.AST, v: str) -> bool:
    if isinstance(x, ast.Name) and x.id == v:
        return True
    return isinstance(x, ast.Tuple) and bool(x.elts) and isinstance(x.elts[0], ast.Name) and x.elts[0].id == v


def schedule_nodes(fm: FuncModel, region: ast.AST, v: str, exclude: set[str] = frozenset()) -> list[N]:
    """CFG nodes inside `region` that put the value named `v` -- or a tuple (frame) starting with it -- into a
    container: C.append(v), C.appendleft(v), C.add(v), C.insert(i, v), C.extend([.., v, ..]), C += [.., (v, ..), ..].
    Containers named in `exclude` (the seen set) do not count."""
    out = []
    for x in ast.walk(region):
        hit = False
        if isinstance(x, ast.Call) and isinstance(x.func, ast.Attribute) and isinstance(x.func.value, ast.Name) \
                and x.func.value.id not in exclude and x.args:
            m = x.func.attr
            if m in ("append", "appendleft", "add") and _elt_is(x.args[0], v):
                hit = True
            elif m == "insert" and len(x.args) == 2 and _elt_is(x.args[1], v):
                hit = True
            elif m in ("extend", "extendleft", "update") and isinstance(x.args[0], (ast.List, ast.Tuple, ast.Set)) \
                    and any(_elt_is(e, v) for e in x.args[0].elts):
                hit = True
        elif isinstance(x, ast.AugAssign) and isinstance(x.op, ast.Add) and isinstance(x.target, ast.Name) \
                and x.target.id not in exclude and isinstance(x.value, (ast.List, ast.Tuple)) \
                and any(_elt_is(e, v) for e in x.value.elts):
            hit = True
        if hit:
            try:
                out.append(fm.cfgn(x))
            except Exception:  # noqa
                pass
    return out


def frame_pushes(fm: FuncModel, region: ast.AST, cur: str, lst: str) -> list[N]:
    """CFG nodes that push the frame (cur, lst) back on a stack."""
    out = []
    for x in ast.walk(region):
        els = []
        if isinstance(x, ast.Call) and isinstance(x.func, ast.Attribute) and x.args:
            if x.func.attr in ("append", "appendleft"):
                els = [x.args[0]]
            elif x.func.attr == "extend" and isinstance(x.args[0], (ast.List, ast.Tuple)):
                els = list(x.args[0].elts)
        elif isinstance(x, ast.AugAssign) and isinstance(x.op, ast.Add) and isinstance(x.value, (ast.List, ast.Tuple)):
            els = list(x.value.elts)
        for e in els:
            if isinstance(e, ast.Tuple) and len(e.elts) == 2 and text(e.elts[0]) == cur and text(e.elts[1]) == lst:
                out.append(fm.cfgn(x))
    return out


def dom_pc_canon(fm: FuncModel, n: N, within=None, numeric=None):
    """Condition under which n is reached, as evaluated at the dominating tests, over canonical (alias-expanded) keys."""
    from .. import logic
    fs = []
    for b in fm.cfg.dominators(n):
        if b.kind != "branch" or b.test is None:
            continue
        if within is not None and b.id not in within:
            continue
        tnode = fm.cfg.nodes[next(iter(fm.cfg.g.predecessors(b.id)))]
        f = fm.translator(tnode, numeric=numeric).f(b.test)
        fs.append(f if b.pol else logic.Not(f))
    return logic.And(*fs)


def resolve_cached(fm, e: ast.AST, at) -> ast.AST:
    """The expression a local stands for, looking also through a value that is *remembered next to a chosen element*
    (`best = v; cache = (f(v), g(v))` ... `a, b = cache`): returns f(best). Anything else is returned unchanged."""
    e2 = fm.deref(e, at)
    if not isinstance(e2, ast.Name):
        return e2
    defs = fm.cfg.reaching_defs(e2.id, at)
    if len(defs) == 1 and defs[0].kind == "stmt" and isinstance(defs[0].ast, ast.Assign) and len(defs[0].ast.targets) == 1:
        tg, val = defs[0].ast.targets[0], defs[0].ast.value
        if isinstance(tg, ast.Tuple) and isinstance(val, ast.Name):
            idx = next((i for i, x in enumerate(tg.elts) if isinstance(x, ast.Name) and x.id == e2.id), None)
            pv = fm.paired_value(val.id, defs[0])
            if idx is not None and isinstance(pv, ast.Tuple) and idx < len(pv.elts):
                return pv.elts[idx]
        if isinstance(tg, ast.Name) and isinstance(val, ast.Subscript) and isinstance(val.value, ast.Name) \
                and isinstance(val.slice, ast.Constant) and isinstance(val.slice.value, int):
            pv = fm.paired_value(val.value.id, defs[0])
            if isinstance(pv, ast.Tuple) and 0 <= val.slice.value < len(pv.elts):
                return pv.elts[val.slice.value]
    pv = fm.paired_value(e2.id, at) if len(defs) > 1 else None
    return pv if pv is not None else e2
