"""C17 -- results do not depend on how the network is written down: only the 'solver-safe names' clause is decided."""

from __future__ import annotations

import ast
import re
import re._parser as sre_parse  # regex syntax trees (standard library)

from .. import logic
from ..program import FuncModel, call_arg
from ..report import Check
from ..repo import AnalysisError, dotted, own_walk, text
from .common import SD_MOD, callee_name, is_empty_list, is_false, is_none, is_true

PN = "biobalm.petri_net_translation"

EXPLANATION = (
    "Decides only the last sentence of the property ('name sanitization produces distinct, solver-safe names') plus two "
    "structural preconditions of presentation independence. (R) the pattern that accepts a name and the pattern that "
    "replaces characters are compared as regex syntax trees: the accepted class must be a set of explicit ASCII ranges "
    "within [A-Za-z0-9_] anchored at both ends with '+', and the replaced class must be exactly its complement (category "
    "escapes such as \\w match non-ASCII letters that clingo does not accept). (U) uniqueness: a clash is retried with a "
    "strictly longer name until the network accepts it (termination is C13), the renaming works on a copy, and in "
    "check-only mode nothing is renamed. (P) place names are '<lower-case prefix><variable>' so that every clingo symbol "
    "starts with a lower-case letter, and network_to_petrinet refuses unsanitised names. (O) index hygiene: wherever a "
    "Petri net is built with an explicit symbolic context, that context is derived from the same network object whose "
    "variables and update functions are read, or from a network obtained from it by order-preserving steps only "
    "(infer_valid_graph, copy; helper functions are summarised) -- AEON resolves variables by index, so mixing two "
    "orderings of the same network silently permutes the update functions. (S) decisions are taken on BDDs, not on the "
    "way a formula is written: nowhere in the package is the syntax tree of an update function or expression inspected "
    "(as_var / is_not / as_binary / support_variables ...); every function that reads an update function hands it to the "
    "symbolic context or to the BDD-based restriction. (I) one meaning for free inputs: a variable without update "
    "function is an input that keeps its value for the Petri net (no transition) but an unknown *constant* for AEON's "
    "symbolic graph (it may flip during reachability); cleanup_network, through which every network of a diagram passes, "
    "therefore gives every such variable the identity function, on the object it returns, on every path. (K) the keys of a "
    "diagram's node index encode variable indices: every lookup in or store into X.node_indices uses a key computed by "
    "space_unique_key(space, X.network) for the same X, so that two diagrams of one network written in different variable "
    "orders are compared through their spaces (find_node), never through each other's keys. NOT decided and not claimed: isomorphism of the diagrams of "
    "renamed / reordered / re-encoded / re-formatted networks (these compare run-time results of transformed inputs)."
)
ASSUMPTIONS = [
    "clingo accepts identifiers [a-z][A-Za-z0-9_]*",
    "BooleanNetwork.set_variable_name raises on a name clash",
]


def run(ck: Check) -> None:
    r(ck)
    u(ck)
    p(ck)
    o(ck)
    s_(ck)
    i_(ck)
    k(ck)
    ck.floor("K", 4)
    ck.floor("I", 3)
    ck.floor("S", 3)
    ck.floor("R", 1)
    ck.floor("U", 1)
    ck.floor("P", 2)
    ck.floor("O", 1)


def _charset(items, flags) -> tuple[set[int], bool] | None:
    """Characters (ASCII only) matched by the items of an IN node, and whether it is negated."""
    out: set[int] = set()
    neg = False
    for op, av in items:
        name = str(op)
        if name == "NEGATE":
            neg = True
        elif name == "LITERAL":
            out.add(av)
        elif name == "RANGE":
            lo, hi = av
            out |= set(range(lo, hi + 1))
        elif name == "CATEGORY":
            return None  # \w, \d, \s ...: Unicode-dependent
        else:
            return None
    return out, neg


_DOLLAR: set[str] = set()      # patterns whose end anchor is `$`


def _parse_class(pattern: str):
    """For a pattern of the form ^[...]+$ or [...] return (charset, negated, anchored, repeated)."""
    try:
        tree = sre_parse.parse(pattern)
    except Exception:
        return None
    import re as _re
    if tree.state.flags & ~int(_re.UNICODE):
        return ("flags", None, False, False)        # (?i), (?a), (?x) ... inside the pattern
    items = list(tree)
    anchored = False
    if len(items) >= 2 and str(items[0][0]) == "AT" and str(items[-1][0]) == "AT":
        # `$` (AT_END) also matches before a trailing newline: only \Z (AT_END_STRING) anchors at the end of the name
        anchored = str(items[0][1]) in ("AT_BEGINNING", "AT_BEGINNING_STRING") and str(items[-1][1]) == "AT_END_STRING"
        if str(items[-1][1]) == "AT_END":
            _DOLLAR.add(pattern)
        items = items[1:-1]
    elif len(items) >= 1 and str(items[-1][0]) == "AT" and str(items[-1][1]) == "AT_END_STRING":
        anchored = True            # re.match anchors at the start by itself
        items = items[:-1]
    elif len(items) >= 1 and str(items[0][0]) == "AT" and str(items[0][1]) in ("AT_BEGINNING", "AT_BEGINNING_STRING"):
        items = items[1:]          # `^[..]+` under fullmatch
    if len(items) != 1:
        return None
    op, av = items[0]
    repeated = False
    if str(op) == "MAX_REPEAT":
        lo, hi, sub = av
        repeated = lo == 1 and str(hi) == "MAXREPEAT"
        sub = list(sub)
        if len(sub) != 1:
            return None
        op, av = sub[0]
    if str(op) == "IN":
        cs = _charset(av, 0)
        if cs is None:
            return ("category", None, anchored, repeated)
        return (cs[0], cs[1], anchored, repeated)
    if str(op) == "NOT_LITERAL":
        return ({av}, True, anchored, repeated)
    return None


SAFE = set(map(ord, "abcdefghijklmnopqrstuvwxyzABCDEFGHIJKLMNOPQRSTUVWXYZ0123456789_"))


def r(ck: Check) -> None:
    fm = ck.prog.fm(PN, "sanitize_network_names")
    f = fm.f
    # uses of regular expressions: re.match(P, s) / re.sub(P, r, s), or <compiled>.match(s) / <compiled>.sub(r, s) where the
    # compiled pattern is a module-level constant or a local
    consts: dict[str, ast.AST] = {}
    for st in fm.f.module.tree.body:
        if isinstance(st, ast.Assign) and len(st.targets) == 1 and isinstance(st.targets[0], ast.Name):
            consts[st.targets[0].id] = st.value

    def const_of(e, at):
        e = fm.deref(e, at)
        if isinstance(e, ast.Name) and e.id in consts:
            e = consts[e.id]
        return e

    uses = []   # (kind, pattern string, subject expr, replacement expr, flags?, call)
    for n in own_walk(f.node):
        if not isinstance(n, ast.Call):
            continue
        d_ = dotted(n.func) or ""
        at = fm.cfgn(n)
        if d_ in ("re.match", "re.fullmatch", "re.search", "re.sub") and n.args:
            pat = const_of(n.args[0], at)
            kind = d_[3:]
            rest_ = n.args[1:]
        elif isinstance(n.func, ast.Attribute) and n.func.attr in ("match", "fullmatch", "search", "sub"):
            comp = const_of(n.func.value, at)
            if not (isinstance(comp, ast.Call) and (dotted(comp.func) or "") == "re.compile" and comp.args):
                continue
            if len(comp.args) > 1 or comp.keywords:
                uses.append(("flags", None, None, None, n))
            pat = const_of(comp.args[0], at)
            kind = n.func.attr
            rest_ = n.args
        else:
            continue
        if not (isinstance(pat, ast.Constant) and isinstance(pat.value, str)):
            raise AnalysisError("anchor vanished: a regular expression of sanitize_network_names is not a string constant")
        if kind == "sub":
            uses.append(("sub", pat.value, rest_[1] if len(rest_) > 1 else None, rest_[0] if rest_ else None, n))
            if len(rest_) > 2 or n.keywords:
                uses.append(("flags", None, None, None, n))
        else:
            uses.append((kind, pat.value, rest_[0] if rest_ else None, None, n))
            if len(rest_) > 1 or n.keywords:
                uses.append(("flags", None, None, None, n))
    chk_u = [u_ for u_ in uses if u_[0] in ("match", "fullmatch", "search")]
    sub_u = [u_ for u_ in uses if u_[0] == "sub"]
    probs = []
    if len(chk_u) != 1 or len(sub_u) != 1:
        raise AnalysisError("anchor vanished: the two regular expressions of sanitize_network_names")
    if any(u_[0] == "flags" for u_ in uses):
        probs.append("regex flags change the meaning of the character classes")

    class _U:  # small adaptor so that the class analysis below reads the same for both spellings
        def __init__(self, u_):
            self.kind, self.pattern, self.subject, self.repl, self.call = u_
    chk, sub = [_U(chk_u[0])], [_U(sub_u[0])]
    cp = _parse_class(chk[0].pattern)
    sp = _parse_class(sub[0].pattern)
    full = chk[0].kind == "fullmatch"
    if (cp is not None and cp[0] == "flags") or (sp is not None and sp[0] == "flags"):
        probs.append("an inline regex flag changes the meaning of the character classes (with (?i) `[a-z]` also matches "
                     "non-ASCII letters that case-fold into it, e.g. U+212A KELVIN SIGN)")
    elif cp is None:
        probs.append(f"the acceptance pattern {chk[0].pattern!r} is not of the form ^[class]+$")
    elif cp[0] == "category":
        probs.append(f"the acceptance pattern {chk[0].pattern!r} uses a category escape (\\\\w, \\\\d ...): in Python these match "
                     f"non-ASCII letters and digits, which are not valid in clingo symbols")
    else:
        acc, neg, anchored, rep = cp
        if not full and chk[0].pattern in _DOLLAR:
            probs.append(f"the acceptance pattern {chk[0].pattern!r} ends in `$`, which also matches before a trailing newline: the "
                         f"name 'x\\n' is accepted next to 'x' and both become the same clingo symbol (use re.fullmatch or \\Z)")
        elif neg or not rep or not (anchored or full):
            probs.append("the acceptance pattern must match the whole name against a positive class (re.fullmatch('[..]+') or '[..]+\\Z')")
        elif not acc <= SAFE:
            probs.append(f"accepted characters {sorted(map(chr, acc - SAFE))} are not safe in clingo symbols")
        if sp is None:
            probs.append(f"the replacement pattern {sub[0].pattern!r} is not a single character class")
        elif sp[0] == "category":
            probs.append(f"the replacement pattern {sub[0].pattern!r} uses a category escape: characters that are 'word "
                         f"characters' in Unicode (Greek letters, superscripts) are not replaced")
        else:
            rs, rneg, _, _ = sp
            replaced_ascii = (set(range(128)) - rs) if rneg else rs
            if not neg and rep and replaced_ascii != set(range(128)) - acc:
                diff = sorted(map(chr, (replaced_ascii ^ (set(range(128)) - acc)) & set(range(32, 127))))
                probs.append(f"replaced and accepted classes are not complements (they differ on {diff}): a name can be rejected "
                             f"without being repaired, or repaired into a name that is rejected")
            if not rneg:
                probs.append("the replacement class is not a negated class: characters outside ASCII are not replaced")
        repl = sub[0].repl
        if not (isinstance(repl, ast.Constant) and isinstance(repl.value, str) and repl.value and all(ord(c) in acc for c in repl.value)):
            probs.append("the replacement text is not itself made of accepted characters")
        def _subject(u_):
            # the name under its own spelling: `name` for `name = network.get_variable_name(var)`
            return text(fm.deref(u_.subject, fm.cfgn(u_.call))) if u_.subject is not None else None
        if chk[0].subject is None or sub[0].subject is None or (
                text(chk[0].subject) != text(sub[0].subject) and _subject(chk[0]) != _subject(sub[0])):
            probs.append("the checked and the repaired string differ")
    ck.ob("R", fm, f.node, not probs, "; ".join(probs) if probs else "accepted class within [A-Za-z0-9_]; replaced class is its complement",
          key="regex classes")


def u(ck: Check) -> None:
    fm = ck.prog.fm(PN, "sanitize_network_names")
    f = fm.f
    probs = []
    cp = [n for n in own_walk(f.node) if isinstance(n, ast.Assign) and text(n.targets[0]) == f.params()[0] and "copy" in text(n.value)]
    if not cp:
        probs.append("names are changed in the caller's network (no copy)")
    rn = [n for n in own_walk(f.node) if isinstance(n, ast.Call) and callee_name(n) == "set_variable_name"]
    if len(rn) != 1:
        probs.append("renaming not found")
    else:
        c = rn[0]
        pc = fm.pc(fm.cfgn(c))
        if not logic.implies(pc, logic.Not(logic.B("T:check_only"))):
            probs.append("a variable can be renamed in check-only mode")
        inside = [a_ for a_ in fm.f.ancestors(c) if isinstance(a_, ast.Try)]
        if not inside:
            probs.append("a name clash is not handled")
        rs = [r_ for r_ in own_walk(f.node) if isinstance(r_, ast.Raise)]
        okr = False
        for r_ in rs:
            pcr = fm.pc(fm.cfgn(r_))
            if logic.implies(pcr, logic.B("T:check_only")):
                okr = True
        if not okr:
            probs.append("check-only mode does not raise for an unsafe name")
    rets = [r_ for r_ in own_walk(f.node) if isinstance(r_, ast.Return)]
    if len(rets) != 1 or text(rets[0].value) != f.params()[0]:
        probs.append("the sanitised copy is not returned")
    lp = [n for n in own_walk(f.node) if isinstance(n, ast.For)]
    if len(rn) == 1:
        # the scan that renames
        enc = [l for l in fm.cfg.enclosing_loops(fm.cfgn(rn[0])) if isinstance(l, ast.For)]
        if enc:
            lp = [enc[-1]]
    scanned = text(lp[0].iter) if lp else ""
    if lp and isinstance(lp[0].iter, ast.Name):
        # `bad = [v for v in network.variables() if <not accepted>]` ... `for v in bad`: every variable was looked at
        sd_ = fm.single_def(lp[0].iter.id, fm.cfg.loop_header[lp[0]])
        if sd_ is not None and isinstance(sd_[1], ast.ListComp) and len(sd_[1].generators) == 1 \
                and isinstance(sd_[1].elt, ast.Name) and text(sd_[1].elt) == text(sd_[1].generators[0].target) \
                and len(sd_[1].generators[0].ifs) == 1 and isinstance(sd_[1].generators[0].ifs[0], ast.UnaryOp) \
                and isinstance(sd_[1].generators[0].ifs[0].op, ast.Not) and isinstance(sd_[1].generators[0].ifs[0].operand, ast.Call) \
                and callee_name(sd_[1].generators[0].ifs[0].operand) in ("match", "fullmatch", "search"):
            scanned = text(sd_[1].generators[0].iter)

    def _breaks_outer(x):
        if not isinstance(x, ast.Break):
            return False
        el = fm.cfg.enclosing_loops(fm.cfgn(x))
        return bool(el) and el[0] is lp[0]

    if not lp or "variables()" not in scanned or any(_breaks_outer(x) for x in ast.walk(lp[0])):
        probs.append("not every variable is checked")
    ck.ob("U", fm, f.node, not probs, "; ".join(probs) if probs else "copy; rename until accepted; check-only raises", key="renaming")


def p(ck: Check) -> None:
    prog = ck.prog
    fm = prog.fm(PN, "variable_to_place")
    probs = []
    for r_ in own_walk(fm.f.node):
        if isinstance(r_, ast.Return) and isinstance(r_.value, ast.JoinedStr):
            pre = "".join(x.value for x in r_.value.values if isinstance(x, ast.Constant))
            if not re.match(r"^[a-z][a-z0-9]*_$", pre):
                probs.append(f"place prefix {pre!r} does not start with a lower-case letter / end with '_'")
            if not isinstance(r_.value.values[0], ast.Constant):
                probs.append("place name does not start with the prefix")
    ck.ob("P", fm, fm.f.node, not probs, "; ".join(probs) if probs else "place names start with a lower-case prefix", key="place prefix")
    fm = prog.fm(PN, "network_to_petrinet")
    san = [n for n in own_walk(fm.f.node) if isinstance(n, ast.Call) and callee_name(n) == "sanitize_network_names"]
    ok = bool(san) and any(k.arg == "check_only" and is_true(k.value) for k in san[0].keywords) and text(san[0].args[0]) == fm.f.params()[0]
    if ok:
        # before any place is created, and for every caller (not only when some optional argument is missing)
        first_add = min((n.lineno for n in own_walk(fm.f.node) if isinstance(n, ast.Call) and callee_name(n) == "add_node"), default=10 ** 9)
        ok = san[0].lineno < first_add and not logic.atoms(fm.pc(fm.cfgn(san[0])))
    ck.ob("P", fm, san[0] if san else fm.f.node, ok, "unsanitised names are refused before the net is built" if ok else
          "network_to_petrinet does not refuse unsanitised variable names before building places", key="refuse unsanitised")
    fm = prog.fm(PN, "extract_variable_names")
    probs = []
    t = [n for n in own_walk(fm.f.node) if isinstance(n, ast.Call) and callee_name(n) == "startswith"]
    if not t or not isinstance(t[0].args[0], ast.Constant) or t[0].args[0].value not in ("b0_", "b1_"):
        probs.append("variables are not recovered from the places of one polarity")
    ck.ob("P", fm, fm.f.node, not probs, "; ".join(probs) if probs else "variables recovered from one place per variable", key="extract names")


SYNTAX_METHODS = {
    "as_and", "as_binary", "as_cond", "as_const", "as_iff", "as_imp", "as_literal", "as_not", "as_or", "as_param", "as_var", "as_xor",
    "is_and", "is_binary", "is_cond", "is_const", "is_iff", "is_imp", "is_literal", "is_not", "is_or", "is_param", "is_var", "is_xor",
    "support_variables", "support_parameters", "distribute_negation", "to_and_or_normal_form", "simplify_constants",
}


def s_(ck: Check) -> None:
    prog = ck.prog
    sites = 0
    for fm in prog.models():
        reads = [c for c in own_walk(fm.f.node) if isinstance(c, ast.Call) and callee_name(c) == "get_update_function"]
        syn = [c for c in own_walk(fm.f.node) if isinstance(c, ast.Call) and isinstance(c.func, ast.Attribute)
               and c.func.attr in SYNTAX_METHODS]
        for c in syn:
            ck.ob("S", fm, fm.f.stmt_of(c), False,
                  f"`{text(c)[:60]}` inspects how a formula is written: two logically equivalent update functions (`x` and "
                  f"`x | x`) are then treated differently, so the result depends on the presentation of the network",
                  key=f"syntax inspection {c.func.attr} in {fm.f.name}")
        # ... nor its syntactic support when something is decided on it: `f.as_expression().support_set() != {var}` (the
        # support of `(b & c) | (b & !c)` mentions c); building a BDD context from the support decides nothing
        for c in own_walk(fm.f.node):
            if isinstance(c, ast.Call) and isinstance(c.func, ast.Attribute) and c.func.attr == "support_set":
                try:
                    rv_ = fm.deref(c.func.value, fm.cfgn(c)) if isinstance(c.func.value, ast.Name) else c.func.value
                except AnalysisError:
                    rv_ = c.func.value
                if not (isinstance(rv_, ast.Call) and callee_name(rv_) == "as_expression"):
                    continue
                x_, decided = c, False
                while x_ is not None and not isinstance(x_, ast.stmt):
                    up_ = fm.f.parents.get(x_)
                    if isinstance(up_, (ast.Compare, ast.BoolOp)) or (isinstance(up_, (ast.If, ast.While, ast.IfExp)) and up_.test is x_) \
                            or (isinstance(up_, ast.Call) and callee_name(up_) in ("len", "any", "all")):
                        decided = True
                    x_ = up_
                st_ = fm.f.stmt_of(c)
                if isinstance(st_, ast.Assign) and len(st_.targets) == 1 and isinstance(st_.targets[0], ast.Name):
                    nm_ = st_.targets[0].id
                    decided = decided or any(isinstance(y_, ast.Name) and y_.id == nm_ and isinstance(fm.f.parents.get(y_), (ast.Compare, ast.BoolOp))
                                             for y_ in own_walk(fm.f.node))
                if decided:
                    syn.append(c)
                    ck.ob("S", fm, st_, False,
                          f"`{text(c)[:60]}` is the support of the formula as written; a decision taken on it treats `b` and "
                          f"`(b & c) | (b & !c)` differently, so the result depends on the presentation of the network",
                          key=f"syntactic support in {fm.f.name}")
        # ... nor its text: str()/repr()/format of an update function (outside debug prints) is the formula as written
        for c in own_walk(fm.f.node):
            txt_of = None
            if isinstance(c, ast.Call) and isinstance(c.func, ast.Name) and c.func.id in ("str", "repr", "format") and c.args:
                txt_of = c.args[0]
            elif isinstance(c, ast.Call) and isinstance(c.func, ast.Attribute) and c.func.attr in ("to_string", "__str__", "__repr__"):
                txt_of = c.func.value
            elif isinstance(c, ast.FormattedValue):
                txt_of = c.value
            if txt_of is None or not reads:
                continue
            st_ = fm.f.stmt_of(c)
            if isinstance(st_, ast.Expr) and isinstance(st_.value, ast.Call) and callee_name(st_.value) == "print":
                continue
            try:
                tv_ = fm.deref(txt_of, fm.cfgn(c)) if isinstance(txt_of, ast.Name) else txt_of
            except AnalysisError:
                tv_ = txt_of
            if isinstance(tv_, ast.Call) and callee_name(tv_) == "get_update_function":
                syn.append(c)
                ck.ob("S", fm, st_, False,
                      f"`{text(c)[:60]}` takes the text of an update function: two logically equivalent functions (`x` and `x & x`) "
                      f"print differently, so whatever is decided on the text depends on the presentation of the network",
                      key=f"formula text in {fm.f.name}")
        for c in reads:
            sites += 1
            if not syn:
                ck.ob("S", fm, fm.f.stmt_of(c), True, "update function read and handed on without looking at its syntax",
                      key=f"update function read in {fm.f.name}")
    # which variables are inputs is a property of the update functions, not of the declared regulations (a parsed network
    # declares regulators that a function may not depend on; two presentations of one network then disagree)
    sn = prog.fm("biobalm.interaction_graph_utils", "source_nodes")
    graph_reads = [c for c in own_walk(sn.f.node) if isinstance(c, ast.Call) and isinstance(c.func, ast.Attribute)
                   and c.func.attr in ("predecessors", "regulators", "find_regulation", "regulations", "successors", "targets")
                   and not isinstance(sn.f.stmt_of(c), ast.Assert)]       # a sanity assertion decides nothing
    for c in graph_reads:
        ck.ob("S", sn, sn.f.stmt_of(c), False,
              f"`{text(c)[:60]}` consults the declared regulatory graph to decide which variables are inputs: a regulator "
              f"that the update function does not depend on (`b, (b & c) | (b & !c)`) changes the answer, so the result depends "
              f"on how the network is written", key=f"declared graph {c.func.attr} in source_nodes")
    if not graph_reads:
        ck.ob("S", sn, sn.f.node, True, "source_nodes decides on the update functions only", key="source_nodes graph-free")
    if sites == 0:
        raise AnalysisError("anchor vanished: no function reads update functions")


def i_(ck: Check) -> None:
    prog = ck.prog
    fm = prog.fm("biobalm.interaction_graph_utils", "cleanup_network")
    f = fm.f
    from .c13 import _within, _tbranch
    sets = [c for c in own_walk(f.node) if isinstance(c, ast.Call) and isinstance(c.func, ast.Attribute)
            and c.func.attr == "set_update_function" and len(c.args) == 2]
    probs = []
    okc = []
    for c in sets:
        X = text(c.func.value)
        cn = fm.cfgn(c)
        lps = [l for l in fm.cfg.enclosing_loops(cn) if isinstance(l, ast.For)]
        if not lps:
            continue
        lp = lps[0]
        it = lp.iter
        while isinstance(it, ast.Call) and callee_name(it) in ("sorted", "list", "tuple") and len(it.args) == 1:
            it = it.args[0]
        v = text(lp.target)
        over_inputs = isinstance(it, ast.Call) and callee_name(it) == "implicit_parameters" and text(it.func.value) == X
        over_all = isinstance(it, ast.Call) and callee_name(it) in ("variables", "variable_names") and text(it.func.value) == X
        # the variable is named by its id or by its name
        a0 = c.args[0] if text(c.args[0]) == v else fm.deref(c.args[0], cn)
        if not (over_inputs or over_all) or text(a0) not in (v, f"{X}.get_variable_name({v})"):
            continue
        fn = fm.deref(c.args[1], cn)
        ident = text(fn) in (f"{X}.get_variable_name({v})", v) or (
            isinstance(fn, ast.Call) and callee_name(fn) == "mk_var" and text(fn.args[-1]) == v)
        if not ident:
            probs.append(f"line {c.lineno}: a free input gets `{text(fn)[:40]}`, not its own identity function")
            continue
        hdr = fm.cfg.loop_header[lp]
        skipped = hdr.id in _within(fm, lp, _tbranch(fm, lp), {cn.id})
        if skipped and over_inputs:
            probs.append(f"line {c.lineno}: an iteration can pass a free input without giving it a function")
            continue
        if over_all:
            # only the function-less variables may be touched
            pc = fm.pc(cn)
            g_ = logic.B(f"none:{X}.get_update_function({v})")
            if g_[1] not in logic.atoms(pc) or not logic.implies(pc, g_):
                probs.append(f"line {c.lineno}: update functions are overwritten for variables that have one")
                continue
        # the normalised object is what the function returns
        rets = [r for r in own_walk(f.node) if isinstance(r, ast.Return) and r.value is not None]
        for r in rets:
            rv, rat = fm.deref_at(r.value, fm.cfgn(r))
            base = rv
            while isinstance(base, ast.Call) and isinstance(base.func, ast.Attribute) and base.func.attr in ("infer_valid_graph", "copy"):
                base = base.func.value
            reach_ = fm.cfg.reach_avoiding(fm.cfg.entry, [hdr])
            if text(base) != X:
                probs.append(f"line {r.lineno}: `{text(r.value)[:40]}` is returned, not the network whose inputs were normalised")
            elif fm.cfgn(r).id in reach_:
                probs.append(f"line {r.lineno}: a return is reached without normalising the free inputs")
        okc.append(c)
    if not okc and not probs:
        probs.append("variables without an update function (free inputs, expressible in .aeon/.sbml) are handed on as they "
                     "are: for the Petri net such a variable keeps its value, for AsynchronousGraph it is an unknown constant "
                     "that may flip during symbolic reachability and simulation, so attractor queries on a node that leaves "
                     "the input open differ from those of the same network written with `x, x` (seeds merged or lost)")
    ck.ob("I", fm, okc[0] if okc else f.node, not probs, "; ".join(sorted(set(probs))) if probs else
          "every variable without update function gets the identity function on the returned network", key="free inputs = identity")
    # every network of a diagram goes through cleanup_network
    n_ = 0
    for g in prog.models():
        if g.f.cls != "SuccessionDiagram":
            continue
        for a in own_walk(g.f.node):
            tgs = a.targets if isinstance(a, ast.Assign) else [a.target] if isinstance(a, ast.AnnAssign) and a.value is not None else []
            if any(text(t) == "self.network" for t in tgs):
                n_ += 1
                v_ = a.value
                ok_ = isinstance(v_, ast.Call) and callee_name(v_) == "cleanup_network"
                ck.ob("I", g, a, ok_, "self.network = cleanup_network(...)" if ok_ else
                      f"`{text(a)[:60]}`: the diagram's network does not pass through cleanup_network (free inputs keep AEON's "
                      f"parameter semantics)", key=f"network of the diagram in {g.f.name}")
    if n_ == 0:
        raise AnalysisError("anchor vanished: assignment of self.network")


def k(ck: Check) -> None:
    """Keys of a diagram's node index are computed from variable indices (space_unique_key(space, network)): a key means
    something only together with the network it was computed for.  Every lookup in / store into `X.node_indices` uses a
    key computed with `X.network`; keys taken from one diagram's index are never looked up in another's."""
    prog = ck.prog
    n_sites = 0
    for fm in prog.models():
        f = fm.f
        for n in own_walk(f.node):
            recv = key = None
            if isinstance(n, ast.Subscript) and isinstance(n.value, ast.Attribute) and n.value.attr == "node_indices":
                recv, key = n.value.value, n.slice
            elif isinstance(n, ast.Compare) and len(n.ops) == 1 and isinstance(n.ops[0], (ast.In, ast.NotIn)) \
                    and isinstance(n.comparators[0], ast.Attribute) and n.comparators[0].attr == "node_indices":
                recv, key = n.comparators[0].value, n.left
            elif isinstance(n, ast.Call) and isinstance(n.func, ast.Attribute) and n.func.attr in ("get", "pop", "setdefault", "__getitem__", "__contains__") \
                    and isinstance(n.func.value, ast.Attribute) and n.func.value.attr == "node_indices" and n.args:
                recv, key = n.func.value.value, n.args[0]
            elif isinstance(n, ast.Assign) and len(n.targets) == 1 and isinstance(n.targets[0], ast.Attribute) \
                    and n.targets[0].attr == "node_indices" and isinstance(n.value, ast.DictComp):
                recv, key = n.targets[0].value, n.value.key
            if recv is None:
                continue
            n_sites += 1
            try:
                at = fm.cfgn(n)
                kv = fm.deref(key, at) if isinstance(key, ast.Name) else key
            except AnalysisError:
                kv = key
            if isinstance(kv, ast.Name):
                # (inside an assert, or a parameter) the only binding of the name in the function
                binds = [a_ for a_ in own_walk(f.node) if isinstance(a_, ast.Assign) and len(a_.targets) == 1
                         and isinstance(a_.targets[0], ast.Name) and a_.targets[0].id == kv.id]
                stores = sum(1 for y_ in own_walk(f.node) if isinstance(y_, ast.Name) and y_.id == kv.id and isinstance(y_.ctx, ast.Store))
                if len(binds) == 1 and stores == 1 and kv.id not in f.params():
                    kv = binds[0].value
            ok = isinstance(kv, ast.Call) and callee_name(kv) == "space_unique_key" and len(kv.args) == 2 \
                and text(kv.args[1]) == f"{text(recv)}.network"
            ck.ob("K", fm, f.stmt_of(n), ok, f"key of `{text(recv)}.node_indices` computed with `{text(recv)}.network`" if ok else
                  f"`{text(recv)}.node_indices` is used with the key `{text(kv)[:60]}`, which is not computed by "
                  f"space_unique_key(<space>, {text(recv)}.network): the keys encode variable indices, so a key of another "
                  f"diagram (same network written in another variable order) names a different space or none",
                  key=f"{f.qualname}: {text(n)[:50]}")
    if n_sites == 0:
        raise AnalysisError("anchor vanished: no use of node_indices")


def o(ck: Check) -> None:
    prog = ck.prog
    n_sites = 0
    for fm in prog.models():
        for c in own_walk(fm.f.node):
            if isinstance(c, ast.Call) and callee_name(c) == "network_to_petrinet":
                n_sites += 1
                ctx = call_arg(c, 1, "symbolic_context")
                net = c.args[0] if c.args else None
                if ctx is None or is_none(ctx):
                    ck.ob("O", fm, fm.f.stmt_of(c), True, "Petri net built with a context created from the same network")
                    continue
                cn = fm.cfgn(c)
                ok = _derived_from(fm, ctx, net, cn, 0)
                ck.ob("O", fm, fm.f.stmt_of(c), ok, "explicit context derived from the translated network" if ok else
                      f"the Petri net of `{text(net)}` is built with the symbolic context `{text(ctx)}`, which belongs to another "
                      f"network object: AEON resolves variables by index, so if the two order their variables differently the "
                      f"update functions are read over permuted variables")
    if n_sites == 0:
        raise AnalysisError("anchor vanished: no call of network_to_petrinet")


ORDER_PRESERVING_METHODS = {"infer_valid_graph", "copy"}  # reviewed: keep the variables and their order


def _same_order(prog, fm: FuncModel, e: ast.AST, net: ast.AST, at, depth: int = 0) -> bool:
    """e denotes a network with the same variables in the same order as `net` (the same object, or obtained from
    it by order-preserving steps, possibly inside a helper all of whose returns are such steps of its parameter)."""
    if depth > 5:
        return False
    if text(e) == text(net):
        return True
    if isinstance(e, ast.Name):
        sd_ = fm.single_def(e.id, at)
        return bool(sd_) and _same_order(prog, fm, sd_[1], net, sd_[0], depth + 1)
    if isinstance(e, ast.Attribute) and text(e) == "self.network":
        # the attribute is assigned once in this function from an expression of the network
        for n in own_walk(fm.f.node):
            if isinstance(n, (ast.Assign, ast.AnnAssign)) and text(n.targets[0] if isinstance(n, ast.Assign) else n.target) == "self.network" \
                    and n.value is not None:
                return _same_order(prog, fm, n.value, net, fm.cfgn(n), depth + 1)
        return False
    if isinstance(e, ast.Call):
        if isinstance(e.func, ast.Attribute) and e.func.attr in ORDER_PRESERVING_METHODS and not e.args:
            return _same_order(prog, fm, e.func.value, net, at, depth + 1)
        tgt = prog.repo.resolve_call(fm.f, e)
        if tgt and not tgt.startswith("ext:") and e.args:
            g = prog.model(prog.repo.functions[tgt])
            p0 = g.f.params()[0]
            rets = [r for r in own_walk(g.f.node) if isinstance(r, ast.Return) and r.value is not None]
            # the parameter may be re-bound, but only to an order-preserving derivation of itself
            rebinds = [x for x in own_walk(g.f.node) if isinstance(x, ast.Name) and x.id == p0 and isinstance(x.ctx, ast.Store)]
            ok_rebinds = True
            for x in rebinds:
                st_ = g.f.stmt_of(x)
                v_ = st_.value if isinstance(st_, ast.Assign) and len(st_.targets) == 1 and st_.targets[0] is x else None
                while isinstance(v_, ast.Call) and isinstance(v_.func, ast.Attribute) and v_.func.attr in ORDER_PRESERVING_METHODS and not v_.args:
                    v_ = v_.func.value
                if not (isinstance(v_, ast.Name) and v_.id == p0):
                    ok_rebinds = False
            if rets and all(_same_order(prog, g, r.value, ast.Name(p0, ast.Load()), g.cfgn(r), depth + 1) for r in rets) and ok_rebinds:
                return _same_order(prog, fm, e.args[0], net, at, depth + 1)
    return False


def _derived_from(fm: FuncModel, ctx: ast.AST, net: ast.AST, at, depth: int) -> bool:
    if depth > 4 or net is None:
        return False
    prog = fm.prog
    nt = text(net)
    if isinstance(ctx, ast.Name):
        sd_ = fm.single_def(ctx.id, at)
        return bool(sd_) and _derived_from(fm, sd_[1], net, sd_[0], depth + 1)
    if isinstance(ctx, ast.Call):
        nm = callee_name(ctx)
        if nm == "SymbolicContext" and ctx.args and _same_order(prog, fm, ctx.args[0], net, at):
            return True
        if nm == "symbolic_context" and isinstance(ctx.func, ast.Attribute):
            g = ctx.func.value
            # graph built from the same network expression
            if isinstance(g, ast.Name):
                sd_ = fm.single_def(g.id, at)
                g = sd_[1] if sd_ else g
            if isinstance(g, ast.Attribute) and text(g) == "self.symbolic":
                for n in own_walk(fm.f.node):
                    if isinstance(n, (ast.Assign, ast.AnnAssign)) and text(n.targets[0] if isinstance(n, ast.Assign) else n.target) == "self.symbolic" \
                            and n.value is not None:
                        g = n.value
                        at = fm.cfgn(n)
            if isinstance(g, ast.Call) and callee_name(g) == "AsynchronousGraph" and g.args and _same_order(prog, fm, g.args[0], net, at):
                return True
    return False
