"""Symbolic evaluation of the strings that the ASP encoders hand to clingo.

Every expression is mapped to a *token* that says what the value is in terms of the function's inputs, independent
of the local names and of the statement structure that produced it:

    elem(X)            an element of the iterable X (loop variable, comprehension variable)
    idx(D,k)           D[k]                      (the value of a dict entry: idx(D,elem(D)))
    P(v,pol)           variable_to_place(v, pol)     pol is True / False / * (computed from a value)
    preds(n) succs(n)  the input / output nodes of a Petri-net node
    kind(n)            the `kind` attribute of a Petri-net node
    join('s',X)        's'.join(X)
    map(t,X)           [t for .. in X]
    acc[t]             a list filled by appending t (the conditions of the appends are returned separately)
    p2v(n)             place_to_variable(n)

An f-string becomes its text with `{token}` for the formatted values. Conditions are translated to formulas whose atoms
are written over the same tokens, so `successor not in predecessors` and `body_place in head_places` (negated) are the
same atom when the names stand for the same things.
"""

from __future__ import annotations

import ast

from .. import logic
from ..program import FuncModel
from ..repo import text
from .common import callee_name, is_empty_list

ORDER_ONLY = {"list", "sorted", "tuple"}


class SymEval:
    def __init__(self, fm: FuncModel):
        self.fm = fm
        self.f = fm.f
        self.params = set(fm.f.params())
        self.accs: dict[str, list] = {}   # token -> [(append cfg node, element token)]
        self._busy: set = set()

    # ------------------------------------------------------------------ values
    def val(self, e: ast.AST | None, at, bound: dict | None = None, depth: int = 0) -> str:
        bound = bound or {}
        if e is None:
            return "?"
        if depth > 14:
            return text(e)
        V = lambda x, a=at, b=bound: self.val(x, a, b, depth + 1)  # noqa: E731
        if isinstance(e, ast.Constant):
            return repr(e.value)
        if isinstance(e, ast.Name):
            if e.id in bound:
                return bound[e.id]
            return self._name(e.id, at, depth)
        if isinstance(e, ast.JoinedStr):
            out = ""
            for x in e.values:
                if isinstance(x, ast.Constant):
                    out += str(x.value)
                else:
                    out += "{" + V(x.value) + "}"
            return out
        if isinstance(e, ast.Call):
            nm = callee_name(e)
            if nm in ORDER_ONLY and isinstance(e.func, ast.Name) and len(e.args) == 1:
                return V(e.args[0])
            if nm == "variable_to_place" and e.args:
                pol = e.args[1] if len(e.args) > 1 else next((k.value for k in e.keywords if k.arg == "positive"), None)
                pt = repr(pol.value) if isinstance(pol, ast.Constant) else "*"
                return f"P({V(e.args[0])},{pt})"
            if nm == "place_to_variable" and e.args:
                return f"p2v({V(e.args[0])})"
            if nm in ("predecessors", "successors") and isinstance(e.func, ast.Attribute) and len(e.args) == 1:
                return f"{'preds' if nm == 'predecessors' else 'succs'}({V(e.args[0])})"
            if nm == "join" and isinstance(e.func, ast.Attribute) and len(e.args) == 1:
                return f"join({V(e.func.value)},{V(e.args[0])})"
            if nm == "items" and isinstance(e.func, ast.Attribute) and not e.args:
                return f"items({V(e.func.value)})"
            if nm in ("keys",) and isinstance(e.func, ast.Attribute) and not e.args:
                return V(e.func.value)
            if nm == "nodes" and isinstance(e.func, ast.Attribute):
                data = next((k.value for k in e.keywords if k.arg == "data"), e.args[0] if e.args else None)
                if isinstance(data, ast.Constant) and data.value == "kind":
                    return f"nodes+kind({V(e.func.value)})"
                if data is None:
                    return f"nodes({V(e.func.value)})"
            if nm == "len" and len(e.args) == 1:
                return f"len({V(e.args[0])})"
            if nm in ("bool", "int", "str", "cast") and e.args:
                return V(e.args[-1])
            fn = V(e.func.value) + "." + e.func.attr if isinstance(e.func, ast.Attribute) else nm
            args = [V(a) for a in e.args] + [f"{k.arg}={V(k.value)}" for k in e.keywords]
            return f"{fn}({','.join(args)})"
        if isinstance(e, (ast.ListComp, ast.GeneratorExp, ast.SetComp)):
            b2 = dict(bound)
            src = None
            for g in e.generators:
                it = self.val(g.iter, at, b2, depth + 1)
                src = it if src is None else src + "x" + it
                self._bind(g.target, it, b2)
            if src.startswith("items(") and src.endswith(")") and src.count("(") == src.count(")"):
                src = src[6:-1]   # a map over the items of a dict ranges over its keys
            tok = f"map({self.val(e.elt, at, b2, depth + 1)},{src})"
            ifs = [text(c) for g in e.generators for c in g.ifs]
            return tok + ("|if " + " and ".join(ifs) if ifs else "")
        if isinstance(e, ast.Subscript):
            # G.nodes[x]["kind"]
            if isinstance(e.slice, ast.Constant) and e.slice.value == "kind" and isinstance(e.value, ast.Subscript) \
                    and isinstance(e.value.value, ast.Attribute) and e.value.value.attr == "nodes":
                return f"kind({V(e.value.slice)})"
            base, k = V(e.value), V(e.slice)
            return _norm(f"idx({base},{k})")
        if isinstance(e, ast.Attribute):
            return f"{V(e.value)}.{e.attr}"
        if isinstance(e, ast.Tuple):
            return "(" + ",".join(V(x) for x in e.elts) + ")"
        if isinstance(e, ast.List):
            return "[" + ",".join(V(x) for x in e.elts) + "]"
        if isinstance(e, ast.Dict) and not e.keys:
            return "{}"
        if isinstance(e, ast.Slice):
            return f"{V(e.lower) if e.lower else ''}:{V(e.upper) if e.upper else ''}"
        if isinstance(e, ast.UnaryOp):
            return f"{type(e.op).__name__}({V(e.operand)})"
        if isinstance(e, ast.BinOp):
            return f"({V(e.left)} {type(e.op).__name__} {V(e.right)})"
        return text(e)

    def _bind(self, target: ast.AST, it_tok: str, env: dict) -> None:
        if isinstance(target, ast.Name):
            env[target.id] = _norm(f"elem({it_tok})")
        elif isinstance(target, ast.Tuple):
            for i, t in enumerate(target.elts):
                if isinstance(t, ast.Name):
                    env[t.id] = _norm(f"elem({it_tok}).{i}")
                elif isinstance(t, ast.Tuple):
                    for j, u in enumerate(t.elts):
                        if isinstance(u, ast.Name):
                            env[u.id] = _norm(f"elem({it_tok}).{i}.{j}")

    def _name(self, name: str, at, depth: int) -> str:
        fm = self.fm
        key = (name, at.id if at is not None else -1)
        if key in self._busy or at is None:
            return name
        self._busy.add(key)
        try:
            defs = fm.cfg.reaching_defs(name, at)
            toks = set()
            empties = 0
            for d in defs:
                if d.kind == "entry":
                    toks.add(name)
                    continue
                if d.kind == "for":
                    env: dict = {}
                    self._bind(d.ast.target, self.val(d.ast.iter, d, None, depth + 1), env)
                    toks.add(env.get(name, name))
                    continue
                a = d.ast if d.kind == "stmt" else None
                if isinstance(a, ast.Assign) and len(a.targets) == 1:
                    tg = a.targets[0]
                    if isinstance(tg, ast.Name):
                        if is_empty_list(a.value) or (isinstance(a.value, ast.Dict) and not a.value.keys) or \
                                (isinstance(a.value, ast.Call) and callee_name(a.value) in ("list", "dict", "set") and not a.value.args):
                            empties += 1
                            toks.add("EMPTY")
                            continue
                        toks.add(self.val(a.value, d, None, depth + 1))
                        continue
                    if isinstance(tg, ast.Tuple) and any(isinstance(x, ast.Name) and x.id == name for x in tg.elts):
                        if isinstance(a.value, ast.Tuple) and len(a.value.elts) == len(tg.elts):
                            i = next(i for i, x in enumerate(tg.elts) if isinstance(x, ast.Name) and x.id == name)
                            toks.add(self.val(a.value.elts[i], d, None, depth + 1))
                        else:
                            env = {}
                            self._bind(tg, "TUPLE:" + self.val(a.value, d, None, depth + 1), env)
                            toks.add(env.get(name, name).replace("elem(TUPLE:", "part(", 1))
                        continue
                toks.add(name)
            if "EMPTY" in toks:
                toks.discard("EMPTY")
                if name in self.params and toks <= {name}:
                    return name                       # `if p is None: p = {}` : still the parameter
                apps = self._appends(name)
                if apps and not toks:
                    elems = sorted({t for _, t in apps})
                    tok = "acc[" + ";".join(elems) + "]"
                    self.accs[tok] = apps
                    return tok
                toks.add("[]")
            if not toks:
                return name
            return " | ".join(sorted(toks))
        finally:
            self._busy.discard(key)

    def _appends(self, name: str):
        out = []
        from ..repo import own_walk
        for c in own_walk(self.f.node):
            if isinstance(c, ast.Call) and isinstance(c.func, ast.Attribute) and c.func.attr == "append" \
                    and isinstance(c.func.value, ast.Name) and c.func.value.id == name and c.args:
                cn = self.fm.cfgn(c)
                out.append((cn, self.val(c.args[0], cn)))
        return out

    # ------------------------------------------------------------------ conditions
    def translator(self, at) -> logic.Translator:
        return logic.Translator(lambda e: self.val(e, at))

    def cond(self, n):
        """Condition under which CFG node n is reached (tests of dominating branches, over tokens)."""
        fs = []
        for b in self.fm.cfg.dominators(n):
            if b.kind != "branch" or b.test is None:
                continue
            tnode = self.fm.cfg.nodes[next(iter(self.fm.cfg.g.predecessors(b.id)))]
            f = self.translator(tnode).f(b.test)
            fs.append(f if b.pol else logic.Not(f))
        return logic.And(*fs)


def _norm(tok: str) -> str:
    """elem(items(D)).0 -> elem(D);  elem(items(D)).1 -> idx(D,elem(D));  elem(nodes+kind(G)).0 -> elem(nodes(G)) ..."""
    import re
    for _ in range(4):
        t0 = tok
        tok = re.sub(r"elem\(items\(([^()]*(?:\([^()]*\))*[^()]*)\)\)\.0", r"elem(\1)", tok)
        tok = re.sub(r"elem\(items\(([^()]*(?:\([^()]*\))*[^()]*)\)\)\.1", r"idx(\1,elem(\1))", tok)
        tok = re.sub(r"elem\(nodes\+kind\(([^()]*)\)\)\.0", r"elem(nodes(\1))", tok)
        tok = re.sub(r"elem\(nodes\+kind\(([^()]*)\)\)\.1", r"kind(elem(nodes(\1)))", tok)
        if tok == t0:
            break
    return tok
