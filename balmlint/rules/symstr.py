"""Symbolic evaluation of the strings that the ASP encoders hand to clingo.

Every expression is mapped to a *token* that says what the value is in terms of the function's inputs, independent
of the local names and of the statement structure that produced it:

    elem(X)            an element of the iterable X (loop variable, comprehension variable)
    idx(D,k)           D[k]                      (the value of a dict entry: idx(D,elem(D)))
    P(v,pol)           variable_to_place(v, pol)     pol is True / False / * (computed from a value)
    preds(n) succs(n)  the input / output nodes of a Petri-net node
    kind(n)            the `kind` attribute of a Petri-net node
    join('s',X)        's'.join(X)
    map(t,X)           [t for .. in X]
    acc[t]             a list filled by appending t (the conditions of the appends are returned separately)
    p2v(n)             place_to_variable(n)

An f-string becomes its text with `{token}` for the formatted values. Conditions are translated to formulas whose atoms
are written over the same tokens, so `successor not in predecessors` and `body_place in head_places` (negated) are the
same atom when the names stand for the same things.
"""

from __future__ import annotations

import ast

from .. import logic
from ..program import FuncModel
from ..repo import text
from .common import callee_name, is_empty_list

ORDER_ONLY = {"list", "sorted", "tuple", "set", "frozenset"}   # same elements


class SymEval:
    def __init__(self, fm: FuncModel, pol_tables: bool = False, assume: dict | None = None):
        self.pol_tables = pol_tables
        self.assume = assume or {}     # token of a Boolean expression -> assumed truth value (case analysis)
        self.fm = fm
        self.f = fm.f
        self.params = set(fm.f.params())
        self.accs: dict[str, list] = {}   # token -> [(append cfg node, element token)]
        self._busy: set = set()

    # ------------------------------------------------------------------ values
    def val(self, e: ast.AST | None, at, bound: dict | None = None, depth: int = 0) -> str:
        bound = bound or {}
        if e is None:
            return "?"
        if depth > 14:
            return text(e)
        V = lambda x, a=at, b=bound: self.val(x, a, b, depth + 1)  # noqa: E731
        if isinstance(e, ast.Constant):
            return repr(e.value)
        if isinstance(e, ast.Name):
            if e.id in bound:
                return bound[e.id]
            return self._name(e.id, at, depth)
        if isinstance(e, ast.JoinedStr):
            out = ""
            for x in e.values:
                if isinstance(x, ast.Constant):
                    out += str(x.value)
                else:
                    out += "{" + V(x.value) + "}"
            return out
        if isinstance(e, ast.Call):
            nm = callee_name(e)
            if nm in ORDER_ONLY and isinstance(e.func, ast.Name) and len(e.args) == 1:
                return V(e.args[0])
            if nm == "variable_to_place" and e.args:
                pol = e.args[1] if len(e.args) > 1 else next((k.value for k in e.keywords if k.arg == "positive"), None)
                pt = repr(pol.value) if isinstance(pol, ast.Constant) else (self._poltable(pol, at, bound) if self.pol_tables else "*")
                return f"P({V(e.args[0])},{pt})"
            if nm == "place_to_variable" and e.args:
                return f"p2v({V(e.args[0])})"
            if nm in ("predecessors", "successors") and isinstance(e.func, ast.Attribute) and len(e.args) == 1:
                return f"{'preds' if nm == 'predecessors' else 'succs'}({V(e.args[0])})"
            if nm == "join" and isinstance(e.func, ast.Attribute) and len(e.args) == 1:
                return f"join({V(e.func.value)},{V(e.args[0])})"
            if nm == "items" and isinstance(e.func, ast.Attribute) and not e.args:
                return f"items({V(e.func.value)})"
            if nm in ("keys",) and isinstance(e.func, ast.Attribute) and not e.args:
                return V(e.func.value)
            if nm == "nodes" and isinstance(e.func, ast.Attribute):
                data = next((k.value for k in e.keywords if k.arg == "data"), e.args[0] if e.args else None)
                if isinstance(data, ast.Constant) and data.value == "kind":
                    return f"nodes+kind({V(e.func.value)})"
                if data is None:
                    return f"nodes({V(e.func.value)})"
            if nm == "len" and len(e.args) == 1:
                return f"len({V(e.args[0])})"
            if nm == "enumerate" and isinstance(e.func, ast.Name) and e.args:
                return f"enumerate({V(e.args[0])})"   # the start offset does not change which elements are visited
            if nm in ("bool", "int", "str", "cast") and e.args:
                return V(e.args[-1])
            fn = V(e.func.value) + "." + e.func.attr if isinstance(e.func, ast.Attribute) else nm
            if isinstance(e.func, ast.Name) and e.func.id not in bound and at is not None and \
                    any(d.kind != "entry" for d in self.fm.cfg.reaching_defs(e.func.id, at)):
                fn = self._name(e.func.id, at, depth + 1)      # a local that stands for a function
            args = [V(a) for a in e.args] + [f"{k.arg}={V(k.value)}" for k in e.keywords]
            return f"{fn}({','.join(args)})"
        if isinstance(e, (ast.ListComp, ast.GeneratorExp, ast.SetComp)):
            b2 = dict(bound)
            src = None
            for g in e.generators:
                it = self.val(g.iter, at, b2, depth + 1)
                src = it if src is None else src + "x" + it
                self._bind(g.target, it, b2)
            if src.startswith("items(") and src.endswith(")") and src.count("(") == src.count(")"):
                src = src[6:-1]   # a map over the items of a dict ranges over its keys
            tok = f"map({self.val(e.elt, at, b2, depth + 1)},{src})"
            ifs = [text(c) for g in e.generators for c in g.ifs]
            return tok + ("|if " + " and ".join(ifs) if ifs else "")
        if isinstance(e, ast.Subscript):
            # G.nodes[x]["kind"]
            if isinstance(e.slice, ast.Constant) and e.slice.value == "kind" and isinstance(e.value, ast.Subscript) \
                    and isinstance(e.value.value, ast.Attribute) and e.value.value.attr == "nodes":
                return f"kind({V(e.value.slice)})"
            # a table built by a dict comprehension {x: F(x) for x in S}, read at k, is F(k)
            tbl, tat = self.fm.deref_at(e.value, at) if not (bound and isinstance(e.value, ast.Name) and e.value.id in bound) else (e.value, at)
            if isinstance(tbl, ast.DictComp) and len(tbl.generators) == 1 and not tbl.generators[0].ifs \
                    and isinstance(tbl.generators[0].target, ast.Name) and isinstance(tbl.key, ast.Name) \
                    and tbl.key.id == tbl.generators[0].target.id:
                b2 = dict(bound)
                b2[tbl.key.id] = V(e.slice)
                return self.val(tbl.value, tat, b2, depth + 1)
            base, k = V(e.value), V(e.slice)
            # a tuple literal indexed by a constant is that component
            if base.startswith("(") and _balanced(base, 0) == len(base) and k.isdigit():
                comps = _split_top(base[1:-1])
                if int(k) < len(comps):
                    return comps[int(k)]
            return _norm(f"idx({base},{k})")
        if isinstance(e, ast.Attribute):
            if e.attr == "nodes":
                return V(e.value)   # `x in G.nodes` is `x in G`
            return f"{V(e.value)}.{e.attr}"
        if isinstance(e, ast.Tuple):
            return "(" + ",".join(V(x) for x in e.elts) + ")"
        if isinstance(e, ast.List):
            return "[" + ",".join(V(x) for x in e.elts) + "]"
        if isinstance(e, ast.Set):
            return "{" + ",".join(V(x) for x in e.elts) + "}"
        if isinstance(e, ast.Dict):
            if not e.keys:
                return "{}"
            if all(k is not None for k in e.keys):
                return "{" + ",".join(f"{V(k)}:{V(v)}" for k, v in zip(e.keys, e.values)) + "}"
        if isinstance(e, ast.DictComp) and len(e.generators) == 1:
            b2 = dict(bound)
            g = e.generators[0]
            it = self.val(g.iter, at, b2, depth + 1)
            self._bind(g.target, it, b2)
            if it.startswith("items(") and _balanced(it, 5) == len(it):
                it = it[6:-1]
            tok = f"dmap({self.val(e.key, at, b2, depth + 1)}:{self.val(e.value, at, b2, depth + 1)},{it})"
            return tok + ("|if " + " and ".join(text(c) for c in g.ifs) if g.ifs else "")
        if isinstance(e, ast.IfExp):
            t = self.truth(e.test, at, bound, depth + 1)
            if t is True:
                return V(e.body)
            if t is False:
                return V(e.orelse)
            tb_, fb_ = V(e.body), V(e.orelse)
            # `X[1] if b else X[0]`  ==  X[b]   (a pair indexed by a truth value)
            if tb_.startswith("idx(") and fb_.startswith("idx(") and tb_.endswith(",1)") and fb_.endswith(",0)") and tb_[:-3] == fb_[:-3]:
                return f"{tb_[:-2]}{V(e.test)})"
            return f"ite({V(e.test)},{tb_},{fb_})"
        if isinstance(e, ast.NamedExpr):
            return V(e.value)
        if isinstance(e, ast.Slice):
            return f"{V(e.lower) if e.lower else ''}:{V(e.upper) if e.upper else ''}"
        if isinstance(e, ast.UnaryOp):
            return f"{type(e.op).__name__}({V(e.operand)})"
        if isinstance(e, ast.BinOp):
            return f"({V(e.left)} {type(e.op).__name__} {V(e.right)})"
        return text(e)

    def truth(self, e: ast.AST, at, bound=None, depth: int = 0):
        """True / False if the assumptions decide the Boolean expression, else None."""
        if isinstance(e, ast.Constant):
            return bool(e.value)
        if isinstance(e, ast.UnaryOp) and isinstance(e.op, ast.Not):
            t = self.truth(e.operand, at, bound, depth + 1)
            return None if t is None else not t
        if isinstance(e, ast.BoolOp):
            ts = [self.truth(v, at, bound, depth + 1) for v in e.values]
            if isinstance(e.op, ast.And):
                return False if False in ts else (True if all(t is True for t in ts) else None)
            return True if True in ts else (False if all(t is False for t in ts) else None)
        if isinstance(e, ast.Name) and depth < 8 and not (bound and e.id in bound):
            x, at2 = self.fm.deref_at(e, at)
            if x is not e:
                return self.truth(x, at2, bound, depth + 1)
        if isinstance(e, ast.Compare) and len(e.ops) == 1 and isinstance(e.ops[0], (ast.Is, ast.IsNot)) \
                and isinstance(e.comparators[0], ast.Constant) and e.comparators[0].value is None and depth < 8:
            # `x is None` when the value of x is known under the case assumptions
            tok = self.val(e.left, at, bound, depth + 1)
            known = None
            if tok == "None":
                known = True
            elif tok and (tok[0].isdigit() or tok[0] in "'\"[{(" and not tok.startswith("<")):
                known = False
            if known is not None:
                return known if isinstance(e.ops[0], ast.Is) else not known
        return self.assume.get(self.val(e, at, bound, depth + 1))

    def hypothesis(self):
        """The case assumptions as a formula over the atoms that conditions use."""
        return logic.And(*[logic.B("T:" + k) if v else logic.Not(logic.B("T:" + k)) for k, v in self.assume.items()])

    def _bind(self, target: ast.AST, it_tok: str, env: dict) -> None:
        if isinstance(target, ast.Name):
            env[target.id] = _norm(f"elem({it_tok})")
        elif isinstance(target, ast.Tuple):
            for i, t in enumerate(target.elts):
                if isinstance(t, ast.Name):
                    env[t.id] = _norm(f"elem({it_tok}).{i}")
                elif isinstance(t, ast.Tuple):
                    for j, u in enumerate(t.elts):
                        if isinstance(u, ast.Name):
                            env[u.id] = _norm(f"elem({it_tok}).{i}.{j}")

    def _name(self, name: str, at, depth: int) -> str:
        fm = self.fm
        key = (name, at.id if at is not None else -1)
        if key in self._busy or at is None:
            return name
        self._busy.add(key)
        try:
            defs = fm.cfg.reaching_defs(name, at)
            toks = set()
            empties = 0
            for d in defs:
                if d.kind == "entry":
                    toks.add(name)
                    continue
                if self.assume and len(defs) > 1 and (self._dead(d) or self._cut_off(d, at, name, defs)):
                    continue
                if d.kind == "for":
                    env: dict = {}
                    self._bind(d.ast.target, self.val(d.ast.iter, d, None, depth + 1), env)
                    toks.add(env.get(name, name))
                    continue
                a = d.ast if d.kind == "stmt" else None
                if isinstance(a, ast.Assign) and len(a.targets) == 1:
                    tg = a.targets[0]
                    if isinstance(tg, ast.Name):
                        if is_empty_list(a.value) or (isinstance(a.value, ast.Dict) and not a.value.keys) or \
                                (isinstance(a.value, ast.Call) and callee_name(a.value) in ("list", "dict", "set") and not a.value.args):
                            empties += 1
                            toks.add("EMPTY")
                            continue
                        toks.add(self.val(a.value, d, None, depth + 1))
                        continue
                    if isinstance(tg, ast.Tuple) and any(isinstance(x, ast.Name) and x.id == name for x in tg.elts):
                        if isinstance(a.value, ast.Tuple) and len(a.value.elts) == len(tg.elts):
                            i = next(i for i, x in enumerate(tg.elts) if isinstance(x, ast.Name) and x.id == name)
                            toks.add(self.val(a.value.elts[i], d, None, depth + 1))
                        else:
                            i = next(i for i, x in enumerate(tg.elts) if isinstance(x, ast.Name) and x.id == name)
                            toks.add(_norm(f"idx({self.val(a.value, d, None, depth + 1)},{i})"))  # unpacking = indexing
                        continue
                toks.add(name)
            if "EMPTY" in toks:
                toks.discard("EMPTY")
                if name in self.params and toks <= {name}:
                    return name                       # `if p is None: p = {}` : still the parameter
                apps = self._appends(name)
                if apps and not toks:
                    elems = sorted({x[1] for x in apps})
                    tok = "acc[" + ";".join(elems) + "]"
                    self.accs[tok] = apps
                    return tok
                toks.add("[]")
            if not toks:
                return name
            return sorted(toks)[0] if len(toks) == 1 else "<" + " | ".join(sorted(toks)) + ">"
        finally:
            self._busy.discard(key)

    def _dead(self, d) -> bool:
        """the definition sits on a branch that the case assumptions exclude"""
        for test, pol, b in self.fm.facts(d):
            tnode = self.fm.cfg.nodes[next(iter(self.fm.cfg.g.predecessors(b.id)))]
            t = self.truth(test, tnode)
            if t is not None and t != pol:
                return True
        return False

    def _cut_off(self, d, at, name: str, defs) -> bool:
        """every path on which this definition is still current at `at` passes a branch edge that the case assumptions
        exclude (e.g. `if x is None:` with x known to be None: the definition before the `if` never gets around it)"""
        cfg = self.fm.cfg
        others = [x for x in defs if x is not d]
        dead = []
        ids = cfg.reach_avoiding(d, others)
        if at.id not in ids:
            return False
        for i in ids:
            b = cfg.nodes[i]
            if b.kind == "branch" and b.test is not None:
                tnode = cfg.nodes[next(iter(cfg.g.predecessors(b.id)))]
                t = self.truth(b.test, tnode)
                if t is not None and t != b.pol:
                    dead.append(b)
        if not dead:
            return False
        return at.id not in cfg.reach_avoiding(d, others + dead)

    def _appends(self, name: str):
        """Contributions to the collection `name`: (cfg node, element token, extra condition or None)."""
        out = []
        from ..repo import own_walk
        for st in own_walk(self.f.node):
            if isinstance(st, ast.Assign) and len(st.targets) == 1 and isinstance(st.targets[0], ast.Subscript) \
                    and isinstance(st.targets[0].value, ast.Name) and st.targets[0].value.id == name:
                cn = self.fm.cfgn(st)
                out.append((cn, f"{self.val(st.targets[0].slice, cn)}:{self.val(st.value, cn)}", None))
        for c in own_walk(self.f.node):
            if not (isinstance(c, ast.Call) and isinstance(c.func, ast.Attribute) and isinstance(c.func.value, ast.Name)
                    and c.func.value.id == name and c.args):
                continue
            cn = self.fm.cfgn(c)
            m = c.func.attr
            if m in ("append", "add"):
                out.append((cn, self.val(c.args[0], cn), None))
            elif m in ("update", "extend"):
                a = c.args[0]
                if isinstance(a, (ast.GeneratorExp, ast.ListComp, ast.SetComp)) and len(a.generators) == 1:
                    g = a.generators[0]
                    b2: dict = {}
                    self._bind(g.target, self.val(g.iter, cn), b2)
                    tr = logic.Translator(lambda e, b2=b2, cn=cn: self.val(e, cn, b2))
                    extra = logic.And(*[tr.f(x) for x in g.ifs]) if g.ifs else None
                    out.append((cn, self.val(a.elt, cn, b2), extra))
                else:
                    out.append((cn, _norm(f"elem({self.val(a, cn)})"), None))
        return out

    def collection(self, e: ast.AST, at):
        """Uniform view of how a list / set / dict value is built: [(element token -- `key:value` for dicts --, condition)],
        for a comprehension as well as for an empty collection that is filled by statements."""
        x, at2 = self.fm.deref_at(e, at)
        if isinstance(x, (ast.ListComp, ast.SetComp, ast.GeneratorExp, ast.DictComp)) and len(x.generators) == 1:
            g = x.generators[0]
            b2: dict = {}
            it = self.val(g.iter, at2)
            self._bind(g.target, it, b2)
            for c in g.ifs:
                for w in ast.walk(c):
                    if isinstance(w, ast.NamedExpr) and isinstance(w.target, ast.Name):
                        b2[w.target.id] = self.val(w.value, at2, b2)
            tr = logic.Translator(lambda q, b2=b2, at2=at2: self.val(q, at2, b2))
            cond = logic.And(*[tr.f(c) for c in g.ifs])
            if isinstance(x, ast.DictComp):
                el = f"{self.val(x.key, at2, b2)}:{self.val(x.value, at2, b2)}"
            else:
                el = self.val(x.elt, at2, b2)
            out_ = [(el, cond)]
            # a list that starts as a comprehension and is extended afterwards (by statements that can run before `at`)
            if isinstance(e, ast.Name) and x is not e:
                for cn, el2, extra in self._appends(e.id):
                    if at is not None and cn.id in self.fm.cfg.reach_avoiding(at2, [at]) | {at2.id}:
                        c2 = self.cond(cn)
                        out_.append((el2, logic.And(c2, extra) if extra is not None else c2))
            return out_
        while isinstance(x, ast.Call) and isinstance(x.func, ast.Name) and x.func.id in ORDER_ONLY and len(x.args) == 1:
            x, at2 = self.fm.deref_at(x.args[0], at2)
            if isinstance(x, (ast.ListComp, ast.SetComp, ast.GeneratorExp)):
                return self.collection(x, at2)
        if isinstance(x, ast.BinOp) and isinstance(x.op, ast.BitOr) or \
                isinstance(x, ast.Call) and isinstance(x.func, ast.Attribute) and x.func.attr == "union" and len(x.args) == 1 and not x.keywords:
            # A | B : what either side holds (a side that is filled by statements carries the conditions of its fills, a
            # comprehension the condition under which it is evaluated)
            parts = [x.left, x.right] if isinstance(x, ast.BinOp) else [x.func.value, x.args[0]]
            out_ = []
            for p_ in parts:
                c_ = self.collection(p_, at2)
                if c_ is None:
                    return None
                y_, aty_ = self.fm.deref_at(p_, at2)
                if isinstance(y_, (ast.ListComp, ast.SetComp, ast.GeneratorExp)):
                    here = self.cond(aty_)
                    c_ = [(el, logic.And(here, cd)) for el, cd in c_]
                out_ += c_
            return out_
        if isinstance(x, ast.BinOp) and isinstance(x.op, ast.Sub):
            # A - B : the elements of A that are not in B
            a_, b_ = self.val(x.left, at2), self.val(x.right, at2)
            return [(_norm(f"elem({a_})"), logic.Not(logic.B(f"in:{_norm(f'elem({a_})')}|{b_}")))]
        tok = self.val(e, at)
        if tok in self.accs:
            return [(el, c) for el, c, _ in self.contributions(tok)]
        return None

    def contributions(self, tok: str):
        """[(element token, condition)] of an accumulator token."""
        out = []
        for cn, el, extra in self.accs.get(tok, []):
            c = self.cond(cn)
            out.append((el, logic.And(c, extra) if extra is not None else c, cn))
        return out

    def _poltable(self, pol: ast.AST, at, bound: dict | None) -> str:
        """Polarity as a function of the one 0/1 value it is computed from: `{0:F,1:T}@<value token>`."""
        from .c09 import Unknown, ev
        import copy as _c
        e, at2 = pol, at

        class D(ast.NodeTransformer):
            def visit_Name(me, n):  # noqa: N805
                if bound and n.id in bound:
                    return n
                x, _ = self.fm.deref_at(n, at2)
                return me.visit(_c.deepcopy(x)) if x is not n else n
        e = D().visit(_c.deepcopy(e))
        leaves = {}
        funcs = {id(c.func) for c in ast.walk(e) if isinstance(c, ast.Call)}
        inner = {id(x) for n in ast.walk(e) if isinstance(n, ast.Subscript) for x in ast.walk(n) if x is not n}
        for n in ast.walk(e):
            if isinstance(n, (ast.Name, ast.Subscript)) and id(n) not in funcs and id(n) not in inner:
                leaves[text(n)] = self.val(n, at2, bound)
        toks = set(leaves.values())
        if len(toks) != 1:
            return "*"
        out = []
        for v in (0, 1):
            try:
                out.append("T" if ev(e, {k: v for k in leaves}) else "F")
            except Unknown:
                return "*"
        return "{0:%s,1:%s}@%s" % (out[0], out[1], next(iter(toks)))

    # ------------------------------------------------------------------ conditions
    def translator(self, at) -> logic.Translator:
        return logic.Translator(lambda e: self.val(e, at))

    def cond(self, n, local: bool = False):
        """Condition under which CFG node n is reached (tests of dominating branches, over tokens). With `local`, only
        the tests inside the outermost loop around n count (guards of the whole function are left out)."""
        fs = []
        ids = None
        if local:
            loops = self.fm.cfg.enclosing_loops(n)
            if loops:
                ids = self.fm.cfg.loop_nodes[loops[-1]]
        for b in self.fm.cfg.dominators(n):
            if b.kind != "branch" or b.test is None:
                continue
            if ids is not None and b.id not in ids:
                continue
            tnode = self.fm.cfg.nodes[next(iter(self.fm.cfg.g.predecessors(b.id)))]
            # names bound by `:=` inside the test stand for their values in the rest of the test
            wal: dict = {}
            for w in ast.walk(b.test):
                if isinstance(w, ast.NamedExpr) and isinstance(w.target, ast.Name):
                    wal[w.target.id] = self.val(w.value, tnode, wal or None)
            f = logic.Translator(lambda e, tnode=tnode, wal=wal: self.val(e, tnode, wal)).f(b.test) if wal else self.translator(tnode).f(b.test)
            fs.append(f if b.pol else logic.Not(f))
        return logic.And(*fs)


def _balanced(tok: str, i: int) -> int:
    """index just after the parenthesis that closes the one opened at tok[i] (tok[i] == '(')."""
    d = 0
    for j in range(i, len(tok)):
        if tok[j] == "(":
            d += 1
        elif tok[j] == ")":
            d -= 1
            if d == 0:
                return j + 1
    return -1


def _split_top(tok: str) -> list[str]:
    """split at commas that are not inside (), [], {} or <>"""
    out, d, cur = [], 0, ""
    for ch in tok:
        if ch in "([{<":
            d += 1
        elif ch in ")]}>":
            d -= 1
        if ch == "," and d == 0:
            out.append(cur)
            cur = ""
        else:
            cur += ch
    out.append(cur)
    return out


def _rewrite(tok: str, head: str, fn) -> str:
    """Replace every `head(X).k` (X balanced, k a digit) by fn(X, k)."""
    out, i = "", 0
    while True:
        j = tok.find(head + "(", i)
        if j < 0:
            return out + tok[i:]
        e = _balanced(tok, j + len(head))
        if e < 0 or e + 1 >= len(tok) + 1 or tok[e:e + 1] != "." or not tok[e + 1:e + 2].isdigit():
            out += tok[i:j + len(head) + 1]
            i = j + len(head) + 1
            continue
        inner = tok[j + len(head) + 1:e - 1]
        r = fn(inner, tok[e + 1])
        if r is None:
            out += tok[i:j + len(head) + 1]
            i = j + len(head) + 1
            continue
        out += tok[i:j] + r
        i = e + 2


def _norm(tok: str) -> str:
    """elem(items(D)).0 -> elem(D);  elem(items(D)).1 -> idx(D,elem(D));  elem(enumerate(X)).1 -> elem(X), .0 -> index(X);
    elem(nodes+kind(G)).0 -> elem(nodes(G)), .1 -> kind(elem(nodes(G)))"""
    def fn(inner: str, k: str):
        for head, a, b in (("items", lambda x: f"elem({x})", lambda x: f"idx({x},elem({x}))"),
                           ("enumerate", lambda x: f"index({x})", lambda x: f"elem({x})"),
                           ("nodes+kind", lambda x: f"elem(nodes({x}))", lambda x: f"kind(elem(nodes({x})))")):
            if inner.startswith(head + "(") and _balanced(inner, len(head)) == len(inner):
                x = inner[len(head) + 1:-1]
                return a(x) if k == "0" else b(x) if k == "1" else None
        # elem(map((a, b), S)).k  ->  a / b     (the element of a list of tuples built by a comprehension over S)
        if inner.startswith("map(") and _balanced(inner, 3) == len(inner):
            parts = _split_top(inner[4:-1])
            if len(parts) == 2 and parts[0].startswith("(") and _balanced(parts[0], 0) == len(parts[0]):
                comps = _split_top(parts[0][1:-1])
                if k.isdigit() and int(k) < len(comps):
                    return comps[int(k)]
        return None
    for _ in range(6):
        t0 = tok
        tok = _rewrite(tok, "elem", fn)
        if tok == t0:
            break
    return tok
