"""C07 -- control output is complete, minimal and honours the user's constraints (structural clauses)."""

from __future__ import annotations

import ast

from .. import logic
from ..program import FuncModel, call_arg
from ..report import Check
from ..repo import AnalysisError, dotted, own_walk, text
from .common import callee_name, is_empty_list, is_false, is_none, is_true
from . import c03

CTRL = "biobalm.control"

EXPLANATION = (
    "(D4) constraints: in both strategies the driver pool is a set minus forbidden_drivers, sets are drawn by "
    "combinations(pool, k) for k in range(max + 1) ascending, a set is skipped iff a reported driver's key set is a "
    "subset of it, `successful` is equivalent to 'no step has an empty control list' and the successful_only filter keeps "
    "`not successful_only or successful` (truth tables); no function of the control module mutates an argument it "
    "received from its caller (forbidden set, fixed values, succession). (D5) target-directed expansion: a node is left "
    "unexpanded iff it is disjoint from the target or strictly inside it (pruning-guard engine of C03-G). (D6) "
    "enumeration shape: successions are the products of edge_all_stable_motifs(x, y, reduced=True) along "
    "nx.all_simple_paths(dag, root, end node) for every end node, each appended once, with no early exit outside the "
    "skip_feedforward_successions option; the empty succession is reported iff an end node exists but no path was listed. "
    "(D3) the end nodes: rule D3 of C06 (forbidden = inconsistent with the target or a minimal trap space outside of it; "
    "a node that reaches a forbidden node -- by a recognised complete reachability construction -- is no end node)."
)
ASSUMPTIONS = [
    "completeness/minimality as set equalities over run-time values are not decided",
]


def run(ck: Check) -> None:
    d4(ck)
    c03.g_level(ck, "D5")
    c03.wrappers(ck, "D5", only=("expand_to_target",))  # ... and the public method really runs it
    d6(ck)
    from . import c06
    c06.d3(ck)   # the end nodes of the successions (classification, reachability of forbidden nodes)
    ck.floor("D3", 3)
    ck.floor("D4", 7)
    ck.floor("D5", 3)
    ck.floor("D6", 3)


def d4(ck: Check) -> None:
    prog = ck.prog
    fm = prog.fm(CTRL, "find_drivers")
    f = fm.f
    # the names the function uses for its working data are found by role, not by spelling
    res = next((r.value.id for r in own_walk(f.node) if isinstance(r, ast.Return) and isinstance(r.value, ast.Name)), None)
    combos = [n for n in own_walk(f.node) if isinstance(n, ast.For) and isinstance(n.iter, ast.Call) and callee_name(n.iter) == "combinations"
              and len(n.iter.args) == 2]
    if not combos:
        raise AnalysisError("anchor vanished: combinations(...) loop of find_drivers")
    cl = combos[0]
    pool_e = cl.iter.args[0]
    while isinstance(pool_e, ast.Call) and callee_name(pool_e) in ("sorted", "list", "tuple") and pool_e.args:
        pool_e = pool_e.args[0]
    if not isinstance(pool_e, ast.Name):
        raise AnalysisError("anchor vanished: driver pool of find_drivers")
    POOL = pool_e.id
    target_p = f.params()[1]
    # the inner motif: the target restricted to variables that are not assumed fixed
    inner_names = set()
    for n in own_walk(f.node):
        if isinstance(n, ast.Assign) and isinstance(n.targets[0], ast.Name) and isinstance(n.value, ast.DictComp) \
                and target_p in text(n.value.generators[0].iter):
            inner_names.add(n.targets[0].id)
    # pool minus forbidden in both strategies
    pools = [n for n in own_walk(f.node) if isinstance(n, ast.Assign) and text(n.targets[0]) == POOL]
    if len(pools) < 2:
        raise AnalysisError("anchor vanished: driver pool definitions")
    for p in pools:
        v = p.value
        ok = isinstance(v, ast.BinOp) and isinstance(v.op, ast.Sub) and text(v.right) == "forbidden_drivers" \
            and isinstance(v.left, ast.Call) and callee_name(v.left) == "set"
        probs = [] if ok else [f"driver pool `{text(v)}` does not exclude forbidden_drivers"]
        pc = fm.pc(fm.cfgn(p))
        if ok:
            src = text(v.left.args[0])
            if logic.implies(pc, logic.B("eq:'internal'|strategy")) and not any(nm in src for nm in inner_names):
                probs.append("internal strategy draws drivers from outside the motif")
            if logic.implies(pc, logic.B("eq:'all'|strategy")) and "network_variable_names" not in src:
                probs.append("strategy 'all' does not draw drivers from all network variables")
        ck.ob("D4", fm, p, not probs, "; ".join(probs) if probs else "pool = candidates minus forbidden drivers",
              key="driver pool " + ("internal" if logic.implies(pc, logic.B("eq:'internal'|strategy")) else
                                    "all" if logic.implies(pc, logic.B("eq:'all'|strategy")) else text(p)[:60]))
    # sizes ascend from 0 to max
    loops = [n for n in own_walk(f.node) if isinstance(n, ast.For) and isinstance(n.iter, ast.Call) and callee_name(n.iter) == "range"
             and any(x is cl for x in ast.walk(n))]
    probs = []
    if not loops:
        probs.append("driver set sizes are not enumerated with range()")
    else:
        r = loops[0].iter
        a = r.args[-1] if len(r.args) == 1 else (r.args[1] if len(r.args) >= 2 else None)
        if len(r.args) > 2 or (len(r.args) == 2 and text(r.args[0]) != "0") or text(a) != "max_drivers_per_succession_node + 1":
            probs.append(f"sizes range over `{text(r)}`, expected range(max_drivers_per_succession_node + 1) (ascending from 0, bound "
                         f"included)")
        if text(cl.iter.args[1]) != text(loops[0].target):
            probs.append("driver sets are not combinations(driver_pool, size)")
        dflt = [n for n in own_walk(f.node) if isinstance(n, ast.Assign) and text(n.targets[0]) == "max_drivers_per_succession_node"]
        if not dflt or not any(text(dflt[0].value) == f"len({nm})" for nm in inner_names):
            probs.append("default size bound is not the size of the (inner) motif")
        for d_ in dflt:
            # ... and it stands in for an omitted bound only: 0 is a bound (the empty set or nothing)
            pc_ = fm.pc(fm.cfgn(d_))
            na = logic.B("none:max_drivers_per_succession_node")
            if not (na[1] in logic.atoms(pc_) and logic.equivalent(pc_, na)):
                probs.append(f"line {d_.lineno}: the size bound is replaced under `{logic.show(pc_)[:80]}`, not exactly when it was "
                             f"omitted (`is None`): the bound 0 -- only the empty override -- is then treated as 'no bound' and "
                             f"oversized driver sets are reported")
    # all sizes are enumerated: a driver set of a larger size can be inclusion-minimal next to smaller ones
    for lp_ in ([loops[0]] if loops else []) + [cl]:
        for x in ast.walk(lp_):
            if isinstance(x, (ast.Break, ast.Return)) and fm.cfg.enclosing_loops(fm.cfgn(x))[:1] in ([loops[0]] if loops else [], [cl]):
                probs.append(f"line {x.lineno}: `{text(x)[:30]}` ends the enumeration of driver sets early: minimum-size sets were "
                             f"found, but larger inclusion-minimal sets (not supersets of them) are never tested")
    # ... every valuation of a set of variables is an override of its own ({a:1,b:0} and {a:0,b:1} can both force a motif)
    for lp_ in own_walk(f.node):
        if isinstance(lp_, ast.For) and isinstance(lp_.iter, ast.Call) and callee_name(lp_.iter) == "product":
            for x in ast.walk(lp_):
                if isinstance(x, (ast.Break, ast.Return)) and fm.cfg.enclosing_loops(fm.cfgn(x))[:1] == [lp_]:
                    probs.append(f"line {x.lineno}: `{text(x)[:30]}` leaves the loop over the valuations of a driver set: the other "
                                 f"valuations of the same variables that force the motif are never reported")
    # ... and the pool the sets are drawn from is the pool that was defined: no in-place change between the size rounds
    for n_ in own_walk(f.node):
        if isinstance(n_, ast.AugAssign) and text(n_.target) == POOL:
            probs.append(f"line {n_.lineno}: `{text(n_)[:60]}` shrinks the driver pool between the size rounds: larger inclusion-minimal "
                         f"sets that share a variable with a smaller driver set (but do not contain it) are never tested")
        elif isinstance(n_, ast.Call) and isinstance(n_.func, ast.Attribute) and text(n_.func.value) == POOL \
                and n_.func.attr in ("discard", "remove", "pop", "clear", "difference_update", "intersection_update",
                                     "symmetric_difference_update", "add", "update"):
            probs.append(f"line {n_.lineno}: `{text(n_)[:60]}` changes the driver pool in place")
    ck.ob("D4", fm, loops[0] if loops else f.node, not probs, "; ".join(sorted(set(probs))) if probs else
          "sizes 0..max ascending, sets = combinations(pool, size), no early exit", key="size enumeration")
    # subset skip
    probs = []
    DS = text(cl.target)
    conts = [n for n in own_walk(f.node) if isinstance(n, ast.Continue)]
    sk = [c for c in conts if isinstance(f.parents.get(c), ast.If) and "any(" in text(f.parents[c].test)]
    if len(sk) != 1:
        probs.append("no minimality filter (supersets of reported driver sets are reported again)")
    else:
        t = f.parents[sk[0]].test
        g = t.args[0] if isinstance(t, ast.Call) and t.args else None
        okf = False
        if isinstance(g, (ast.GeneratorExp, ast.ListComp)) and len(g.generators) == 1 and not g.generators[0].ifs \
                and text(g.generators[0].iter) == res:
            dv = text(g.generators[0].target)
            at = fm.cfgn(f.parents[sk[0]])

            def keyset(e):   # the key set of the reported driver set `dv`
                return text(e) in (f"set({dv})", f"{dv}.keys()", f"set({dv}.keys())", f"frozenset({dv})", f"frozenset({dv}.keys())")

            def dsset(e):    # the elements of the driver set under test
                e = fm.deref(e, at)
                return text(e) in (f"set({DS})", f"frozenset({DS})", DS)

            c_ = g.elt
            if isinstance(c_, ast.Compare) and len(c_.ops) == 1:
                if isinstance(c_.ops[0], ast.LtE):
                    okf = keyset(c_.left) and dsset(c_.comparators[0])
                elif isinstance(c_.ops[0], ast.GtE):
                    okf = keyset(c_.comparators[0]) and dsset(c_.left)
            elif isinstance(c_, ast.Call) and isinstance(c_.func, ast.Attribute) and len(c_.args) == 1:
                if c_.func.attr == "issubset":
                    okf = keyset(c_.func.value) and dsset(c_.args[0])
                elif c_.func.attr == "issuperset":
                    okf = dsset(c_.func.value) and text(fm.deref(c_.func.value, at)) != DS and (keyset(c_.args[0]) or text(c_.args[0]) == dv)
        if not okf and isinstance(g, (ast.GeneratorExp, ast.ListComp)) and len(g.generators) == 1 and not g.generators[0].ifs \
                and isinstance(g.generators[0].iter, ast.Name) and text(g.generators[0].iter) != res:
            # the key sets of the reported driver sets kept in a list of their own: filled with the key set of the set under test
            # wherever (and only where) a driver set is reported
            K = g.generators[0].iter.id
            kv = text(g.generators[0].target)
            at = fm.cfgn(f.parents[sk[0]])

            def dsset2(e):
                e = fm.deref(e, at)
                return text(e) in (f"set({DS})", f"frozenset({DS})", DS)
            c_ = g.elt
            shape = isinstance(c_, ast.Compare) and len(c_.ops) == 1 and (
                (isinstance(c_.ops[0], ast.LtE) and text(c_.left) == kv and dsset2(c_.comparators[0])) or
                (isinstance(c_.ops[0], ast.GtE) and text(c_.comparators[0]) == kv and dsset2(c_.left)))
            kapps = [c2 for c2 in own_walk(f.node) if isinstance(c2, ast.Call) and isinstance(c2.func, ast.Attribute) and c2.func.attr == "append"
                     and text(c2.func.value) == K]
            rapps = [c2 for c2 in own_walk(f.node) if isinstance(c2, ast.Call) and isinstance(c2.func, ast.Attribute) and c2.func.attr == "append"
                     and text(c2.func.value) == res]
            def sibling(a_, bs):
                pa = f.parents.get(f.stmt_of(a_))
                return any(f.parents.get(f.stmt_of(b_)) is pa and
                           any(f.stmt_of(a_) in getattr(pa, fld, []) and f.stmt_of(b_) in getattr(pa, fld, []) for fld in ("body", "orelse"))
                           for b_ in bs)
            others = [y for y in own_walk(f.node) if isinstance(y, ast.Name) and y.id == K and isinstance(y.ctx, ast.Store)]
            okf = shape and bool(kapps) and len(others) == 1 \
                and all(text(fm.deref(c2.args[0], fm.cfgn(c2))) in (f"set({DS})", f"frozenset({DS})") for c2 in kapps) \
                and all(sibling(r_, kapps) for r_ in rapps) and all(sibling(k_, rapps) for k_ in kapps)
        if not okf:
            probs.append(f"a driver set is skipped when `{text(t)}`; expected: when some reported driver set is a subset of it")
    ck.ob("D4", fm, sk[0] if sk else f.node, not probs, "; ".join(probs) if probs else
          "a set is skipped iff a reported driver set is contained in it", key="minimality filter")
    # successful flag and filter
    iv = prog.fm(CTRL, "Intervention.__init__")
    st = [n for n in own_walk(iv.f.node) if isinstance(n, ast.Assign) and text(n.targets[0]) == "self._successful"]
    probs = []
    if len(st) != 1:
        probs.append("successful flag not set once")
    else:
        v = st[0].value
        ctl = [p for p in iv.f.params() if p != "self"][0]
        tr = iv.translator(iv.cfgn(st[0]))
        want = tr.f(ast.parse(f"not any(not c for c in {ctl})", mode="eval").body)
        try:
            okv = text(v) == f"all({ctl})" or logic.equivalent(tr.f(v), want)
        except logic.TooBig:
            okv = False
        if not okv:
            probs.append(f"successful is `{text(v)}`, expected: no step has an empty list of driver sets")
    ck.ob("D4", iv, st[0] if st else iv.f.node, not probs, "; ".join(probs) if probs else "successful = every step has a driver set",
          key="successful flag")
    # every override that find_drivers reports is kept: the canonical form is built by order-preserving steps over the list
    # of a step (sorted / map / list comprehension); a dictionary or set keyed by part of an override (its variable names)
    # merges the overrides that share that part -- with strategy "all" several valuations of one variable set are reported
    probs = []
    for n_ in own_walk(iv.f.node):
        if isinstance(n_, (ast.DictComp, ast.SetComp)) or (isinstance(n_, ast.Call) and callee_name(n_) in ("set", "frozenset") and n_.args):
            probs.append(f"line {n_.lineno}: `{text(n_)[:60]}` collects the overrides of a step in a {'dictionary' if isinstance(n_, ast.DictComp) else 'set'}: "
                         f"overrides that agree on the key (e.g. the same variables with other values) replace each other")
        if isinstance(n_, (ast.ListComp, ast.GeneratorExp)) and any(g_.ifs for g_ in n_.generators):
            probs.append(f"line {n_.lineno}: `{text(n_)[:60]}` filters the overrides")
    # ... and every step arrives: the stored control is the given list itself, a comprehension over it without a filter, or
    # a list that receives one entry on every iteration of a loop over it
    ctl_p = next((p_ for p_ in iv.f.params() if p_ not in ("self",) and "control" in p_), None)
    stores_ = [n_ for n_ in own_walk(iv.f.node) if isinstance(n_, (ast.Assign, ast.AnnAssign)) and n_.value is not None
               and text(n_.targets[0] if isinstance(n_, ast.Assign) else n_.target) == "self._control"]
    if ctl_p is not None and len(stores_) == 1:
        v_ = stores_[0].value
        if is_empty_list(v_):
            apps_ = [c_ for c_ in own_walk(iv.f.node) if isinstance(c_, ast.Call) and isinstance(c_.func, ast.Attribute) and c_.func.attr == "append"
                     and text(c_.func.value) == "self._control"]
            okfill = False
            for c_ in apps_:
                lps_ = [l_ for l_ in iv.cfg.enclosing_loops(iv.cfgn(c_)) if isinstance(l_, ast.For)]
                if len(lps_) == 1 and isinstance(lps_[0].iter, ast.Name) and lps_[0].iter.id == ctl_p \
                        and any(isinstance(st_, ast.Expr) and st_.value is c_ for st_ in lps_[0].body) \
                        and not any(isinstance(y, (ast.Break, ast.Continue)) for y in ast.walk(lps_[0])):
                    okfill = True
            if not okfill:
                probs.append("the stored control does not receive one entry for every step of the given control (an empty or shorter "
                             "list compares equal to nothing the caller reported, and `successful` no longer describes it)")
    ck.ob("D4", iv, iv.f.node, not probs, "; ".join(probs) if probs else "the canonical form keeps every reported override",
          key="canonical form lossless")
    sc = prog.fm(CTRL, "succession_control")
    res_sc = next((r.value.id for r in own_walk(sc.f.node) if isinstance(r, ast.Return) and isinstance(r.value, ast.Name)), None)
    app = [n for n in own_walk(sc.f.node) if isinstance(n, ast.Call) and isinstance(n.func, ast.Attribute) and n.func.attr == "append"
           and text(n.func.value) == res_sc]
    probs = []
    if len(app) != 1:
        probs.append("interventions are not collected at one place")
    else:
        an = sc.cfgn(app[0])
        iv_e, iv_at = sc.deref_at(app[0].args[0], an)
        # `<the intervention>.successful` under whatever local name
        def atomize(e):
            if isinstance(e, ast.Attribute) and e.attr == "successful":
                v_, _ = sc.deref_at(e.value, an)
                if v_ is iv_e:
                    return logic.B("T:INTERVENTION.successful")
            return None
        facts = [x for x in sc.facts(an) if x[2].loop is None]
        tr = logic.Translator(lambda e: text(e), atomize=atomize)
        pc = logic.And(*[(tr.f(t) if p else logic.Not(tr.f(t))) for t, p, b in facts])
        want = logic.Or(logic.Not(logic.B("T:successful_only")), logic.B("T:INTERVENTION.successful"))
        filtered_later = False
        if pc is logic.TRUE or not logic.atoms(pc):
            # everything is collected, and the unsuccessful ones are dropped afterwards when only successful ones are wanted
            rets_ = [r for r in own_walk(sc.f.node) if isinstance(r, ast.Return) and isinstance(r.value, ast.Name) and r.value.id == res_sc]
            for r in rets_:
                for d_ in sc.cfg.reaching_defs(res_sc, sc.cfgn(r)):
                    v_ = d_.ast.value if d_.kind == "stmt" and isinstance(d_.ast, ast.Assign) else None
                    if isinstance(v_, ast.ListComp) and len(v_.generators) == 1 and isinstance(v_.generators[0].target, ast.Name) \
                            and text(v_.elt) == v_.generators[0].target.id and text(v_.generators[0].iter) == res_sc \
                            and len(v_.generators[0].ifs) == 1 and text(v_.generators[0].ifs[0]) == f"{v_.generators[0].target.id}.successful":
                        pcd = logic.And(*[(logic.Translator(lambda e: text(e)).f(t) if p else logic.Not(logic.Translator(lambda e: text(e)).f(t)))
                                          for t, p, b in sc.facts(d_) if b.loop is None])
                        if logic.equivalent(pcd, logic.B("T:successful_only")):
                            filtered_later = True
        if not filtered_later and not logic.equivalent(pc, want):
            probs.append(f"an intervention is returned under `{logic.show(pc)}`, expected `not successful_only or successful`")
        okc = isinstance(iv_e, ast.Call) and callee_name(iv_e) == "Intervention" and len(iv_e.args) == 3
        if okc:
            lp = [l for l in sc.cfg.enclosing_loops(an) if isinstance(l, ast.For)]
            succ_v = text(lp[0].target) if lp else None
            c0 = sc.deref(iv_e.args[0], iv_at)
            okc = isinstance(c0, ast.Call) and callee_name(c0) == "drivers_of_succession" and len(c0.args) >= 2 \
                and text(c0.args[1]) == succ_v and text(iv_e.args[1]) == "strategy" and text(iv_e.args[2]) == succ_v
        if not okc:
            probs.append("the intervention is not built from this succession's controls, the strategy and the succession")
    # arguments forwarded to the driver search
    dc = [n for n in own_walk(sc.f.node) if isinstance(n, ast.Call) and callee_name(n) == "drivers_of_succession"]
    for c in dc:
        for kw in ("strategy", "max_drivers_per_succession_node", "forbidden_drivers"):
            v = next((k.value for k in c.keywords if k.arg == kw), None)
            if v is None or text(v) != kw:
                probs.append(f"`{kw}` is not forwarded to the driver search (the user's constraint is ignored)")
    ck.ob("D4", sc, app[0] if app else sc.f.node, not probs, "; ".join(probs) if probs else
          "filter = not successful_only or successful; constraints forwarded", key="result filter")
    dos = prog.fm(CTRL, "drivers_of_succession")
    c2 = [n for n in own_walk(dos.f.node) if isinstance(n, ast.Call) and callee_name(n) == "find_drivers"]
    probs = []
    for c in c2:
        for kw in ("strategy", "max_drivers_per_succession_node", "forbidden_drivers"):
            v = next((k.value for k in c.keywords if k.arg == kw), None)
            if v is None or text(v) != kw:
                probs.append(f"`{kw}` is not forwarded to find_drivers")
    ck.ob("D4", dos, c2[0] if c2 else dos.f.node, not probs and bool(c2), "; ".join(probs) if probs else "constraints forwarded to find_drivers",
          key="forwarding")
    # no in-place mutation of caller-owned arguments
    for q in ("find_drivers", "drivers_of_succession", "successions_to_target", "succession_control"):
        g = prog.fm(CTRL, q)
        bad = _param_mutations(g)
        ck.ob("D4", g, g.f.node, not bad, f"{q} does not modify its arguments" if not bad else
              "; ".join(bad) + ": the caller's object is changed, so later successions / later calls see different constraints",
              key=f"{q} arguments")


MUT = {"add", "update", "append", "extend", "remove", "discard", "pop", "clear", "insert", "setdefault", "sort", "popitem",
       "difference_update", "intersection_update"}


def _param_mutations(fm: FuncModel) -> list[str]:
    f = fm.f
    out = []
    params = set(f.params())
    for n in own_walk(f.node):
        name = None
        what = None
        if isinstance(n, ast.AugAssign) and isinstance(n.target, ast.Name):
            name, what = n.target.id, f"`{text(n)[:50]}`"
        elif isinstance(n, ast.Call) and isinstance(n.func, ast.Attribute) and n.func.attr in MUT and isinstance(n.func.value, ast.Name):
            name, what = n.func.value.id, f"`{text(n)[:50]}`"
        elif isinstance(n, ast.Subscript) and isinstance(n.ctx, (ast.Store, ast.Del)) and isinstance(n.value, ast.Name):
            name, what = n.value.id, f"`{text(n)[:40]} = ...`"
        if name is None or name not in params:
            continue
        try:
            cn = fm.cfgn(n)
        except AnalysisError:
            continue
        defs = fm.cfg.reaching_defs(name, cn)
        if any(d.kind == "entry" for d in defs):
            ann = f.param_annotation(name) or ""
            if isinstance(n, ast.AugAssign) and not any(t in ann for t in ("set", "dict", "list", "Space")):
                continue  # numbers / strings: rebinding, not mutation
            out.append(f"line {n.lineno}: argument `{name}` is modified in place ({what})")
    return out


def _polar(e):
    """(core, negated): `not`, `not in` and `is not` peeled off"""
    neg = False
    while True:
        if isinstance(e, ast.UnaryOp) and isinstance(e.op, ast.Not):
            e, neg = e.operand, not neg
        elif isinstance(e, ast.Compare) and len(e.ops) == 1 and isinstance(e.ops[0], (ast.NotIn, ast.IsNot)):
            e, neg = ast.Compare(e.left, [ast.In() if isinstance(e.ops[0], ast.NotIn) else ast.Is()], e.comparators), not neg
        else:
            return e, neg


def d6(ck: Check) -> None:
    fm = ck.prog.fm(CTRL, "successions_to_target")
    f = fm.f
    sdp = f.params()[0]
    def iter_of(n):      # the iterated expression, also when it is first stored in a local
        return fm.deref(n.iter, fm.cfg.loop_header[n]) if isinstance(n.iter, ast.Name) else n.iter
    ps = [n for n in own_walk(f.node) if isinstance(n, ast.For) and "all_simple_paths" in text(iter_of(n))]
    probs = []
    if len(ps) != 1:
        raise AnalysisError("anchor vanished: path enumeration of successions_to_target")
    pl = ps[0]
    call = next(c for c in ast.walk(iter_of(pl)) if isinstance(c, ast.Call) and (dotted(c.func) or "").endswith("all_simple_paths"))
    kws = {k.arg: text(k.value) for k in call.keywords}
    args = [text(a) for a in call.args]
    endloop = [l for l in fm.cfg.enclosing_loops(fm.cfg.loop_header[pl]) if isinstance(l, ast.For)]
    end = text(endloop[0].target) if endloop else "?"
    if (args[:1] or [kws.get("G")]) != [f"{sdp}.dag"] or kws.get("source", args[1] if len(args) > 1 else None) != f"{sdp}.root()" \
            or kws.get("target", args[2] if len(args) > 2 else None) != end:
        probs.append(f"paths are enumerated by `{text(call)[:80]}`, expected all simple paths of the dag from the root to the end node")
    if "cutoff" in kws:
        probs.append("path length is cut off")
    ck.ob("D6", fm, pl, not probs, "; ".join(probs) if probs else "all simple paths root -> end node", key="paths")
    # motif lists along the path, product, append once
    probs = []
    ml = [n for n in ast.walk(pl) if isinstance(n, ast.ListComp) and "edge_all_stable_motifs" in text(n)]
    if len(ml) != 1:
        probs.append("motif lists along the path not found")
    else:
        lc = ml[0]
        c = lc.elt
        red = next((k.value for k in c.keywords if k.arg == "reduced"), None)
        if not is_true(red):
            probs.append("motifs are not reduced by the parent's space (steps would repeat values that are already fixed)")
        g = lc.generators[0]
        P_ = text(pl.target)
        # consecutive pairs of the whole path: zip stops at the shorter argument, so `zip(p, p[1:])` is the same thing;
        # also itertools.pairwise(p)
        if g.ifs or text(g.iter) not in (f"zip({P_}[:-1], {P_}[1:])", f"zip({P_}, {P_}[1:])", f"pairwise({P_})", f"itertools.pairwise({P_})"):
            probs.append(f"edges of the path are `{text(g.iter)}`, expected consecutive pairs of the whole path")
        if [text(a) for a in c.args[:2]] != [text(t) for t in g.target.elts]:
            probs.append("motifs are read for (child, parent) instead of (parent, child)")
    prod = [n for n in ast.walk(pl) if isinstance(n, ast.For) and isinstance(n.iter, ast.Call) and callee_name(n.iter) == "product"]
    if len(prod) != 1 or not (prod[0].iter.args and isinstance(prod[0].iter.args[0], ast.Starred)):
        probs.append("successions are not the product of the motif lists")
    else:
        pr = prod[0]
        res = None
        for r in own_walk(f.node):
            if isinstance(r, ast.Return) and isinstance(r.value, ast.Name):
                res = r.value.id
        apps = [fm.cfgn(n) for n in ast.walk(pr) if isinstance(n, ast.Call) and isinstance(n.func, ast.Attribute) and n.func.attr == "append"
                and text(n.func.value) == res]
        from .c13 import _within, _tbranch
        from .common import paths_imply
        hdr = fm.cfg.loop_header[pr]
        if not apps:
            probs.append("successions are not appended to the result")
        else:
            # every iteration that does not append is one where skip_feedforward_successions is on
            why = paths_imply(fm, _tbranch(fm, pr), hdr, logic.B("T:skip_feedforward_successions"), None,
                              stop={a.id for a in apps}, canon=True)
            if why is not None:
                probs.append(f"a succession is dropped although skip_feedforward_successions is off: {why}")
            for a in apps:
                if _within(fm, pr, a, set()) & {b.id for b in apps}:
                    probs.append("a succession can be appended twice")
        for x in ast.walk(pr):
            if isinstance(x, (ast.Break, ast.Return)) or (isinstance(x, ast.Delete)):
                pc = fm.pc(fm.cfgn(x))
                if not logic.implies(pc, logic.B("T:skip_feedforward_successions")):
                    probs.append(f"line {x.lineno}: `{text(x)[:40]}` drops successions although skip_feedforward_successions is off")
    ck.ob("D6", fm, prod[0] if prod else pl, not probs, "; ".join(probs) if probs else
          "successions = product of reduced motif lists along the path, each appended once", key="product")
    # the empty succession
    probs = []
    es = [n for n in own_walk(f.node) if isinstance(n, ast.Assign) and text(n.targets[0]) == "successions" and text(n.value) == "[[]]"]
    if es:
        pc = fm.pc(fm.cfgn(es[0]))
        want = logic.And(logic.B("T:found_valid_target_node"), logic.Not(logic.Lt("0", "len(successions)")))
        # "some node has no forbidden node below it", as a flag raised in the node loop or as the length of the list of
        # those nodes (the filter of that list being the test that the node loop skips on)
        listed = None
        for a_ in logic.atoms(pc):
            if a_[0] == "lt" and a_[1] == "0" and a_[2].startswith("len(") and a_[2] != "len(successions)":
                V = a_[2][4:-1]
                sd_ = fm.single_def(V, fm.cfgn(es[0])) if V.isidentifier() else None
                if sd_ and isinstance(sd_[1], ast.ListComp) and len(sd_[1].generators) == 1 and len(sd_[1].generators[0].ifs) == 1 \
                        and isinstance(sd_[1].generators[0].target, ast.Name) and text(sd_[1].elt) == sd_[1].generators[0].target.id \
                        and text(sd_[1].generators[0].iter).endswith(".node_ids()"):
                    c_, neg_ = _polar(sd_[1].generators[0].ifs[0])
                    tv_ = sd_[1].generators[0].target.id
                    for n_ in own_walk(f.node):
                        if isinstance(n_, ast.Continue) and isinstance(f.parents.get(n_), ast.If) and n_ in f.parents[n_].body:
                            lps_ = fm.cfg.enclosing_loops(fm.cfgn(n_))
                            if lps_ and isinstance(lps_[0], ast.For) and isinstance(lps_[0].target, ast.Name) \
                                    and text(lps_[0].iter) == text(sd_[1].generators[0].iter):
                                t_, tneg_ = _polar(f.parents[n_].test)
                                if neg_ != tneg_ and text(logic._rename(c_, tv_, lps_[0].target.id)) == text(t_):
                                    listed = a_
        if listed is None:
            # ... or as a quantifier over all nodes: any(<node does not reach a forbidden node>), the negation of the test
            # that the node loop skips on
            def meet(e):
                pol = True
                while True:
                    if isinstance(e, ast.UnaryOp) and isinstance(e.op, ast.Not):
                        e, pol = e.operand, not pol
                    elif isinstance(e, ast.Call) and callee_name(e) == "bool" and len(e.args) == 1:
                        e = e.args[0]
                    elif isinstance(e, ast.Compare) and len(e.ops) == 1 and isinstance(e.ops[0], (ast.Gt, ast.NotEq)) and text(e.comparators[0]) == "0" \
                            and isinstance(e.left, ast.Call) and callee_name(e.left) == "len" and e.left.args:
                        e = e.left.args[0]
                    else:
                        break
                if isinstance(e, ast.BinOp) and isinstance(e.op, ast.BitAnd):
                    return frozenset({text(e.left), text(e.right)}), pol
                if isinstance(e, ast.Call) and callee_name(e) == "isdisjoint" and len(e.args) == 1 and isinstance(e.func, ast.Attribute):
                    return frozenset({text(e.func.value), text(e.args[0])}), not pol
                return None, pol
            tst = f.parents.get(es[0])
            for q_ in (ast.walk(tst.test) if isinstance(tst, ast.If) else []):
                qq = logic.quantifier(q_)
                if qq is None or not qq[0] or not isinstance(qq[2], str) or not text(qq[1]).endswith(".node_ids()"):
                    continue
                m1, p1 = meet(qq[3])
                for n_ in own_walk(f.node):
                    if isinstance(n_, ast.Continue) and isinstance(f.parents.get(n_), ast.If) and n_ in f.parents[n_].body:
                        lps_ = fm.cfg.enclosing_loops(fm.cfgn(n_))
                        if lps_ and isinstance(lps_[0], ast.For) and isinstance(lps_[0].target, ast.Name) and text(lps_[0].iter) == text(qq[1]):
                            m2, p2 = meet(logic._rename(f.parents[n_].test, lps_[0].target.id, qq[2]))
                            if m1 is not None and m1 == m2 and p1 != p2:
                                anys = [a_ for a_ in logic.atoms(pc) if a_[0] == "b" and a_[1].startswith("any:")]
                                if len(anys) == 1:
                                    listed = anys[0]
        if listed is not None:
            want = logic.And(("atom", listed) if listed[0] == "b" else logic.Lt("0", listed[2]), logic.Not(logic.Lt("0", "len(successions)")))
        if not logic.equivalent(pc, want):
            probs.append(f"the empty succession is reported under `{logic.show(pc)}`")
        fv = [n for n in own_walk(f.node) if isinstance(n, ast.Assign) and text(n.targets[0]) == "found_valid_target_node" and is_true(n.value)]
        if not fv and listed is None:
            probs.append("found_valid_target_node is never set")
    ck.ob("D6", fm, es[0] if es else f.node, not probs, "; ".join(probs) if probs else
          "empty succession iff an end node exists and no path was listed (target holds without control)", key="empty succession")
