"""C02 -- a fully expanded diagram is exactly the hierarchy of percolated trap spaces (structural clauses)."""

from __future__ import annotations

import ast

from .. import logic
from ..program import FuncModel, call_arg
from ..report import Check
from ..repo import AnalysisError, dotted, own_walk, text
from .common import SD_MOD, callee_name, escapes, is_empty_list, is_false, is_none, is_true
from . import c04

EXPLANATION = (
    "(H1) node identity: the only node creator is dag.add_node in _ensure_node; it runs on the false edge of the lookup "
    "of the space key, the key and the stored space derive from the same percolate_space(self.symbolic, .) value, the id "
    "is the node count, the key is registered (rule engine of C04-T5); the root is _ensure_node(None, {}) in the "
    "constructor. (H2) successor protocol of _expand_one_node (engine of C04-T6): maximal trap spaces of the node -- "
    "global net with ensure_subspace = node space, or the node's own percolated net with every result joined with the "
    "node space --, source optimisation only at the root, every element reaches _ensure_node(node, .) through "
    "order/completeness-preserving steps, the list is provably not truncated at the limit (engine of C15-E5), "
    "expanded=True after the loop. (H3) motif bookkeeping: _ensure_edge records the "
    "motif on every path (new edge: motif=m, all_motifs=[m]; existing edge: all_motifs.append(m)); _ensure_node passes "
    "the unpercolated motif on; edge_stable_motif / edge_all_stable_motifs return the stored data, and their reduced "
    "variants remove exactly the variables fixed in the parent's space."
)
ASSUMPTIONS = [
    "the siphon encoding enumerates exactly the maximal trap spaces (C09 + clingo)",
    "AEON percolation is correct (C11 checks the delegation)",
]


def run(ck: Check) -> None:
    # H1 / H2: shared engines, reported under this property's rule names
    c04.t5(_Alias(ck, "T5", "H1"))
    c04.successor_protocol(ck, "H2")
    c04.source_variables(ck, "H2")   # "at the root: those fixing every source variable"
    from . import c15
    c15.e5(_Alias(ck, "E5", "H2"))  # the successor list is complete where children are created
    h1_root(ck)
    h3(ck)
    ck.floor("H1", 5)
    ck.floor("H2", 7)
    ck.floor("H3", 4)


class _Alias:
    """Check proxy that renames a rule (engine shared between properties)."""

    def __init__(self, ck: Check, old: str, new: str):
        self._ck, self._old, self._new = ck, old, new
        self.prog = ck.prog

    def ob(self, rule, *a, **k):
        return self._ck.ob(self._new if rule == self._old else rule, *a, **k)

    def __getattr__(self, n):
        return getattr(self._ck, n)


def h1_root(ck: Check) -> None:
    fm = ck.prog.fm(SD_MOD, "SuccessionDiagram.__init__")
    ens = [n for n in own_walk(fm.f.node) if isinstance(n, ast.Call) and callee_name(n) == "_ensure_node"]
    ok = len(ens) == 1 and is_none(call_arg(ens[0], 0, "parent_id")) and isinstance(call_arg(ens[0], 1, "stable_motif"), ast.Dict) \
        and not call_arg(ens[0], 1, "stable_motif").keys
    ck.ob("H1", fm, ens[0] if ens else fm.f.node, ok, "root = percolation of the unconstrained space" if ok else
          "the root is not created as _ensure_node(None, {}) (the percolation of the whole state space)", key="root")


def h3(ck: Check) -> None:
    prog = ck.prog
    fm = prog.fm(SD_MOD, "SuccessionDiagram._ensure_edge")
    f = fm.f
    ps = [p for p in f.params() if p != "self"]
    par, child, motif = ps[0], ps[1], ps[2]
    adds = [n for n in own_walk(f.node) if isinstance(n, ast.Call) and (dotted(n.func) or "").endswith("dag.add_edge")]
    apps = [n for n in own_walk(f.node) if isinstance(n, ast.Call) and isinstance(n.func, ast.Attribute) and n.func.attr == "append"
            and "all_motifs" in fm.key(n.func.value, fm.cfgn(n))]
    probs = []
    if len(adds) != 1:
        probs.append("edge creation not found")
    else:
        a = adds[0]
        kw = {k.arg: text(k.value) for k in a.keywords}
        if [text(x) for x in a.args[:2]] != [par, child]:
            probs.append("edge created between the wrong nodes")
        if kw.get("motif") != motif or kw.get("all_motifs") != f"[{motif}]":
            probs.append(f"a new edge is created with motif={kw.get('motif')}, all_motifs={kw.get('all_motifs')}; expected the stable "
                         f"motif and the one-element list of it")
        pc = fm.pc(fm.cfgn(a))
        he = [x for x in logic.atoms(pc) if x[0] == "b" and "has_edge" in x[1]]
        if not he or not logic.implies(pc, logic.Not(("atom", he[0]))):
            probs.append("add_edge is not restricted to missing edges (an existing edge's motif list would be overwritten)")
        # ... and the test is about this edge, parent first (in a DAG the reverse edge never exists, so the swapped test
        # always says "missing")
        for c_ in own_walk(fm.f.node):
            if isinstance(c_, ast.Call) and callee_name(c_) == "has_edge" and len(c_.args) == 2 \
                    and {text(x) for x in c_.args} == {par, child} and [text(x) for x in c_.args] != [par, child]:
                probs.append(f"line {c_.lineno}: `{text(c_)}` tests the reverse edge (child, parent): in a DAG it never exists, so add_edge "
                             f"runs every time and overwrites the motif list of an existing edge")
    if len(apps) != 1 or text(apps[0].args[0]) != motif or f"[{par}, {child}]" not in fm.key(apps[0].func.value, fm.cfgn(apps[0])):
        probs.append("a further stable motif of an existing edge is not appended to that edge's all_motifs")
    # the existing-edge path records the motif unless it is already recorded: an edge can be inserted again (a second
    # SCC expansion, an attachment into an expanded region), and successions_to_target multiplies the lengths of the
    # motif lists along a path, so duplicates make the control work grow with the call history, not with the diagram
    already = []
    if len(apps) == 1:
        an = fm.cfgn(apps[0])
        pc = fm.pc(an)
        lk = fm.key(apps[0].func.value, an)
        ina = logic.B(f"in:{motif}|{lk}")
        if ina[1] not in logic.atoms(pc) or not logic.implies(pc, logic.Not(ina)):
            probs.append("a stable motif is appended to an existing edge without testing that it is not recorded yet: re-inserting "
                         "the edge duplicates the motif, and the number of (identical) successions and the control work grow "
                         "as r**depth with the number r of repetitions")
        else:
            for b in fm.cfg.nodes:
                if b.kind == "branch" and b.test is not None and b.id in fm.cfg.g:
                    tnode = fm.cfg.nodes[next(iter(fm.cfg.g.predecessors(b.id)))]
                    ff = fm.formula(b.test, tnode)
                    ff = ff if b.pol else logic.Not(ff)
                    try:
                        if logic.atoms(ff) == {ina[1]} and logic.equivalent(ff, ina):
                            already.append(b)
                    except logic.TooBig:
                        pass
    rec = [fm.cfgn(x) for x in adds + apps] + already
    if rec and escapes(fm, fm.cfg.entry, rec, None, need_pre=False):
        probs.append("a path through _ensure_edge records no motif at all (e.g. an early return when the edge exists): the edge "
                     "then carries only some of the stable motifs that lead to the child")
    ck.ob("H3", fm, f.node, not probs, "; ".join(probs) if probs else
          "every call records its motif exactly once: new edge [m], existing edge append(m) unless present", key="motif accumulation")
    # _ensure_node passes the unpercolated motif
    en = prog.fm(SD_MOD, "SuccessionDiagram._ensure_node")
    calls = [n for n in own_walk(en.f.node) if isinstance(n, ast.Call) and callee_name(n) == "_ensure_edge"]
    eps = [p for p in en.f.params() if p != "self"]
    probs = []
    if len(calls) != 1:
        probs.append("_ensure_node does not create the edge at one place")
    else:
        c = calls[0]
        args = [text(a) for a in c.args]
        if args[0] != eps[0] or args[2] != eps[1]:
            probs.append(f"_ensure_edge called with {args}: the edge must go from the given parent and carry the given (unpercolated) motif")
        pc = en.pc(en.cfgn(c))
        if not logic.equivalent(pc, logic.Not(logic.B(f"none:{eps[0]}"))):
            probs.append(f"the edge is created under `{logic.show(pc)}`, expected: whenever a parent is given")
        from .common import paths_imply
        for r in own_walk(en.f.node):
            if isinstance(r, ast.Return) and r.value is not None:
                why = paths_imply(en, en.cfg.entry, en.cfgn(r), logic.B(f"none:{eps[0]}"), None, stop={en.cfgn(c).id}, canon=True)
                if why is not None:
                    probs.append(f"a child is returned without the edge from the given parent ({why})")
    ck.ob("H3", en, calls[0] if calls else en.f.node, not probs, "; ".join(probs) if probs else
          "child lookup/creation is always followed by the edge with the given motif", key="edge after node")
    # readers
    for q, fld in (("edge_all_stable_motifs", "all_motifs"), ("edge_stable_motif", "motif")):
        g = prog.fm(SD_MOD, f"SuccessionDiagram.{q}")
        gp = [p for p in g.f.params() if p != "self"]
        probs = []
        src = [n for n in own_walk(g.f.node) if isinstance(n, ast.Subscript) and isinstance(n.slice, ast.Constant) and n.slice.value == fld]
        if not src or not all(f"dag.edges[{gp[0]}, {gp[1]}]" in text(s.value) for s in src):
            probs.append(f"`{fld}` is not read from the edge ({gp[0]}, {gp[1]})")
        comps = [n for n in own_walk(g.f.node) if isinstance(n, ast.DictComp)]
        for dc in comps:
            gi = dc.generators[0]
            if len(gi.ifs) != 1 or not (isinstance(gi.ifs[0], ast.Compare) and isinstance(gi.ifs[0].ops[0], ast.NotIn)):
                probs.append("reduced motif is not filtered by `k not in <parent space>`")
                continue
            sp = gi.ifs[0].comparators[0]
            k = g.key(sp, g.cfgn(dc))
            if k != f"FIELD<self|{gp[0]}|space>":
                probs.append(f"reduced motifs drop the variables of `{k}`, not those fixed in the parent's space")
            if text(dc.key) != text(gi.target.elts[0]) or text(dc.value) != text(gi.target.elts[1]):
                probs.append("reduced motif changes keys or values")
        if not comps:
            probs.append("no reduced variant")
        for r in own_walk(g.f.node):
            if isinstance(r, ast.Return) and r.value is not None:
                pc = g.pc(g.cfgn(r))
                red = logic.B("T:reduced")
                t = text(r.value)
                plain = "all_motifs" == t or t.startswith("cast(BooleanSpace, self.dag.edges") or t == f"self.dag.edges[{gp[0]}, {gp[1]}]['{fld}']"
                if red[1] in logic.atoms(pc):
                    if logic.implies(pc, logic.Not(red)) and isinstance(r.value, (ast.Name,)) and r.value.id == "result":
                        probs.append("unreduced request answered with reduced motifs")
        ck.ob("H3", g, g.f.node, not probs, "; ".join(probs) if probs else f"{q}: stored motifs, reduced = minus the parent's fixed variables",
              key=q)
