"""C14 -- cached attractor data is never stale (typestate rules R1-R3)."""

from __future__ import annotations

import ast

from .. import logic
from ..program import FuncModel
from ..report import Check
from ..repo import AnalysisError, own_walk, text
from .common import (ATTR_FIELDS, SD_MOD, GrowthModel, callee_name, escapes, expanded_assertions, fresh_diagrams,
                     handle_stores, is_empty_list, is_false, is_none, is_true, region_of)

EXPLANATION = (
    "Typestate rule over every function of the package: (R1) every event that gives a node of a non-fresh "
    "diagram an out-edge (dag.add_edge, or a call of a primitive wrapper such as _ensure_node/_ensure_edge "
    "with a non-None parent) lies only on paths -- within one iteration when the parent is loop-dependent -- "
    "that also store None (or the justified empty list) into attractor_seeds, attractor_sets AND "
    "attractor_candidates of the same node handle, unless the path passes a test showing the node was already expanded; where the parent of "
    "a growth event cannot be tied to a handle of the function, the obligation moves to every "
    "`expanded = True` store of that function. (R2) every computed value stored into an attractor_* field "
    "is the result of the candidate/seed/set computation called for the same (diagram, node). (R3) seeds "
    "are substituted for candidates, and candidates are discarded, only where the seeds of the same node "
    "are known to be present. Decided on CFG paths with versioned node handles; nothing is executed."
)
ASSUMPTIONS = [
    "attribute dictionaries of diagram nodes are reached only through node_data(), dag.nodes[...] or cast() of "
    "those (checked: any other access pattern to dag.nodes is reported by C04-T2)",
    "exceptional exits are covered by C15, not here",
]

PRODUCERS = {
    "attractor_candidates": {"compute_attractor_candidates"},
    "attractor_seeds": {"compute_attractor_candidates", "node_attractor_candidates", "compute_attractors_symbolic",
                        "symbolic_attractor_fallback"},
    "attractor_sets": {"compute_attractors_symbolic", "symbolic_attractor_fallback"},
}


def is_reset_value(e: ast.AST | None) -> bool:
    return is_none(e) or is_empty_list(e)


def r5(ck: Check, gm: GrowthModel) -> None:
    """Between the reset of a node's attractor data and the point where the node has its successors, nothing asks a caching
    accessor to compute that data again: the answer would be computed for a node that still has no (or not all) successors,
    stored, and never discarded."""
    COMPUTING = {"node_attractor_candidates", "node_attractor_seeds", "node_attractor_sets", "_has_no_attractor_candidates"}
    for fm in ck.prog.models():
        if fm.f.key in gm.wrappers:
            continue
        evs = gm.events(fm)
        if not evs:
            continue
        fresh = fresh_diagrams(fm)
        for c in own_walk(fm.f.node):
            if not (isinstance(c, ast.Call) and callee_name(c) in COMPUTING and c.args):
                continue
            comp = next((k.value for k in c.keywords if k.arg == "compute"), None)
            if callee_name(c) != "_has_no_attractor_candidates" and (comp is None or is_false(comp)):
                continue
            if isinstance(c.func, ast.Attribute):
                diag_e, node_e = c.func.value, c.args[0]
            else:
                diag_e, node_e = c.args[0], (c.args[1] if len(c.args) > 1 else None)
            if node_e is None or (isinstance(diag_e, ast.Name) and diag_e.id in fresh):
                continue
            cn = fm.cfgn(c)
            try:
                hk = (fm.vkey(diag_e, cn), fm.vkey(node_e, cn))
            except AnalysisError:
                continue
            later = [g for g in evs if (fm.vkey(g.diag_expr, g.cfgn), fm.vkey(g.parent_expr, g.cfgn)) == hk
                     and g.cfgn.id in fm.cfg.reach_avoiding(cn, [])]
            if not later:
                # parents reached through an id map (sub-diagram attachment): any later growth of the same diagram may concern
                # this node
                later = [g for g in evs if fm.vkey(g.diag_expr, g.cfgn) == hk[0] and g.cfgn.id in fm.cfg.reach_avoiding(cn, [])
                         and not any(e.kind == "store" and e.hk == (fm.vkey(g.diag_expr, g.cfgn), fm.vkey(g.parent_expr, g.cfgn))
                                     for e in fm.field_events())
                         and g.parent_expr is not None and not is_none(g.parent_expr)]
            if not later:
                continue
            # data computed here is discarded again if a reset of the same node lies on every way to the growth
            resets = [e.cfgn for fld in ("attractor_candidates", "attractor_seeds") for e in handle_stores(fm, hk, fld) if is_reset_value(e.value)]
            bad = [g for g in later if g.cfgn.id in fm.cfg.reach_avoiding(cn, resets) and not g.resets]
            ck.ob("R5", fm, fm.f.stmt_of(c), not bad, "attractor data computed before the node grows is reset again on the way" if not bad else
                  f"`{text(c)[:60]}` computes (and caches) attractor data of `{text(node_e)}` before the node receives successors at line "
                  f"{bad[0].stmt.lineno}: the data describes the node without these successors and is never discarded afterwards",
                  key=f"compute before growth in {fm.f.name}")


def run(ck: Check) -> None:
    prog = ck.prog
    gm = GrowthModel(prog)
    ck.note("primitive growth wrappers: " + ", ".join(sorted(k.split(":")[1] for k in gm.wrappers)))
    r1(ck, gm)
    r5(ck, gm)
    r2(ck)
    r3(ck)
    r4(ck)
    ck.floor("R1", 8)
    ck.floor("R2", 4)
    ck.floor("R3", 2)


# ------------------------------------------------------------------------------------------ R1
def r1(ck: Check, gm: GrowthModel) -> None:
    for fm in ck.prog.models():
        if fm.f.key in gm.wrappers:
            continue
        evs = gm.events(fm)
        if not evs:
            continue
        fresh = fresh_diagrams(fm)
        unresolved = False
        for g in evs:
            if isinstance(g.diag_expr, ast.Name) and g.diag_expr.id in fresh:
                continue  # a diagram created in this function has no earlier cached data to invalidate
            hk = (fm.vkey(g.diag_expr, g.cfgn), fm.vkey(g.parent_expr, g.cfgn))
            resolvable = any(e.kind == "store" and e.hk == hk for e in fm.field_events())
            if not resolvable:
                unresolved = True
                ck.ob("R1", fm, g.stmt, True,
                      f"growth on parent `{text(g.parent_expr)}` that is not a handle of this function: "
                      f"obligation moved to the `expanded = True` stores of the function", )
                continue
            loop = region_of(fm, g.cfgn, [g.diag_expr, g.parent_expr])
            exempt = expanded_assertions(fm, hk, True)
            missing = []
            inner_reset = []
            if g.resets:
                # the wrapper discards the data itself -- but only while the parent is not marked expanded: a mark
                # stored by this function before the call switches that reset off
                marks = [e.cfgn for e in handle_stores(fm, hk, "expanded") if is_true(e.value)]
                stop_ = [fm.cfg.loop_header[loop]] if loop is not None else []   # one node per iteration of its region
                if not any(g.cfgn.id in fm.cfg.reach_avoiding(m_, stop_) for m_ in marks):
                    inner_reset = [g.cfgn]
            # the element of a loop whose collection was swept before (`for x in L: reset(x)` ... `for x in L: grow(x)`)
            swept = set()
            if loop is not None and isinstance(loop, ast.For) and isinstance(loop.target, ast.Name) \
                    and hk[1] == fm.vkey(ast.Name(loop.target.id, ast.Load()), g.cfgn):
                from .common import swept_reset
                swept = {fld for fld in ATTR_FIELDS if swept_reset(fm, loop, hk[0], fld, is_reset_value)}
            for fld in ("attractor_seeds", "attractor_sets"):
                cuts = [e.cfgn for e in handle_stores(fm, hk, fld) if is_reset_value(e.value)] + exempt
                if inner_reset or fld in swept:
                    continue
                esc = escapes(fm, g.cfgn, cuts, loop)
                if esc:
                    missing.append(f"{fld} (path reaches {esc})")
            # stale candidates would be re-validated against the new children (a fixed point inside a child
            # becomes a seed of the parent), and they are themselves reported (node_attractor_candidates without
            # recomputation, expanded_attractor_candidates): they must go too, also where the seeds are replaced
            # by the empty mark
            cuts = [e.cfgn for e in handle_stores(fm, hk, "attractor_candidates") if is_reset_value(e.value)] + exempt
            esc = None if inner_reset or "attractor_candidates" in swept else escapes(fm, g.cfgn, cuts, loop)
            if esc:
                missing.append(f"attractor_candidates (path reaches {esc})")
            if g.resets and not inner_reset and missing:
                missing.append(f"({g.via} discards the data only for a parent that is not marked expanded, and `{text(g.parent_expr)}` "
                               f"is marked before this call)")
            ck.ob("R1", fm, g.stmt, not missing,
                  ("node `%s` gains a successor (%s) but %s not discarded on every path" % (
                      text(g.parent_expr), g.via, " and ".join(missing) + " is/are")) if missing else
                  f"growth on `{text(g.parent_expr)}` via {g.via}: seeds and sets reset on every path")
        if unresolved:
            for e in fm.field_events():
                if e.kind != "store" or e.field != "expanded" or not is_true(e.value):
                    continue
                if e.diag in fresh:
                    continue
                # only handles that can be parents: skip handles that are provably targets of this
                # function's own node creation with no later edge (minimal traps) -- none here
                loop = region_of(fm, e.cfgn, [e.node.value])
                exempt = expanded_assertions(fm, e.hk, True)
                missing = []
                for fld in ATTR_FIELDS:
                    cuts = [x.cfgn for x in handle_stores(fm, e.hk, fld) if is_none(x.value)] + exempt
                    # the reset must precede the mark on every path from the region start
                    if _reaches_without(fm, e.cfgn, cuts, loop):
                        missing.append(fld)
                ck.ob("R1", fm, e.stmt, not missing,
                      (f"node `{e.nid}` is marked expanded in a function that attaches edges to parents it "
                       f"cannot name, without discarding {', '.join(missing)} first (or testing that the node "
                       f"was already expanded)") if missing else
                      f"mark of `{e.nid}` preceded by reset or already-expanded test on every path")
                # "already expanded" excuses the reset only for a node that has its own complete successor set: a skip node is
                # flagged expanded as well, and the attachment gives it successors it did not have
                if exempt and not missing:
                    not_skipped = expanded_assertions(fm, e.hk, False, field="skipped")
                    stale = []
                    for fld in ATTR_FIELDS:
                        cuts = [x.cfgn for x in handle_stores(fm, e.hk, fld) if is_none(x.value)] + not_skipped
                        if _reaches_without(fm, e.cfgn, cuts, loop):
                            stale.append(fld)
                    ck.ob("R1", fm, e.stmt, not stale,
                          f"`{e.nid}`: the data of a skip node is discarded as well" if not stale else
                          f"`{e.nid}` keeps {', '.join(stale)} when it is already flagged expanded -- which a skip node is (skip_remaining, "
                          f"skip_to_minimal, expand_minimal_spaces(skip_ignored=True)): the attachment then gives the skip node new "
                          f"successors while the data computed for its old successor set (every attractor outside the minimal trap "
                          f"spaces) is still reported, so attractors inside the new successors are counted twice",
                          key="skip node grows: " + ("a node copied in a loop" if fm.cfg.enclosing_loops(e.cfgn) else "the attachment node"))


def _reaches_without(fm: FuncModel, at, cuts, loop) -> bool:
    from .common import reach_stop
    cfg = fm.cfg
    cut_ids = {c.id for c in cuts}
    if loop is not None:
        header = cfg.loop_header[loop]
        start = next(cfg.nodes[s] for s in cfg.g.successors(header.id)
                     if cfg.nodes[s].kind == "branch" and cfg.nodes[s].pol)
        stops = {header.id}
    else:
        start = cfg.entry
        stops = set()
    if start is at:
        return True
    return at.id in reach_stop(fm, start, cut_ids, stops)


# ------------------------------------------------------------------------------------------ R4
def r4(ck: Check) -> None:
    """Everything a diagram remembers about its nodes lives in the node data, where the reset discipline (R1-R3), the
    reclaim table and the persistence rules of C16 can see it. The attributes of the diagram object itself are set when it
    is built or unpickled; a method that assigns one later is keeping state of its own. That is accepted only for a value
    derived from the diagram's own normalised network objects (`self.network`, `self.symbolic`) -- laziness -- and not for
    anything computed from the nodes, the size of the diagram, or an object the caller still owns."""
    prog = ck.prog
    n = 0
    for fm in prog.models():
        f = fm.f
        if f.cls != "SuccessionDiagram" or f.name in ("__init__", "__setstate__") or f.parent is not None:
            continue
        for st in own_walk(f.node):
            tgts = st.targets if isinstance(st, ast.Assign) else [st.target] if isinstance(st, (ast.AugAssign, ast.AnnAssign)) else []
            for t in tgts:
                if not (isinstance(t, ast.Attribute) and isinstance(t.value, ast.Name) and t.value.id == "self"):
                    continue
                n += 1
                val = getattr(st, "value", None)
                bad = None
                if val is None:
                    continue
                seen: set[str] = set()
                todo = [(val, fm.cfgn(st))]
                while todo and bad is None:
                    e, at = todo.pop()
                    for y in ast.walk(e):
                        if isinstance(y, ast.Attribute) and isinstance(y.value, ast.Name) and y.value.id == "self":
                            par = f.parents.get(y)
                            called = isinstance(par, ast.Call) and par.func is y
                            if called or y.attr not in ("network", "symbolic"):
                                bad = f"self.{y.attr}{'(..)' if called else ''}"
                        elif isinstance(y, ast.Call) and isinstance(y.func, ast.Name) and y.func.id == "len" and y.args \
                                and isinstance(y.args[0], ast.Name) and y.args[0].id == "self":
                            bad = "len(self)"
                        elif isinstance(y, ast.Name) and isinstance(y.ctx, ast.Load) and y.id not in ("self",) and y.id not in f.params() \
                                and y.id not in seen:
                            seen.add(y.id)
                            for d in fm.cfg.reaching_defs(y.id, at):
                                a = d.ast
                                if d.kind == "stmt" and isinstance(a, (ast.Assign, ast.AnnAssign)) and getattr(a, "value", None) is not None:
                                    todo.append((a.value, d))
                                elif d.kind in ("for", "with"):
                                    todo.append((a.iter if d.kind == "for" else a.items[0].context_expr, d))
                ck.ob("R4", fm, st, bad is None,
                      f"`self.{t.attr}` derived from the diagram's own network objects only" if bad is None else
                      f"`self.{t.attr}` is assigned outside the constructor from `{bad}`: state that the diagram keeps about itself "
                      f"beside the node data is invisible to the invalidation on growth, to reclaim_node_data and to pickling, so "
                      f"what it answers later depends on what was asked before", key=f"attribute {t.attr} set in {f.name}")
    if n == 0:
        ck.ob("R4", prog.fm(SD_MOD, "SuccessionDiagram.__init__"), prog.fm(SD_MOD, "SuccessionDiagram.__init__").f.node, True,
              "no method assigns an attribute of the diagram after construction", key="no late attributes")


# ------------------------------------------------------------------------------------------ R2
def _origins(fm: FuncModel, e: ast.AST, at, depth=0) -> list[tuple[str, ast.AST]]:
    """Trace a stored value back to its producing expressions: list of (kind, node) with kind in
    'call' | 'empty' | 'none' | 'load' | 'other'."""
    if depth > 6:
        return [("other", e)]
    if is_none(e):
        return [("none", e)]
    if is_empty_list(e):
        return [("empty", e)]
    if isinstance(e, ast.Tuple):
        return [("tuple", e)]
    if isinstance(e, ast.Call):
        return [("call", e)]
    if isinstance(e, ast.Subscript) and isinstance(e.slice, ast.Constant):
        if isinstance(e.slice.value, int):
            out = []
            for k, n in _origins(fm, e.value, at, depth + 1):
                if k == "tuple" and e.slice.value < len(n.elts):
                    out += _origins(fm, n.elts[e.slice.value], at, depth + 1)
                else:
                    out.append((k, n))
            return out
        if fm.handle(e.value, at) is not None:
            return [("load", e)]
    if isinstance(e, ast.Name):
        defs = fm.cfg.reaching_defs(e.id, at)
        if not defs:
            return [("other", e)]
        out = []
        for d in defs:
            a = d.ast
            if d.kind == "stmt" and isinstance(a, ast.Assign) and len(a.targets) == 1:
                t = a.targets[0]
                if isinstance(t, ast.Name):
                    out += _origins(fm, a.value, d, depth + 1)
                    continue
                if isinstance(t, ast.Tuple) and any(isinstance(x, ast.Name) and x.id == e.id for x in t.elts):
                    out += _origins(fm, a.value, d, depth + 1)
                    continue
            if d.kind == "stmt" and isinstance(a, ast.AnnAssign) and a.value is not None:
                out += _origins(fm, a.value, d, depth + 1)
                continue
            out.append(("other", a if a is not None else e))
        return out
    return [("other", e)]


def r2(ck: Check) -> None:
    for fm in ck.prog.models():
        for e in fm.field_events():
            if e.kind != "store" or e.field not in ATTR_FIELDS:
                continue
            if is_none(e.value) or is_empty_list(e.value) or e.value is None:
                continue
            bad = []
            for kind, node in _origins(fm, e.value, e.cfgn):
                if kind in ("empty",):
                    continue
                if kind == "call":
                    nm = callee_name(node)
                    if nm not in PRODUCERS[e.field]:
                        bad.append(f"value produced by `{nm}(...)`, not by a {e.field} computation")
                        continue
                    dn = fm.cfgn(node)
                    # (diagram, node) arguments of the producer must denote the stored handle
                    if isinstance(node.func, ast.Attribute) and nm.startswith("node_"):
                        diag, nid = node.func.value, (node.args[0] if node.args else None)
                    else:
                        diag = node.args[0] if node.args else None
                        nid = node.args[1] if len(node.args) > 1 else None
                    if diag is None or nid is None:
                        bad.append(f"cannot identify the node argument of `{nm}`")
                        continue
                    if (fm.key(diag, dn), fm.key(nid, dn)) != (e.diag, e.nid):
                        bad.append(f"value computed for ({fm.key(diag, dn)}, {fm.key(nid, dn)}) stored into "
                                   f"node ({e.diag}, {e.nid})")
                elif kind == "load":
                    ld = fm.handle(node.value, fm.cfgn(node))
                    if ld != (e.diag, e.nid) or node.slice.value not in ("attractor_candidates", "attractor_seeds"):
                        bad.append(f"value loaded from `{text(node)}` stored into {e.field} of ({e.diag}, {e.nid})")
                else:
                    bad.append(f"value of unknown origin `{text(node)[:60]}`")
            ck.ob("R2", fm, e.stmt, not bad,
                  "; ".join(bad) if bad else f"{e.field} of ({e.diag},{e.nid}) <- own computation")


# ------------------------------------------------------------------------------------------ R3
def r3(ck: Check) -> None:
    # (a) discarding candidates outside a full reset needs `seeds is not None`
    for fm in ck.prog.models():
        for e in fm.field_events():
            if e.kind == "store" and e.field == "attractor_candidates" and is_none(e.value):
                loop = region_of(fm, e.cfgn, [e.node.value])
                seeds_reset = [x.cfgn for x in handle_stores(fm, e.hk, "attractor_seeds") if is_none(x.value)]
                full = escapes(fm, e.cfgn, seeds_reset, loop) is None and bool(seeds_reset)
                if full:
                    continue  # part of a complete reset (R1)
                want = logic.Not(logic.B(f"none:FIELD<{e.diag}|{e.nid}|attractor_seeds>"))
                pc = fm.pc(e.cfgn)
                ok = logic.implies(pc, want)
                ck.ob("R3", fm, e.stmt, ok,
                      "candidates discarded only where seeds of the same node are present" if ok else
                      f"attractor_candidates of `{e.nid}` discarded although its seeds may be unknown "
                      f"(path condition: {logic.show(pc)})")
    # (b) an accessor of candidates may answer with the seeds only if candidates are absent and seeds present
    for fm in ck.prog.models():
        loads = {}
        for e in fm.field_events():
            if e.kind == "load":
                loads[id(e.node)] = e
        for n in own_walk(fm.f.node):
            if not isinstance(n, ast.Return) or n.value is None:
                continue
            if "candidates" not in fm.f.name:
                continue
            cn = fm.cfgn(n)
            for kind, node in _origins(fm, n.value, cn):
                if kind == "load" and node.slice.value == "attractor_seeds":
                    h = fm.handle(node.value, fm.cfgn(node))
                    want = logic.And(logic.B(f"none:FIELD<{h[0]}|{h[1]}|attractor_candidates>"),
                                     logic.Not(logic.B(f"none:FIELD<{h[0]}|{h[1]}|attractor_seeds>")))
                    pc = fm.pc(cn, atomize=_field_alias_atoms(fm))
                    ok = logic.implies(pc, want)
                    ck.ob("R3", fm, n, ok,
                          "seeds answered for candidates only when candidates are absent and seeds present" if ok
                          else f"seeds returned as candidates on a path where that is not established "
                               f"(path condition: {logic.show(pc)})")


def _field_alias_atoms(fm: FuncModel):
    """`x is None` where x is a local copy of a node field counts as a test of the field (the copy is
    what the function goes on to use)."""

    def atomize(e: ast.AST):
        if isinstance(e, ast.Compare) and len(e.ops) == 1 and isinstance(e.ops[0], (ast.Is, ast.IsNot)) \
                and is_none(e.comparators[0]) and isinstance(e.left, ast.Name):
            cn = fm.cfgn(e)
            sd = fm.single_def(e.left.id, cn)
            if sd is not None:
                d, rhs = sd
                if isinstance(rhs, ast.Subscript) and isinstance(rhs.slice, ast.Constant) \
                        and fm.handle(rhs.value, d) is not None and not fm.stale(d, cn, rhs):
                    h = fm.handle(rhs.value, d)
                    at = logic.B(f"none:FIELD<{h[0]}|{h[1]}|{rhs.slice.value}>")
                    return at if isinstance(e.ops[0], ast.Is) else logic.Not(at)
        return None

    return atomize
