"""C04 -- lazily built diagrams are a faithful part of the full diagram.

Typestate invariant "expanded=False => no out-edge; expanded=True => all successors present;
one node per trap space", decided on every path of every function that can add an edge.
"""

from __future__ import annotations

import ast

from .. import logic
from ..program import FuncModel, call_arg
from ..report import Check
from ..repo import AnalysisError, dotted, own_walk, text
from .common import (SD_MOD, GrowthModel, callee_name, escapes, expanded_assertions, fresh_diagrams, handle_stores,
                     is_false, is_none, is_true, reach_stop, region_of)

EXPLANATION = (
    "Typestate analysis of the `expanded` flag against edge creation. (T1) after every event that gives a node P "
    "an out-edge, every normal path of the function (iteration, when P is loop-dependent) stores "
    "expanded=True on the same versioned handle P, and no path leads from such a store back to a growth event "
    "on P; for the one function whose edge parents are looked up through an id map (sub-diagram attachment) the "
    "copy protocol is checked instead: same iteration domains, parent and child ids taken from the same map, "
    "non-minimal copied nodes and the attachment node marked, minimal ones not. (T2) `expanded` is only ever "
    "stored as the literal True (False at creation), nothing removes nodes or edges, dag.add_edge / dag.add_node "
    "occur only in the primitive wrappers. (T3) every growth event on a node of a pre-existing diagram is "
    "dominated by a test that the node is not yet expanded (expansion is idempotent), with one reviewed exception. "
    "(T5) node creation is on the false edge of the space-key lookup, the key stored in node_indices, the key "
    "looked up and the stored space derive from the same percolated value, and the new id is the node count. "
    "(T6) the successor protocol of single-node expansion: the complete solver result, restricted to the node, "
    "reaches _ensure_node through order/completeness preserving steps only. (T8) source shortcuts of the block "
    "expansion are taken only under the optimize flag."
)
ASSUMPTIONS = [
    "the trap-space solver enumerates all maximal trap spaces when not limited (C09) and is deterministic (C19)",
    "the source-SCC expansion is specified for fresh diagrams only; its root shortcut is exempt from T3 (reviewed)",
    "exceptional exits are covered by C15-E1/E2",
]

T3_EXEMPT = {
    # function key -> reason (one named symbol each)
    "biobalm._sd_algorithms.expand_source_SCCs:expand_source_SCCs":
        "source-SCC expansion is defined for a fresh diagram (root unexpanded by contract, C03); not a plain strategy",
}


def run(ck: Check) -> None:
    gm = GrowthModel(ck.prog)
    t1(ck, gm)
    t2(ck, gm)
    t3(ck, gm)
    t5(ck)
    successor_protocol(ck, "T6")
    t8(ck, gm)
    t9(ck, gm)
    ck.floor("T9", 5)
    source_variables(ck, "T6")
    ck.floor("T1", 8)
    ck.floor("T2", 14)
    ck.floor("T3", 5)
    ck.floor("T5", 4)
    ck.floor("T6", 4)
    ck.floor("T8", 1)


def source_variables(ck: Check, rule: str) -> None:
    """The source variables that every stable motif of the root must fix: *all* variables of the net (also those without
    any transition, e.g. an input that regulates nothing) minus the variables that some transition changes."""
    from .symstr import SymEval
    fm = ck.prog.fm("biobalm.petri_net_translation", "extract_source_variables")
    f = fm.f
    net = f.params()[0]
    se = SymEval(fm)
    probs = []
    filtered_form = False
    rets = [r for r in own_walk(f.node) if isinstance(r, ast.Return) and r.value is not None]
    if not rets:
        probs.append("nothing is returned")
    for r in rets:
        base = se.val(r.value, fm.cfgn(r))
        VN = f"extract_variable_names({net})"
        CH = f"{net}.nodes(data='change')"
        # ... also written as a set difference with the `change` attributes of all nodes
        if base == f"({VN} Sub map(elem({CH}).1,{CH}))":
            base = VN
        if base != VN:
            # ... or as a filter of the list of all names: [v for v in all_names if v not in changed], changed taken from the
            # `change` attributes
            col = se.collection(r.value, fm.cfgn(r))
            if col and len(col) == 1 and col[0][0] == f"elem({VN})":
                ats = [a_ for a_ in logic.atoms(col[0][1]) if a_[0] == "b"]
                if len(ats) == 1 and ats[0][1].startswith(f"in:elem({VN})|") and "nodes(data='change')" in ats[0][1].replace('"', "'") \
                        and logic.equivalent(col[0][1], logic.Not(("atom", ats[0]))):
                    base = VN
                    filtered_form = True
        if base != VN:
            probs.append(f"the candidates are `{base[:90]}`, not all variables of the net: a variable that no transition reads or "
                         f"changes (an input that regulates nothing) is no longer a source, and the root's successors do not "
                         f"fix it")
    # what is taken away: only variables named by the `change` attribute of a transition
    removed = []
    for c in own_walk(f.node):
        if isinstance(c, ast.Call) and isinstance(c.func, ast.Attribute) and c.func.attr in ("remove", "discard") and c.args:
            removed.append((c, c.args[0]))
    for c, x in removed:
        tok = se.val(x, fm.cfgn(c))
        if "nodes(data='change')" not in tok.replace('"', "'") and "change" not in tok:
            probs.append(f"line {c.lineno}: `{text(x)}` is removed from the sources although it is not the variable changed by a transition")
        lps = fm.cfg.enclosing_loops(fm.cfgn(c))
        if not lps or any(isinstance(z, (ast.Break, ast.Return)) for z in ast.walk(lps[0])):
            probs.append("not every transition is examined")
    if not removed and not filtered_form and not any("Sub" in se.val(r.value, fm.cfgn(r)) for r in rets):
        if not any(isinstance(x, (ast.SetComp, ast.ListComp, ast.BinOp)) for r in rets for x in ast.walk(fm.deref(r.value, fm.cfgn(r)))):
            probs.append("changed variables are not excluded")
    ck.ob(rule, fm, f.node, not probs, "; ".join(sorted(set(probs))) if probs else
          "sources = all variables of the net minus those changed by a transition", key="source variables of the net")


# ------------------------------------------------------------------------------------------ T1
def t1(ck: Check, gm: GrowthModel) -> None:
    for fm in ck.prog.models():
        if fm.f.key in gm.wrappers:
            continue
        evs = gm.events(fm)
        unresolved = []
        for g in evs:
            hk = (fm.vkey(g.diag_expr, g.cfgn), fm.vkey(g.parent_expr, g.cfgn))
            marks = [e for e in handle_stores(fm, hk, "expanded") if is_true(e.value)]
            if not any(e.kind == "store" and e.hk == hk for e in fm.field_events()):
                unresolved.append(g)
                continue
            loop = region_of(fm, g.cfgn, [g.diag_expr, g.parent_expr])
            esc = escapes(fm, g.cfgn, [m.cfgn for m in marks], loop, need_pre=False)
            problems = []
            if esc:
                problems.append(f"a path from the edge creation reaches {esc} without `expanded = True` on the parent")
            # no mark before a later growth event of the same batch
            stops = {fm.cfg.exit.id}
            if loop is not None:
                stops.add(fm.cfg.loop_header[loop].id)
            for m in marks:
                if g.cfgn.id in reach_stop(fm, m.cfgn, set(), stops):
                    problems.append(f"parent is marked expanded at line {m.stmt.lineno} before this edge creation")
            ck.ob("T1", fm, g.stmt, not problems,
                  "; ".join(problems) if problems else
                  f"parent `{text(g.parent_expr)}` finalised on every path after {g.via}")
        if unresolved:
            attach_protocol(ck, fm, unresolved)


def attach_protocol(ck: Check, fm: FuncModel, growth) -> None:
    """Copy protocol of a function that adds edges between ids looked up in a map M:
    for a in X.node_ids(): for b in X.node_successors(a): edge(M[a], M[b])."""
    f = fm.f
    for g in growth:
        problems = []
        par, child = g.parent_expr, call_arg(g.call, 1, "child_id")
        dpar = _map_lookup(fm, par, g.cfgn)
        dchild = _map_lookup(fm, child, g.cfgn) if child is not None else None
        if dpar is None or dchild is None or dpar[0] != dchild[0]:
            ck.ob("T1", fm, g.stmt, False,
                  f"edge between `{text(par)}` and `{text(child) if child is not None else '?'}`: parent is not a "
                  f"handle of this function and the ids do not come from one id map")
            continue
        mname = dpar[0]
        loops = [l for l in fm.cfg.enclosing_loops(g.cfgn) if isinstance(l, ast.For)]
        if len(loops) < 2:
            problems.append("edge copy is not inside `for a in X.node_ids(): for b in X.node_successors(a)`")
        else:
            inner, outer = loops[0], loops[1]
            src_outer = _iter_call(outer.iter, "node_ids")
            src_inner = _iter_call(inner.iter, "node_successors")
            if src_outer is None or src_inner is None or text(src_outer) != text(src_inner):
                problems.append("the copy loops do not range over all nodes / all successors of one source diagram")
            else:
                if not (isinstance(outer.target, ast.Name) and text(dpar[1]) == outer.target.id
                        and isinstance(inner.target, ast.Name) and text(dchild[1]) == inner.target.id):
                    problems.append("parent/child ids are not the images of the loop's (node, successor) pair")
                if inner.iter.args and text(inner.iter.args[0]) != outer.target.id:
                    problems.append("successors are taken from a different node than the edge's parent")
                for l in (inner, outer):
                    for s in ast.walk(l):
                        if isinstance(s, (ast.Break, ast.Continue, ast.Return)) and _before(fm, s, g.stmt, l):
                            problems.append(f"line {s.lineno}: `{text(s)}` can skip an edge of the copied diagram")
                # the map is filled for every node of the same source diagram, marking non-minimal ones
                problems += _map_fill_protocol(fm, mname, text(src_outer), g)
        ck.ob("T1", fm, g.stmt, not problems, "; ".join(problems) if problems else
              f"sub-diagram copy protocol: edges M[a]->M[b] for all (a, b), non-minimal images and the attachment "
              f"node marked expanded")


def _before(fm: FuncModel, s: ast.AST, target: ast.stmt, loop) -> bool:
    """Does statement s precede `target` inside the loop body (so that it can skip it)?"""
    return s.lineno < target.lineno or (s.lineno == target.lineno and s.col_offset < target.col_offset)


def _iter_call(it: ast.AST, name: str) -> ast.AST | None:
    if isinstance(it, ast.Call) and isinstance(it.func, ast.Attribute) and it.func.attr == name:
        return it.func.value
    if isinstance(it, ast.Call) and callee_name(it) in ("sorted", "list") and it.args:
        return _iter_call(it.args[0], name)
    return None


def _map_lookup(fm: FuncModel, e: ast.AST | None, at) -> tuple[str, ast.AST] | None:
    """e (or its single definition) is `M[k]` for a local dict M: return (M, k)."""
    if e is None:
        return None
    if isinstance(e, ast.Name):
        sd = fm.single_def(e.id, at)
        if sd is None:
            return None
        e = sd[1]
    if isinstance(e, ast.Subscript) and isinstance(e.value, ast.Name):
        return e.value.id, e.slice
    return None


def _map_fill_protocol(fm: FuncModel, mname: str, src: str, g) -> list[str]:
    problems: list[str] = []
    f = fm.f
    fills = []
    init = None
    for n in own_walk(f.node):
        if isinstance(n, ast.Subscript) and isinstance(n.ctx, ast.Store) and isinstance(n.value, ast.Name) \
                and n.value.id == mname:
            fills.append(n)
        if isinstance(n, (ast.Assign, ast.AnnAssign)):
            tg = n.targets[0] if isinstance(n, ast.Assign) else n.target
            if isinstance(tg, ast.Name) and tg.id == mname and isinstance(n.value, ast.Dict):
                init = n
    k0 = init.value.keys[0] if init is not None and len(init.value.keys) == 1 else None
    if isinstance(k0, ast.Name):
        k0 = fm.deref(k0, fm.cfgn(init))      # `root = scc_sd.root()` kept in a local
    if k0 is None or not (isinstance(k0, ast.Call) and callee_name(k0) == "root" and text(k0.func.value) == src):
        problems.append(f"id map `{mname}` is not initialised with the source root mapped to the attachment node")
        return problems
    attach = init.value.values[0]
    if len(fills) != 1:
        problems.append(f"id map `{mname}` is filled at {len(fills)} places (expected one copy loop)")
        return problems
    fill = fills[0]
    fstmt = f.stmt_of(fill)
    fn = fm.cfgn(fill)
    floops = [l for l in fm.cfg.enclosing_loops(fn) if isinstance(l, ast.For)]
    if not floops or _iter_call(floops[0].iter, "node_ids") is None or text(_iter_call(floops[0].iter, "node_ids")) != src:
        problems.append(f"id map `{mname}` is not filled for every node of `{src}`")
        return problems
    floop = floops[0]
    key_ok = isinstance(floop.target, ast.Name) and text(fill.slice) == floop.target.id
    if not key_ok:
        problems.append("id map is not keyed by the copied node's id")
    # value: result of _ensure_node(None, <space of the copied node joined with the attachment space>)
    val = fstmt.value
    img = val.id if isinstance(val, ast.Name) else None
    origin = None
    if img:
        sd = fm.single_def(img, fn)
        origin = sd[1] if sd else None
    if not (isinstance(origin, ast.Call) and callee_name(origin) == "_ensure_node"
            and is_none(call_arg(origin, 0, "parent_id"))):
        problems.append("copied nodes are not created through `_ensure_node(None, ...)`")
        return problems
    # marking discipline inside the fill loop
    marks = [e for e in fm.field_events() if e.kind == "store" and e.field == "expanded" and is_true(e.value)
             and e.cfgn.id in fm.cfg.loop_nodes[floop] and e.nid == img]
    if not marks:
        problems.append("copied non-minimal nodes are never marked expanded")
    for m in marks:
        def atomize(e, _at=m.cfgn):
            if isinstance(e, ast.Name):          # `is_min = scc_sd.node_is_minimal(i)` kept in a local
                d_ = fm.deref(e, _at)
                e = d_ if d_ is not None else e
            if isinstance(e, ast.Call) and callee_name(e) == "node_is_minimal" and e.args \
                    and text(e.func.value) == src and text(e.args[0]) == floop.target.id:
                return logic.B("MIN")
            return None
        pc = fm.pc(m.cfgn, atomize=atomize)
        if not logic.implies(pc, logic.Not(logic.B("MIN"))):
            problems.append(f"line {m.stmt.lineno}: a copied node is marked expanded without knowing that it is not "
                            f"minimal in the source diagram (path condition {logic.show(pc)})")
    # every non-minimal copied node is marked: the path that avoids all marks must imply MIN
    if marks:
        hdr = fm.cfg.loop_header[floop]
        start = next(fm.cfg.nodes[s] for s in fm.cfg.g.successors(hdr.id) if fm.cfg.nodes[s].kind == "branch" and fm.cfg.nodes[s].pol)
        min_true = []
        for b in fm.cfg.nodes:
            if b.kind == "branch" and b.test is not None and b.id in fm.cfg.loop_nodes[floop]:
                t = b.test
                pol = True
                while isinstance(t, ast.UnaryOp) and isinstance(t.op, ast.Not):
                    t, pol = t.operand, not pol
                if isinstance(t, ast.Name):
                    d_ = fm.deref(t, fm.cfg.nodes[next(iter(fm.cfg.g.predecessors(b.id)))])
                    while isinstance(d_, ast.UnaryOp) and isinstance(d_.op, ast.Not):
                        d_, pol = d_.operand, not pol
                    t = d_ if d_ is not None else t
                if isinstance(t, ast.Call) and callee_name(t) == "node_is_minimal" and (pol == b.pol):
                    min_true.append(b)
                rhs_ = t.comparators[0] if isinstance(t, ast.Compare) and len(t.ops) == 1 else None
                if isinstance(rhs_, ast.Name):
                    rhs_ = fm.deref(rhs_, fm.cfg.nodes[next(iter(fm.cfg.g.predecessors(b.id)))])
                if isinstance(t, ast.Compare) and len(t.ops) == 1 and isinstance(t.ops[0], (ast.Eq, ast.NotEq)) \
                        and isinstance(rhs_, ast.Call) and callee_name(rhs_) == "root" and text(rhs_.func.value) == src:
                    if isinstance(t.ops[0], ast.Eq) == (pol == b.pol):
                        min_true.append(b)  # the root is handled after the loops
        # a node whose flag is tested and found set needs no second store
        already = {b.id for m in marks for b in expanded_assertions(fm, m.hk, True) if b.id in fm.cfg.loop_nodes[floop]}
        reach = reach_stop(fm, start, {m.cfgn.id for m in marks} | {b.id for b in min_true} | already, {hdr.id})
        if hdr.id in reach:
            problems.append("a copied node that is not minimal in the source diagram can stay unmarked")
    # the attachment node itself is marked after the copy
    amarks = [e for e in fm.field_events() if e.kind == "store" and e.field == "expanded" and is_true(e.value)
              and e.nid == fm.key(attach, fm.cfgn(init))]
    if not amarks or escapes(fm, g.cfgn, [m.cfgn for m in amarks] + [b for m in amarks for b in expanded_assertions(fm, m.hk, True)],
                             None, need_pre=False):
        problems.append("the attachment node is not marked expanded on every path after the edges are copied")
    return problems


# ------------------------------------------------------------------------------------------ T2
REMOVERS = ("remove_node", "remove_edge", "remove_nodes_from", "remove_edges_from", "clear", "clear_edges")


def t2(ck: Check, gm: GrowthModel) -> None:
    all_fields = ck.prog.repo.typeddict_keys("NodeData")
    for fm in ck.prog.models():
        for e in fm.field_events():
            if e.field == "*" and e.kind == "store":
                flds = fm.dynamic_fields(e, all_fields)
                if flds is None or "expanded" in flds:
                    ck.ob("T2", fm, e.stmt, is_true(e.value),
                          f"store under a run-time key that may be `expanded` with value `{text(e.value) if e.value is not None else '?'}`")
                continue
            if e.field != "expanded":
                continue
            if e.kind == "store":
                ok = is_true(e.value)
                ck.ob("T2", fm, e.stmt, ok, "expanded stored as the literal True" if ok else
                      f"`expanded` is stored as `{text(e.value) if e.value is not None else '?'}`: the flag may only "
                      f"ever be raised")
            elif e.kind == "create":
                ok = is_false(e.value)
                ck.ob("T2", fm, e.stmt, ok, "node created unexpanded" if ok else "node created with expanded != False")
        for n in own_walk(fm.f.node):
            if isinstance(n, ast.Call) and isinstance(n.func, ast.Attribute):
                d = dotted(n.func) or ""
                if ".dag." in "." + d and n.func.attr in REMOVERS:
                    ck.ob("T2", fm, fm.f.stmt_of(n), False, f"`{d}` removes nodes/edges of a succession diagram")
                if d.endswith("dag.add_edge") or d.endswith("dag.add_node"):
                    ok = fm.f.cls == "SuccessionDiagram" and (fm.f.key in gm.wrappers)
                    ck.ob("T2", fm, fm.f.stmt_of(n), ok,
                          f"{n.func.attr} inside primitive wrapper {fm.f.qualname}" if ok else
                          f"`{d}` outside the primitive wrappers ({', '.join(sorted(gm.wrappers))})")
            if isinstance(n, ast.Delete):
                for t in n.targets:
                    if "dag" in text(t):
                        ck.ob("T2", fm, n, False, f"`{text(n)}` deletes part of the diagram graph")


def _ranges_over_stubs(fm: FuncModel, g, hk) -> bool:
    """The parent is the element of `for x in D.stub_ids()` (possibly through a list taken beforehand), and no node is
    marked expanded between the moment the stubs were listed and the element's own edge creation."""
    cfg = fm.cfg
    loop = None
    for l in cfg.enclosing_loops(g.cfgn):
        if isinstance(l, ast.For) and isinstance(l.target, ast.Name) and fm.vkey(ast.Name(l.target.id, ast.Load()), g.cfgn) == hk[1]:
            loop = l
            break
    if loop is None:
        return False
    hdr = cfg.loop_header[loop]

    def unwrap(e):
        while isinstance(e, ast.Call) and isinstance(e.func, ast.Name) and e.func.id in ("list", "sorted", "tuple") and len(e.args) == 1:
            e = e.args[0]
        return e
    e = unwrap(loop.iter)
    taken = hdr
    if isinstance(e, ast.Name):
        defs = cfg.reaching_defs(e.id, hdr)
        if len(defs) != 1 or defs[0].kind != "stmt" or not isinstance(defs[0].ast, ast.Assign):
            return False
        L = e.id
        taken = defs[0]
        e2 = defs[0].ast.value
        if unwrap(e2) is e2:
            return False        # not a snapshot
        e = unwrap(e2)
        # the list itself is not changed
        for i in cfg.between(taken, hdr) | cfg.loop_nodes[loop]:
            a = cfg.nodes[i].ast
            if cfg.nodes[i].kind != "stmt" or a is None or isinstance(a, (ast.FunctionDef, ast.ClassDef)):
                continue
            for y in ast.walk(a):
                if isinstance(y, ast.Call) and isinstance(y.func, ast.Attribute) and isinstance(y.func.value, ast.Name) \
                        and y.func.value.id == L and y.func.attr not in ("copy", "index", "count"):
                    return False
    if not (isinstance(e, ast.Call) and callee_name(e) == "stub_ids" and isinstance(e.func, ast.Attribute)
            and fm.vkey(e.func.value, taken) == hk[0]):
        return False
    # marks between the listing and the loop, and marks inside the loop on other nodes or ahead of the edge creation
    for ev in fm.field_events():
        if ev.kind != "store" or ev.field != "expanded" or ev.hk[0] != hk[0]:
            continue
        if taken is not hdr and ev.cfgn.id in cfg.between(taken, hdr) and ev.cfgn.id not in (taken.id,):
            if ev.cfgn.id not in cfg.loop_nodes[loop]:
                return False
        if ev.cfgn.id in cfg.loop_nodes[loop]:
            if ev.hk != hk:
                return False
            if g.cfgn.id in cfg.reach_avoiding(ev.cfgn, [hdr]):
                return False
    # growth through calls inside the loop marks nodes too (expansion of another node): only this function's own stores
    # are visible here; calls that expand nodes are growth events of their own parent
    return True


# ------------------------------------------------------------------------------------------ T3
def t3(ck: Check, gm: GrowthModel) -> None:
    for fm in ck.prog.models():
        if fm.f.key in gm.wrappers:
            continue
        fresh = fresh_diagrams(fm)
        for g in gm.events(fm):
            if isinstance(g.diag_expr, ast.Name) and g.diag_expr.id in fresh:
                continue
            hk = (fm.vkey(g.diag_expr, g.cfgn), fm.vkey(g.parent_expr, g.cfgn))
            if not any(e.kind in ("store", "load") and e.hk == hk for e in fm.field_events()):
                continue  # id-map parents: handled by the attach protocol
            if fm.f.key in T3_EXEMPT:
                ck.ob("T3", fm, g.stmt, True, "exempt: " + T3_EXEMPT[fm.f.key])
                continue
            guards = expanded_assertions(fm, hk, False)
            doms = set(d.id for d in fm.cfg.dominators(g.cfgn))
            live = []
            for b in guards:
                if b.id in doms:
                    tnode = fm.cfg.nodes[next(iter(fm.cfg.g.predecessors(b.id)))]
                    if not fm.stale(tnode, g.cfgn, b.test):
                        live.append(b)
            if not live and _ranges_over_stubs(fm, g, hk):
                ck.ob("T3", fm, g.stmt, True, f"`{text(g.parent_expr)}` ranges over the stub nodes of the diagram, none of which is "
                                              f"marked expanded before its turn")
                continue
            ck.ob("T3", fm, g.stmt, bool(live),
                  f"edge creation on `{text(g.parent_expr)}` dominated by its not-yet-expanded test" if live else
                  f"node `{text(g.parent_expr)}` can gain successors although it may already be expanded "
                  f"(no dominating `expanded` test that is still valid at the edge creation)")


# ------------------------------------------------------------------------------------------ T5
def t5(ck: Check) -> None:
    creators = []
    for fm in ck.prog.models():
        for n in own_walk(fm.f.node):
            if isinstance(n, ast.Call) and (dotted(n.func) or "").endswith("dag.add_node"):
                creators.append((fm, n))
    if len(creators) != 1:
        for fm, n in creators:
            ck.ob("T5", fm, fm.f.stmt_of(n), False, f"{len(creators)} node creation sites (one deduplicating creator expected)")
        if not creators:
            raise AnalysisError("anchor vanished: no dag.add_node call in the package")
        return
    fm, call = creators[0]
    cn = fm.cfgn(call)
    kw = {k.arg: k.value for k in call.keywords}
    # (a) on the false edge of `key in node_indices`
    pc = fm.pc(cn)
    in_atoms = [a for a in logic.atoms(pc) if a[0] == "b" and a[1].startswith("in:") and a[1].endswith(".node_indices")]
    ok = len(in_atoms) == 1 and logic.implies(pc, logic.Not(("atom", in_atoms[0])))
    keytxt = in_atoms[0][1][3:].split("|")[0] if in_atoms else "?"
    ck.ob("T5", fm, fm.f.stmt_of(call), ok,
          "node created only when its key is absent from node_indices" if ok else
          f"node creation is not guarded by a failed lookup of its key in node_indices (path condition {logic.show(pc)})",
          key="add_node guard")
    # (b) key = space_unique_key(S, self.network), space=S, S = percolate_space(self.symbolic, .)
    space = kw.get("space")
    skey = fm.key(space, cn) if space is not None else None
    keydef = None
    for n in own_walk(fm.f.node):
        if isinstance(n, ast.Call) and callee_name(n) == "space_unique_key":
            keydef = n
    ok = False
    why = "no space_unique_key call"
    if keydef is not None and space is not None:
        arg0 = keydef.args[0] if keydef.args else None
        same = arg0 is not None and fm.vkey(arg0, fm.cfgn(keydef))[0] == fm.vkey(space, cn)[0]
        net = text(keydef.args[1]) if len(keydef.args) > 1 else ""
        sd = fm.single_def(space.id, cn) if isinstance(space, ast.Name) else None
        perc = sd is not None and isinstance(sd[1], ast.Call) and callee_name(sd[1]) == "percolate_space" \
            and text(sd[1].args[0]).endswith(".symbolic")
        ok = same and net.endswith(".network") and perc
        why = ("key and stored space derive from different values" if not same else
               "key not computed against the diagram's network" if not net.endswith(".network") else
               "stored space is not the percolation of the requested space")
    ck.ob("T5", fm, fm.f.stmt_of(call), ok, "key and `space` attribute derive from the same percolated value" if ok else why,
          key="add_node space/key agreement")
    # (c) the id is the node count and the index is updated with (key -> id) on the same path
    nid = call.args[0] if call.args else None
    idsrc = fm.single_def(nid.id, cn)[1] if isinstance(nid, ast.Name) and fm.single_def(nid.id, cn) else nid
    ok_id = idsrc is not None and text(idsrc).endswith("dag.number_of_nodes()")
    if not ok_id and idsrc is not None and text(idsrc) == "len(self)":
        # the diagram's own length: __len__ returns the node count
        try:
            ln = ck.prog.fm(SD_MOD, "SuccessionDiagram.__len__")
            rets_ = [r_ for r_ in own_walk(ln.f.node) if isinstance(r_, ast.Return) and r_.value is not None]
            ok_id = len(rets_) == 1 and text(rets_[0].value) == "self.dag.number_of_nodes()"
        except AnalysisError:
            ok_id = False
    ck.ob("T5", fm, fm.f.stmt_of(call), ok_id, "new id = current number of nodes" if ok_id else
          f"new node id `{text(nid) if nid is not None else '?'}` is not the current node count (ids must stay contiguous and unique)",
          key="add_node id")
    idx_stores = []
    for n in own_walk(fm.f.node):
        if isinstance(n, ast.Subscript) and isinstance(n.ctx, ast.Store) and (dotted(n.value) or "").endswith("node_indices"):
            idx_stores.append(n)
    ok_idx = False
    if idx_stores:
        def same_id(s) -> bool:
            v_ = fm.f.stmt_of(s).value
            if nid is None:
                return False
            if fm.key(v_, fm.cfgn(s)) == fm.key(nid, cn):
                return True
            # the same local, bound by the same definition (its defining expression may read the node count, which the
            # creation in between has changed: the name still holds the id that was used)
            return isinstance(v_, ast.Name) and isinstance(nid, ast.Name) and v_.id == nid.id and \
                {d.id for d in fm.cfg.reaching_defs(v_.id, fm.cfgn(s))} == {d.id for d in fm.cfg.reaching_defs(nid.id, cn)}
        cuts = [fm.cfgn(s) for s in idx_stores if fm.key(s.slice, fm.cfgn(s)) == keytxt and same_id(s)]
        ok_idx = bool(cuts) and escapes(fm, cn, cuts, None, need_pre=False) is None
    ck.ob("T5", fm, fm.f.stmt_of(call), ok_idx, "node_indices[key] = id on every path after creation" if ok_idx else
          "the created node is not (always) registered in node_indices under the key that was looked up",
          key="add_node index registration")
    # (d) the else arm reuses the registered id
    for n in own_walk(fm.f.node):
        if isinstance(n, ast.Return) and n.value is not None and fm.f.name == fm.f.name:
            pass


# ------------------------------------------------------------------------------------------ T6 (shared with C02-H2)
def successor_protocol(ck: Check, rule: str) -> None:
    fm = ck.prog.fm(SD_MOD, "SuccessionDiagram._expand_one_node")
    f = fm.f
    loops = []
    for n in own_walk(f.node):
        if isinstance(n, ast.For):
            for c in ast.walk(n):
                if isinstance(c, ast.Call) and callee_name(c) == "_ensure_node":
                    loops.append((n, c))
    if not loops:
        # two-phase form: the children are created first and connected afterwards.  A dictionary keyed by the child id in
        # between holds one stable motif per child, whereas several motifs can percolate to the same space
        for n in own_walk(f.node):
            keys = []
            if isinstance(n, ast.DictComp):
                keys = [n.key]
            elif isinstance(n, ast.Assign) and len(n.targets) == 1 and isinstance(n.targets[0], ast.Subscript):
                keys = [n.targets[0].slice]
            for k_ in keys:
                k_ = fm.deref(k_, fm.cfgn(n)) if isinstance(k_, ast.Name) else k_
                if isinstance(k_, ast.Call) and "node" in (callee_name(k_) or "") and isinstance(k_.func, ast.Attribute) \
                        and text(k_.func.value) == "self" and any(text(a_) == f.params()[1] for a_ in k_.args):
                    ck.ob(rule, fm, f.stmt_of(n), False,
                          f"the successors are collected in a dictionary keyed by the child id (`{text(k_)[:60]}`) before they are "
                          f"connected: stable motifs that percolate to the same space overwrite each other, and the edge to that "
                          f"child carries one motif instead of all of them", key="ensure loop")
                    return
    if len(loops) != 1:
        raise AnalysisError("anchor vanished: the ensure loop of _expand_one_node")
    loop, ens = loops[0]
    hn = fm.cfg.loop_header[loop]
    # (a) the loop creates a child for every element, with this node as parent
    par = call_arg(ens, 0, "parent_id")
    arg = call_arg(ens, 1, "stable_motif")
    node_param = f.params()[1]
    problems = []
    if not (isinstance(par, ast.Name) and par.id == node_param):
        problems.append("children are not attached to the expanded node")
    if not (isinstance(loop.target, ast.Name) and isinstance(arg, ast.Name) and arg.id == loop.target.id):
        problems.append("the child space passed to _ensure_node is not the loop element")
    for s in ast.walk(loop):
        if isinstance(s, (ast.Break, ast.Continue, ast.Return, ast.If)) and s is not loop:
            if isinstance(s, ast.If) and "debug" in text(s.test):
                continue
            problems.append(f"line {s.lineno}: `{text(s).splitlines()[0]}` can skip a sub-space")
    ck.ob(rule, fm, loop, not problems, "; ".join(problems) if problems else
          "every element of the sub-space list becomes a child of the node", key="ensure loop")
    # (b) provenance of the iterated list
    sources: list[tuple[ast.Call, str, object]] = []
    bad: list[str] = []

    def trace(e: ast.AST, at, joined: bool, depth=0):
        if depth > 8:
            bad.append("provenance too deep")
            return
        if isinstance(e, ast.Name):
            defs = fm.cfg.reaching_defs(e.id, at)
            if not defs:
                bad.append(f"`{e.id}` has no definition")
            for d in defs:
                a = d.ast
                if d.kind == "stmt" and isinstance(a, ast.Assign) and len(a.targets) == 1 and isinstance(a.targets[0], ast.Name):
                    trace(a.value, d, joined, depth + 1)
                elif d.kind == "stmt" and isinstance(a, ast.AnnAssign) and a.value is None:
                    continue
                elif d.kind == "stmt" and isinstance(a, ast.AnnAssign):
                    trace(a.value, d, joined, depth + 1)
                else:
                    bad.append(f"line {d.lineno}: `{e.id}` bound by {type(a).__name__}")
            return
        if isinstance(e, ast.Call) and callee_name(e) in ("sorted", "list") and e.args:
            for k in e.keywords:
                if k.arg not in ("key", "reverse"):
                    bad.append(f"line {e.lineno}: unexpected argument of {callee_name(e)}")
            trace(e.args[0], at, joined, depth + 1)
            return
        if isinstance(e, ast.ListComp):
            if len(e.generators) != 1 or e.generators[0].ifs:
                bad.append(f"line {e.lineno}: the comprehension filters the solver result")
                return
            gen = e.generators[0]
            j = joined
            if isinstance(e.elt, ast.BinOp) and isinstance(e.elt.op, ast.BitOr):
                sides = [e.elt.left, e.elt.right]
                tv = [s for s in sides if isinstance(s, ast.Name) and isinstance(gen.target, ast.Name) and s.id == gen.target.id]
                other = [s for s in sides if s not in tv]
                if len(tv) == 1 and other and fm.key(other[0], at).endswith("|space>"):
                    j = True
                else:
                    bad.append(f"line {e.lineno}: element `{text(e.elt)}` is not `result | node space`")
            elif not (isinstance(e.elt, ast.Name) and isinstance(gen.target, ast.Name) and e.elt.id == gen.target.id):
                bad.append(f"line {e.lineno}: element `{text(e.elt)}` rewrites the solver result")
            trace(gen.iter, at, j, depth + 1)
            return
        if isinstance(e, ast.Call) and callee_name(e) == "trappist":
            sources.append((e, "joined" if joined else "raw", at))
            return
        bad.append(f"line {getattr(e, 'lineno', '?')}: `{text(e)[:60]}` is not an order/completeness preserving step")

    trace(loop.iter, hn, False)
    ck.ob(rule, fm, loop, not bad and bool(sources), "; ".join(bad) if bad else
          f"sub-space list = complete solver result ({len(sources)} enumeration site(s)) through sorted/join steps only",
          key="sub-space provenance")
    for c, mode, at in sources:
        kws = {k.arg: k.value for k in c.keywords}
        net = c.args[0] if c.args else kws.get("network")
        problems = []
        prob = kws.get("problem") or (c.args[1] if len(c.args) > 1 else None)
        if not (isinstance(prob, ast.Constant) and prob.value == "max"):
            problems.append("successors are not computed as maximal trap spaces (problem != 'max')")
        if kws.get("reverse_time") is not None and not is_false(kws["reverse_time"]):
            problems.append("time-reversed trap spaces used for successors")
        if "avoid_subspaces" in kws:
            problems.append("avoid_subspaces restricts the successor enumeration")
        nk = fm.key(net, at) if net is not None else "?"
        es0 = kws.get("ensure_subspace")
        paired = None
        if isinstance(net, ast.Name) and isinstance(es0, ast.Name) and len(fm.cfg.reaching_defs(net.id, fm.cfgn(c))) > 1:
            # one call for both cases, net and enclosing subspace chosen together beforehand:
            # (own reduced net, None) with the results joined, or (global net, the node's space)
            paired = []
            for dn, de in fm.joint_defs(net.id, es0.id, fm.cfgn(c)):
                if dn < 0 or de < 0:
                    paired.append("net or subspace comes from a parameter")
                    continue
                nd_, ed_ = fm.cfg.nodes[dn], fm.cfg.nodes[de]
                nv_ = nd_.ast.value if isinstance(nd_.ast, (ast.Assign, ast.AnnAssign)) else None
                ev_ = ed_.ast.value if isinstance(ed_.ast, (ast.Assign, ast.AnnAssign)) else None
                if nv_ is None or ev_ is None:
                    paired.append("net / subspace bound by something else than an assignment")
                    continue
                nkey = fm.key(nv_, nd_)
                if isinstance(nv_, ast.Name):
                    sdn = fm.single_def(nv_.id, nd_)
                    nkey = fm.key(sdn[1], sdn[0]) if sdn else nkey
                if nkey.endswith(".petri_net") and not is_none(ev_):
                    ek = fm.key(ev_, ed_)
                    if not (ek.endswith("|space>") and f"|{node_param}|" in ek):
                        paired.append("global Petri net used without restricting the result to the node's space")
                elif nkey.endswith(f"|{node_param}|percolated_petri_net>") and is_none(ev_):
                    if mode != "joined":
                        paired.append("results of the reduced net are not joined with the node's space")
                else:
                    paired.append(f"line {nd_.lineno}: the pair (`{text(nv_)[:40]}`, ensure_subspace=`{text(ev_)[:40]}`) is neither the node's "
                                  f"own reduced net without a subspace nor the global net with the node's space")
        if paired is not None:
            problems += sorted(set(paired))
        elif nk.endswith(".petri_net"):
            es = kws.get("ensure_subspace")
            if es is None or not fm.key(es, at).endswith("|space>") or f"|{node_param}|" not in fm.key(es, at):
                problems.append("global Petri net used without restricting the result to the node's space")
            if mode == "joined":
                pass
        else:
            # must be the node's own percolated net, results joined with the node space
            sd = fm.single_def(net.id, at) if isinstance(net, ast.Name) else None
            own = sd is not None and fm.key(sd[1], sd[0]).endswith(f"|{node_param}|percolated_petri_net>")
            if not own:
                problems.append(f"trap spaces computed on `{nk}`, which is not the node's own percolated Petri net")
            if mode != "joined":
                problems.append("results of the reduced net are not joined with the node's space")
        osv = kws.get("optimize_source_variables")
        if osv is None:
            problems.append("optimize_source_variables left to its default (all sources) instead of the root-only list")
        else:
            problems += _source_list_ok(fm, osv, at, node_param)
        lim = kws.get("solution_limit")
        if lim is not None and "max_motifs_per_node" not in fm.key(lim, at):
            problems.append(f"solution_limit `{text(lim)}` is not the configured max_motifs_per_node")
        ck.ob(rule, fm, fm.f.stmt_of(c), not problems, "; ".join(problems) if problems else
              f"maximal trap spaces of the node ({'reduced net + join' if mode == 'joined' else 'global net + ensure_subspace'})")
    # (c) source optimisation non-empty only for the root
    return


def _source_list_ok(fm: FuncModel, osv: ast.AST, at, node_param: str) -> list[str]:
    problems = []
    if not isinstance(osv, ast.Name):
        return [f"optimize_source_variables is `{text(osv)}`, expected the root-only source list"]
    for d in fm.cfg.reaching_defs(osv.id, at):
        a = d.ast
        if not (d.kind == "stmt" and isinstance(a, (ast.Assign, ast.AnnAssign))):
            problems.append(f"line {d.lineno}: source list bound by {type(a).__name__}")
            continue
        v = a.value
        if isinstance(v, ast.List) and not v.elts:
            # "no source variables" may reach the solver only when the node is not the root: on every path from this
            # definition to the call that passes no other definition, the root test has failed
            from .common import paths_imply
            others = {x.id for x in fm.cfg.nodes if x.kind == "stmt" and x is not d and osv.id in fm.cfg.defs_of(x)}
            want = logic.Not(logic.B(f"eq:{'|'.join(sorted(['ROOT', node_param]))}"))
            try:
                bad = paths_imply(fm, d, at, want, None, stop=others, canon=True)
            except Exception:  # noqa
                bad = "paths too many to enumerate"
            pcd = fm.pc(d)
            rooted = logic.B(f"eq:{'|'.join(sorted(['ROOT', node_param]))}")
            if bad and not logic.implies(pcd, logic.Not(rooted)):
                problems.append(f"line {d.lineno}: the source list is emptied on a path that the root can take ({str(bad)[:120]}): "
                                f"the root is then expanded input by input instead of by input valuations, and the diagram "
                                f"differs from the reference diagram")
            continue
        if isinstance(v, ast.Call) and callee_name(v) == "extract_source_variables":
            pc = fm.pc(d)
            want = logic.B(f"eq:{'|'.join(sorted(['ROOT', node_param]))}")
            if not logic.implies(pc, want):
                problems.append(f"line {d.lineno}: source variables are optimised for a node that is not known to be "
                                f"the root (path condition {logic.show(pc)})")
            if not text(v.args[0]).endswith(".petri_net"):
                problems.append(f"line {d.lineno}: source variables taken from `{text(v.args[0])}`")
            continue
        problems.append(f"line {d.lineno}: source list is `{text(v)[:50]}`")
    return problems


# ------------------------------------------------------------------------------------------ T8
PLAIN_DRIVERS = ("biobalm._sd_algorithms.expand_bfs", "biobalm._sd_algorithms.expand_dfs",
                 "biobalm._sd_algorithms.expand_attractor_seeds", "biobalm._sd_algorithms.expand_to_target")


def t9(ck: Check, gm: GrowthModel) -> None:
    """The plain strategies grow the diagram through the single-node expansion only (node_successors(compute=True) /
    _expand_one_node): they neither create nodes or edges themselves nor mark a node expanded. Anything else (children per
    valuation of the source nodes, copied sub-diagrams) gives an expanded node fewer or other successors than it has in the
    full diagram, which a later unrestricted expansion cannot repair."""
    n = 0
    for mod in PLAIN_DRIVERS:
        m = ck.prog.repo.module(mod)
        for f in ck.prog.repo.funcs():
            if f.module is not m:
                continue
            fm = ck.prog.model(f)
            n += 1
            probs = []
            for g in gm.events(fm):
                probs.append(f"line {g.stmt.lineno}: `{text(g.stmt)[:60]}` creates nodes / edges directly")
            for e in fm.field_events():
                if e.kind == "store" and e.field in ("expanded", "skipped"):
                    probs.append(f"line {e.stmt.lineno}: `{e.field}` of `{e.nid}` is written by the driver itself")
            ck.ob("T9", fm, f.node, not probs, ("; ".join(sorted(set(probs))) + ": a plain strategy must leave every node either a stub "
                  "or with its complete successor set (single-node expansion); a node marked expanded with other successors makes the "
                  "diagram differ from the full one for good") if probs else
                  "grows the diagram through the single-node expansion only", key=f"{f.qualname} growth")
    if n == 0:
        raise AnalysisError("anchor vanished: plain expansion drivers")
    # the accessor all drivers expand through grows the diagram by the single-node expansion only
    try:
        ns = ck.prog.fm(SD_MOD, "SuccessionDiagram.node_successors")
        probs = [f"line {g.stmt.lineno}: `{text(g.stmt)[:60]}` creates nodes / edges directly" for g in gm.events(ns)]
        probs += [f"line {e.stmt.lineno}: `{e.field}` of `{e.nid}` is written by the accessor itself" for e in ns.field_events()
                  if e.kind == "store" and e.field in ("expanded", "skipped")]
        ck.ob("T9", ns, ns.f.node, not probs, ("; ".join(sorted(set(probs))) + ": successors that do not come from the single-node "
              "expansion need not be the maximal trap spaces of the node (nor carry them as motifs)") if probs else
              "node_successors expands through _expand_one_node only", key="node_successors growth")
    except AnalysisError:
        pass
    # skip nodes are not nodes of the full diagram: the plain strategies never ask for them, and the public wrapper asks for
    # them only when told to
    for mod in PLAIN_DRIVERS:
        m = ck.prog.repo.module(mod)
        for f in ck.prog.repo.funcs():
            if f.module is not m:
                continue
            fm = ck.prog.model(f)
            for c in own_walk(f.node):
                if not isinstance(c, ast.Call):
                    continue
                bad = None
                if callee_name(c) in ("skip_remaining", "skip_to_minimal"):
                    bad = f"`{text(c)[:50]}` turns nodes into skip nodes"
                for k in c.keywords:
                    if k.arg in ("skip_ignored", "skip_remaining") and not is_false(k.value):
                        bad = f"`{text(c)[:50]}` asks for skip nodes ({k.arg}={text(k.value)})"
                if callee_name(c) == "expand_minimal_spaces" and len(c.args) > (3 if isinstance(c.func, ast.Name) else 2):
                    bad = f"`{text(c)[:50]}` passes the skip flag positionally"
                if bad:
                    ck.ob("T9", fm, f.stmt_of(c), False, f"{bad}: a plain strategy must produce a sub-diagram of the full succession "
                          f"diagram, which has no skip edges (overlapping skip nodes also report one attractor twice)",
                          key=f"skip nodes in {f.qualname}")
    for mq, q, pname in ((SD_MOD, "SuccessionDiagram.expand_minimal_spaces", "skip_ignored"),
                         ("biobalm._sd_algorithms.expand_minimal_spaces", "expand_minimal_spaces", "skip_remaining")):
        try:
            fmw = ck.prog.fm(mq, q)
        except AnalysisError:
            continue
        dflt = fmw.f.param_defaults().get(pname)
        if pname in fmw.f.params():
            okd = dflt is not None and is_false(dflt)
            ck.ob("T9", fmw, fmw.f.node, okd, f"`{pname}` defaults to False" if okd else
                  f"`{pname}` defaults to `{text(dflt) if dflt is not None else 'nothing'}`: the plain minimal-space expansion (and the "
                  f"attractor-seed expansion built on it) would create skip nodes, which are not nodes of the full diagram",
                  key=f"default of {pname} in {q}")


def t8(ck: Check, gm: GrowthModel) -> None:
    fm = ck.prog.fm("biobalm._sd_algorithms.expand_source_blocks", "expand_source_blocks")
    params = fm.f.params()
    flag = "optimize_source_nodes"
    if flag not in params:
        raise AnalysisError("anchor vanished: optimize_source_nodes parameter of expand_source_blocks")
    fresh = fresh_diagrams(fm)
    n = 0
    for g in gm.events(fm):
        if isinstance(g.diag_expr, ast.Name) and g.diag_expr.id in fresh:
            continue
        n += 1
        pc = fm.pc(g.cfgn)
        ok = logic.implies(pc, logic.B("T:" + flag))
        ck.ob("T8", fm, g.stmt, ok, "source shortcut only under optimize_source_nodes" if ok else
              f"block expansion adds non-standard successors although source shortcuts may be disabled "
              f"(path condition {logic.show(pc)})")
    if n == 0:
        ck.ob("T8", fm, fm.f.node, True, "no source shortcut in block expansion", key="no shortcut")
