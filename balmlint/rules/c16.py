"""C16 -- serialization and memory reclamation are transparent."""

from __future__ import annotations

import ast

from .. import logic
from ..program import FuncModel, call_arg
from ..report import Check
from ..repo import AnalysisError, dotted, own_walk, text
from .common import SD_MOD, callee_name, escapes, is_false, is_none, is_true, reach_stop

EXPLANATION = (
    "(P1) the keys of the dict returned by __getstate__, the keys of SuccessionDiagramState and the keys read in "
    "__setstate__ are the same set, and every persisted slot is saved from / restored into the slot of the same name. "
    "(P2) every name in __slots__ is assigned on every path of __init__ and of __setstate__. (P3) node_indices is "
    "index-sensitive (its keys are computed from variable indices of self.network), so self.network must be produced "
    "by the same text-normalising chain in the constructor and in the deserialiser (value = a text parse, possibly "
    "followed by infer_valid_graph, directly or through a function all of whose returns have that form), the persisted "
    "text must be self.network.to_aeon() and be read back with the matching parser, and self.symbolic must be built "
    "from self.network on both paths. (P4) reclaim_node_data stores only None, only into fields that have a "
    "recompute-on-demand accessor (a method that tests the field for None and stores a computed value), candidates "
    "only under `seeds is not None`. (P5) None-safety of reclaimable fields: every load outside a comparison flows "
    "into a local whose every use is reached only through a `is not None` branch (or a recomputation), and every "
    "accessor call that does not pass compute=True is dominated -- in the function or in each of its callers -- by a "
    "computing call for the same node with no intervening store of None. (P6) history independence: a reclaimable "
    "field is read only by its own recompute-on-demand accessor for the accessor's own node, by a load whose None case "
    "falls back to that accessor, or at a reviewed place where both cases compute the same value (table "
    "PRESENCE_NEUTRAL); any other read makes a result depend on what happens to be cached."
)
# Reviewed places where the *presence* of reclaimable data selects between two computations that give the same result.
PRESENCE_NEUTRAL = {
    ("SuccessionDiagram.node_percolated_petri_net", "percolated_petri_net", "other"):
        "restriction composes: restricting the parent's restricted net to the node's space equals restricting the global "
        "net (the space argument is checked by C10-F)",
    ("SuccessionDiagram._expand_one_node", "percolated_petri_net", "own"):
        "trappist on the restricted net joined with the node space equals trappist on the global net with "
        "ensure_subspace (both branches are checked by C02/C04)",
}

# node fields that *are* the observable results (the property: "known attractors are preserved", structure untouched)
RESULT_FIELDS = {
    "attractor_seeds": "the known attractors of the node",
    "attractor_sets": "the known attractors of the node",
    "space": "node identity", "depth": "structure", "expanded": "structure", "parent_node": "structure", "skipped": "structure",
}

ASSUMPTIONS = [
    "BooleanNetwork.from_aeon orders variables by name (AEON text format); to_aeon/from_aeon round-trips update functions",
    "pickle preserves networkx graphs and plain dict/list data",
    "recomputation of reclaimed data is deterministic (C19)",
]

TEXT_PARSERS = {"from_aeon": "to_aeon", "from_bnet": "to_bnet", "from_sbml": "to_sbml"}
# reviewed facts about the AEON text formats (biodivine_aeon 1.x)
LOSSY_FORMATS = {
    "to_aeon": "the .aeon text lists regulations and `$x:` update lines only, so a free input that regulates nothing "
               "(no regulation, no update function) does not occur in it",
    "to_bnet": "the .bnet text has one line per variable with an update function, so a free input without regulation "
               "targets is lost",
}


def run(ck: Check) -> None:
    p1(ck)
    p2(ck)
    p3(ck)
    reclaimable = p4(ck)
    p5(ck, reclaimable)
    p6(ck, reclaimable)
    ck.floor("P6", 6)
    ck.floor("P1", 3)
    ck.floor("P2", 2)
    ck.floor("P3", 4)
    ck.floor("P4", 4)
    ck.floor("P5", 6)


def _sd(ck, name) -> FuncModel:
    return ck.prog.fm(SD_MOD, f"SuccessionDiagram.{name}")


def _slots(ck: Check) -> list[str]:
    cls = ck.prog.repo.classes.get("SuccessionDiagram")
    if cls is None:
        raise AnalysisError("anchor vanished: class SuccessionDiagram")
    for s in cls.body:
        if isinstance(s, ast.Assign) and text(s.targets[0]) == "__slots__" and isinstance(s.value, (ast.Tuple, ast.List)):
            return [e.value for e in s.value.elts if isinstance(e, ast.Constant)]
    raise AnalysisError("anchor vanished: SuccessionDiagram.__slots__")


# ------------------------------------------------------------------------------------------ P1
def p1(ck: Check) -> None:
    gs, ss = _sd(ck, "__getstate__"), _sd(ck, "__setstate__")
    declared = set(ck.prog.repo.typeddict_keys("SuccessionDiagramState"))
    rets = [r for r in own_walk(gs.f.node) if isinstance(r, ast.Return)]
    saved = _saved_state(gs)
    if len(rets) != 1 or saved is None:
        ck.ob("P1", gs, gs.f.node, False, "__getstate__ does not return a dict display", key="getstate")
        return
    state_p = [p for p in ss.f.params() if p != "self"][0]
    read = {}
    for n in own_walk(ss.f.node):
        if isinstance(n, ast.Subscript) and isinstance(n.value, ast.Name) and n.value.id == state_p \
                and isinstance(n.slice, ast.Constant):
            read[n.slice.value] = n
        if isinstance(n, ast.Call) and isinstance(n.func, ast.Attribute) and n.func.attr == "get" and text(n.func.value) == state_p \
                and n.args and isinstance(n.args[0], ast.Constant):
            read[n.args[0].value] = n
    probs = []
    if set(saved) != declared:
        probs.append(f"saved keys {sorted(set(saved) ^ declared)} differ from SuccessionDiagramState")
    if set(read) != set(saved):
        probs.append(f"keys saved but not restored / restored but not saved: {sorted(set(read) ^ set(saved))}")
    ck.ob("P1", gs, rets[0], not probs, "; ".join(probs) if probs else
          f"saved = declared = restored keys ({len(saved)})", key="state keys")
    slots = set(_slots(ck))
    probs = []
    for k, v in saved.items():
        if k in slots and text(v) != f"self.{k}":
            probs.append(f"key '{k}' is saved from `{text(v)}`")
    ck.ob("P1", gs, rets[0], not probs, "; ".join(probs) if probs else "every persisted slot saved under its own name",
          key="save sources")
    probs = []
    for n in own_walk(ss.f.node):
        if isinstance(n, ast.Assign) and isinstance(n.targets[0], ast.Attribute) and text(n.targets[0].value) == "self":
            slot = n.targets[0].attr
            if slot in saved and slot in slots:
                if text(ss.deref(n.value, ss.cfgn(n))) != f"{state_p}['{slot}']":
                    if slot == "node_indices" and _index_recomputed(ss) is not None:
                        continue  # recomputed for the restored network: decided by P3
                    if slot == "network" and _network_source(ss) is not None:
                        continue  # the persisted object (or its text as a fallback), cleaned up: decided by P3
                    probs.append(f"slot `{slot}` restored from `{text(n.value)}`")
    # ... and left as restored: nothing in __setstate__ writes into a restored object afterwards
    for n in own_walk(ss.f.node):
        tgt = None
        if isinstance(n, ast.Call) and isinstance(n.func, ast.Attribute) and n.func.attr in (
                "update", "clear", "pop", "popitem", "setdefault", "append", "extend", "remove", "insert", "sort", "reverse",
                "add", "discard", "__setitem__", "__delitem__"):
            tgt = n.func.value
        elif isinstance(n, ast.Subscript) and isinstance(n.ctx, (ast.Store, ast.Del)):
            tgt = n.value
        elif isinstance(n, ast.AugAssign) and isinstance(n.target, ast.Attribute):
            tgt = n.target
        if isinstance(tgt, ast.Attribute) and text(tgt.value) == "self" and tgt.attr in saved and tgt.attr in slots \
                and tgt.attr != "node_indices":
            probs.append(f"line {n.lineno}: the restored `{tgt.attr}` is modified after it was restored: the unpickled diagram "
                         f"no longer has the state that was saved")
    # ... nor into the node data of the restored graph (reached through node_data(..) / dag.nodes[..])
    for g_ in (gs, ss):
        for e_ in g_.field_events():
            if e_.kind in ("store", "create"):
                probs.append(f"line {e_.stmt.lineno}: {g_.f.name} writes the node field `{e_.field}`: what is saved / loaded is no "
                             f"longer the diagram's state (known attractor data must survive the round trip)")
    ck.ob("P1", ss, ss.f.node, not probs, "; ".join(probs) if probs else "every persisted slot restored from its own key",
          key="restore sources")


# ------------------------------------------------------------------------------------------ P2
def p2(ck: Check) -> None:
    slots = _slots(ck)
    for name in ("__init__", "__setstate__"):
        fm = _sd(ck, name)
        missing = []
        for s in slots:
            cuts = []
            for n in own_walk(fm.f.node):
                if isinstance(n, (ast.Assign, ast.AnnAssign)):
                    tgs = n.targets if isinstance(n, ast.Assign) else [n.target]
                    if any(text(t) == f"self.{s}" for t in tgs) and (isinstance(n, ast.Assign) or n.value is not None):
                        cuts.append(fm.cfgn(n))
            if not cuts or escapes(fm, fm.cfg.entry, cuts, None, need_pre=False):
                missing.append(s)
        ck.ob("P2", fm, fm.f.node, not missing,
              f"slot(s) {missing} are not assigned on every path of {name}: attribute access fails later" if missing
              else f"all {len(slots)} slots assigned on every path of {name}", key=f"slots in {name}")


# ------------------------------------------------------------------------------------------ P3
def _text_normalised(prog, fm: FuncModel, e: ast.AST, at, depth=0, env=None) -> tuple[bool, str]:
    """Is the value of e a network freshly parsed from text (variable order = text-normal form)?
    env: for a callee, parameter name -> (caller model, argument expression, caller node)."""
    if depth > 6:
        return False, "too indirect"
    if isinstance(e, ast.Name):
        sd = fm.single_def(e.id, at)
        if sd is None:
            defs = fm.cfg.reaching_defs(e.id, at) if at is not None else []
            if env and e.id in env and len(defs) == 1 and defs[0].kind == "entry":
                cfm, arg, cat = env[e.id]
                ok, why = _text_normalised(prog, cfm, arg, cat, depth + 1)
                return ok, f"argument `{text(arg)[:40]}`: {why}"
            return False, f"`{e.id}` is a caller-supplied network or has several definitions"
        return _text_normalised(prog, fm, sd[1], sd[0], depth + 1, env)
    if isinstance(e, ast.Call):
        nm = callee_name(e)
        if nm == "infer_valid_graph" and isinstance(e.func, ast.Attribute):
            return _text_normalised(prog, fm, e.func.value, at, depth + 1, env)
        if nm in TEXT_PARSERS:
            return True, f"parsed by {nm}"
        tgt = prog.repo.resolve_call(fm.f, e)
        if tgt and not tgt.startswith("ext:"):
            g = prog.model(prog.repo.functions[tgt])
            rets = [r for r in own_walk(g.f.node) if isinstance(r, ast.Return) and r.value is not None]
            if not rets:
                return False, f"{g.f.qualname} returns nothing"
            ps = [p for p in g.f.params() if p != "self"]
            genv = {}
            for i, pn in enumerate(ps):
                a = call_arg(e, i, pn)
                if a is not None:
                    genv[pn] = (fm, a, at)
            for r in rets:
                ok, why = _text_normalised(prog, g, r.value, g.cfgn(r), depth + 1, genv)
                if not ok:
                    return False, f"{g.f.qualname} line {r.lineno}: {why}"
            return True, f"every return of {g.f.qualname} is in text-normal form"
        return False, f"`{text(e)[:50]}` keeps the variable order of its argument"
    return False, f"`{text(e)[:50]}`"


def _network_source(ss: FuncModel):
    """How __setstate__ obtains self.network: ('object', key) when the persisted network object is used (with the parsed
    rules as a fallback only when it is missing), ('text', parser) when it is parsed from persisted text; None otherwise."""
    state_p = [p for p in ss.f.params() if p != "self"][0]
    ass = [n for n in own_walk(ss.f.node) if isinstance(n, ast.Assign) and text(n.targets[0]) == "self.network"]
    if len(ass) != 1:
        return None
    v = ass[0].value
    at = ss.cfgn(ass[0])
    if isinstance(v, ast.Call) and callee_name(v) == "cleanup_network" and len(v.args) == 1:
        v = v.args[0]
    kinds = set()
    srcs = [x for _, x in ss.value_defs(v.id, at)] if isinstance(v, ast.Name) else [v]
    for x in srcs:
        if isinstance(x, ast.Call) and isinstance(x.func, ast.Attribute) and x.func.attr == "get" and text(x.func.value) == state_p \
                and x.args and isinstance(x.args[0], ast.Constant):
            kinds.add(("object", x.args[0].value))
        elif isinstance(x, ast.Subscript) and text(x.value) == state_p and isinstance(x.slice, ast.Constant):
            kinds.add(("object", x.slice.value))
        elif isinstance(x, ast.Call) and callee_name(x) in TEXT_PARSERS and state_p in text(x):
            kinds.add(("text", callee_name(x)))
        else:
            return None
    objs = [k for k in kinds if k[0] == "object"]
    if objs:
        # the text fallback must only be used when the object is missing
        texts = [n for n in own_walk(ss.f.node) if isinstance(n, ast.Call) and callee_name(n) in TEXT_PARSERS]
        for t_ in texts:
            pc = ss.pc(ss.cfgn(t_))
            key0 = objs[0][1]
            cands_ = [a_ for a_ in logic.atoms(pc) if a_[0] == "b" and (a_[1].startswith("none:") or f"'{key0}'" in a_[1])]
            # ... and in that direction: the parser runs where the object is known to be missing (`is None`, `not in state`),
            # not where it is known to be present
            try:
                # "the object is there": every `in:` atom true and every `none:` atom false -- impossible where the parser runs
                present = logic.And(*[("atom", a_) if a_[1].startswith("in:") else logic.Not(("atom", a_)) for a_ in cands_
                                      if a_[1].startswith(("in:", "none:"))])
                guarded = bool(cands_) and not logic.satisfiable(logic.And(pc, present))
            except logic.TooBig:
                guarded = False
            if not guarded or not logic.satisfiable(pc):
                return None
        return objs[0]
    return next(iter(kinds)) if len(kinds) == 1 else None


def _saved_state(gs: FuncModel) -> dict | None:
    """key -> value expression of the dict returned by __getstate__ (locals standing for a value are looked through)."""
    rets = [r for r in own_walk(gs.f.node) if isinstance(r, ast.Return)]
    if len(rets) != 1:
        return None
    at = gs.cfgn(rets[0])
    d = gs.deref(rets[0].value, at)
    if not isinstance(d, ast.Dict):
        return None
    dn = gs.cfgn(d) if d is not rets[0].value else at
    return {k.value: gs.deref(v, dn) for k, v in zip(d.keys, d.values) if isinstance(k, ast.Constant)}


def _index_recomputed(ss: FuncModel):
    """If __setstate__ assigns node_indices from something other than the persisted dict: is it a recomputation of
    every node's key with space_unique_key(<space of the node>, self.network), after self.network was restored?"""
    ass = [n for n in own_walk(ss.f.node) if isinstance(n, (ast.Assign, ast.AnnAssign))
           and text(n.targets[0] if isinstance(n, ast.Assign) else n.target) == "self.node_indices" and n.value is not None]
    if len(ass) != 1:
        return None
    v = ass[0].value
    state_p = [p for p in ss.f.params() if p != "self"][0]
    if text(v) == f"{state_p}['node_indices']":
        return None
    probs = []
    # spelling 1: dict comprehension; spelling 2: an empty dict filled by `d[key] = id` in a loop over all nodes
    k = val = itx = tgt = at = None
    if isinstance(v, ast.DictComp) and len(v.generators) == 1 and not v.generators[0].ifs:
        g = v.generators[0]
        k, val, itx, tgt = v.key, v.value, g.iter, g.target
        at = ss.cfgn(ass[0])
        rename = True
    elif isinstance(v, ast.Name):
        vd = ss.value_defs(v.id, ss.cfgn(ass[0]))
        stores = [n for n in own_walk(ss.f.node) if isinstance(n, ast.Assign) and isinstance(n.targets[0], ast.Subscript)
                  and text(n.targets[0].value) == v.id]
        if len(vd) == 1 and isinstance(vd[0][1], ast.Dict) and not vd[0][1].keys and len(stores) == 1:
            st = stores[0]
            lps = [l for l in ss.cfg.enclosing_loops(ss.cfgn(st)) if isinstance(l, ast.For)]
            if len(lps) == 1 and not any(isinstance(x, (ast.If, ast.Break, ast.Continue)) for x in ast.walk(lps[0])):
                k, val, itx, tgt = ss.deref(st.targets[0].slice, ss.cfgn(st)), st.value, lps[0].iter, lps[0].target
                at = ss.cfgn(st)
                rename = False
    if k is None:
        return False, "node_indices is neither the persisted dict nor a recomputation over all nodes"
    if not (isinstance(k, ast.Call) and callee_name(k) == "space_unique_key" and len(k.args) == 2 and text(k.args[1]) == "self.network"):
        probs.append("keys are not space_unique_key(space, self.network)")
    else:
        first = next((x.id for x in ast.walk(tgt) if isinstance(x, ast.Name)), "?")
        spk = ss.key(k.args[0], ss.cfgn(k) if not rename else at) if not rename else text(k.args[0])
        if not ((spk.startswith("FIELD<self|") and spk.endswith("|space>") and f"|{first}|" in spk) or
                (spk.endswith("['space']") and first in spk)):
            probs.append(f"key computed from `{text(k.args[0])}`, not from the space of the enumerated node")
        if text(val) not in text(tgt):
            probs.append("value is not the enumerated node id")
    it = text(ss.deref(itx, at))
    if not (it in (f"{state_p}['node_indices'].values()", "self.dag.nodes", "self.dag.nodes()", "self.node_ids()",
                   "self.dag.nodes(data=True)", "range(len(self))")):
        probs.append(f"the index is rebuilt over `{it}`, not over all nodes")
    nets = [n for n in own_walk(ss.f.node) if isinstance(n, (ast.Assign, ast.AnnAssign))
            and text(n.targets[0] if isinstance(n, ast.Assign) else n.target) in ("self.network", "self.dag") and n.value is not None]
    for n in nets:
        if at.id not in ss.cfg.reach_avoiding(ss.cfgn(n), []):
            probs.append(f"the index is rebuilt before `{text(n.targets[0] if isinstance(n, ast.Assign) else n.target)}` is restored")
    if probs:
        return False, "; ".join(probs)
    return True, "space index recomputed from the node spaces for the restored network (keys cannot go stale)"


def p3(ck: Check) -> None:
    prog = ck.prog
    # is any persisted field index-sensitive?
    en = _sd(ck, "_ensure_node")
    sens = False
    for n in own_walk(en.f.node):
        if isinstance(n, ast.Subscript) and isinstance(n.ctx, ast.Store) and text(n.value) == "self.node_indices":
            sd = en.single_def(n.slice.id, en.cfgn(n)) if isinstance(n.slice, ast.Name) else None
            if sd and isinstance(sd[1], ast.Call) and callee_name(sd[1]) == "space_unique_key" \
                    and text(sd[1].args[1]) == "self.network":
                sens = True
    gs = _sd(ck, "__getstate__")
    saved = _saved_state(gs) or {}
    if not sens or "node_indices" not in saved:
        ck.ob("P3", en, en.f.node, True, "no persisted field depends on variable indices", key="index sensitivity")
        ck.floors.pop("C16-P3", None)
        return
    ck.ob("P3", en, en.f.node, True, "node_indices keys depend on variable indices of self.network and are persisted",
          key="index sensitivity")
    ss0 = _sd(ck, "__setstate__")
    src0 = _network_source(ss0)
    if src0 is not None and src0[0] == "object":
        okobj = text(saved.get(src0[1])) == "self.network" if saved.get(src0[1]) is not None else False
        ck.ob("P3", ss0, ss0.f.node, okobj,
              "the network object itself is persisted and restored: variable order and input variables survive the round trip"
              if okobj else f"state key '{src0[1]}' is restored as the network but is not saved from self.network",
              key="network object persisted")
    recomputed = _index_recomputed(ss0)
    if recomputed is not None:
        ok, why = recomputed
        ck.ob("P3", ss0, ss0.f.node, ok, why, key="index rebuilt on load")
    for name in ("__init__", "__setstate__"):
        if recomputed is not None and recomputed[0]:
            fm = _sd(ck, name)
            sym = [n for n in own_walk(fm.f.node) if isinstance(n, (ast.Assign, ast.AnnAssign))
                   and text(n.targets[0] if isinstance(n, ast.Assign) else n.target) == "self.symbolic" and n.value is not None]
            net = [n for n in own_walk(fm.f.node) if isinstance(n, (ast.Assign, ast.AnnAssign))
                   and text(n.targets[0] if isinstance(n, ast.Assign) else n.target) == "self.network" and n.value is not None]
            oks = len(sym) == 1 and len(net) == 1 and text(sym[0].value) == "AsynchronousGraph(self.network)" and \
                fm.cfgn(sym[0]).id in fm.cfg.reach_avoiding(fm.cfgn(net[0]), [])
            ck.ob("P3", fm, sym[0] if sym else fm.f.node, oks,
                  "self.symbolic built from self.network" if oks else
                  f"{name}: self.symbolic is not AsynchronousGraph(self.network) built after self.network",
                  key=f"symbolic in {name}")
            continue
        fm = _sd(ck, name)
        assigns = [n for n in own_walk(fm.f.node) if isinstance(n, (ast.Assign, ast.AnnAssign))
                   and text(n.targets[0] if isinstance(n, ast.Assign) else n.target) == "self.network" and n.value is not None]
        if len(assigns) != 1:
            ck.ob("P3", fm, fm.f.node, False, f"self.network assigned {len(assigns)} times in {name}", key=f"network in {name}")
            continue
        a = assigns[0]
        ok, why = _text_normalised(prog, fm, a.value, fm.cfgn(a))
        ck.ob("P3", fm, a, ok,
              f"self.network is in text-normal form ({why})" if ok else
              f"{name}: self.network is not normalised through a text parse ({why}); node_indices keys computed from its "
              f"variable indices do not survive a pickle round trip, which rebuilds the network from text (variables "
              f"ordered by name)")
        # symbolic built from self.network
        sym = [n for n in own_walk(fm.f.node) if isinstance(n, (ast.Assign, ast.AnnAssign))
               and text(n.targets[0] if isinstance(n, ast.Assign) else n.target) == "self.symbolic" and n.value is not None]
        oks = len(sym) == 1 and text(sym[0].value) == "AsynchronousGraph(self.network)" and \
            fm.cfgn(sym[0]).id in fm.cfg.reach_avoiding(fm.cfgn(a), [])
        ck.ob("P3", fm, sym[0] if sym else fm.f.node, oks,
              "self.symbolic built from the normalised self.network" if oks else
              f"{name}: self.symbolic is not AsynchronousGraph(self.network) built after self.network",
              key=f"symbolic in {name}")
    # persisted text and parser match
    v = saved.get("network_rules")
    ss = _sd(ck, "__setstate__")
    probs = []
    fmt = None
    if v is None or not (isinstance(v, ast.Call) and text(v.func.value) == "self.network" and callee_name(v) in TEXT_PARSERS.values()):
        probs.append(f"persisted rules are `{text(v) if v is not None else None}`, not a text export of self.network")
    else:
        fmt = callee_name(v)
        parsers = [n for n in own_walk(ss.f.node) if isinstance(n, ast.Call) and callee_name(n) in TEXT_PARSERS
                   and "network_rules" in text(n)]
        if len(parsers) != 1 or TEXT_PARSERS[callee_name(parsers[0])] != fmt:
            probs.append(f"rules exported with {fmt} are not read back with the matching parser")
    ck.ob("P3", gs, gs.f.node, not probs, "; ".join(probs) if probs else f"rules exported with {fmt} and parsed back with its inverse",
          key="rules format")
    # can the text format represent every variable of the network?
    if src0 is not None and src0[0] == "object" and text(saved.get(src0[1])) == "self.network":
        ck.ob("P3", gs, gs.f.node, True, "the persisted network object is authoritative; the text is only a fallback for older states",
              key="rules format lossless")
    elif fmt in LOSSY_FORMATS:
        ck.ob("P3", gs, gs.f.node, False,
              f"the network is persisted with {fmt}(): {LOSSY_FORMATS[fmt]}; a diagram over a network with such a variable "
              f"comes back with a network that lacks it (find_node / space keys fail for every space mentioning it)",
              key="rules format lossless")
    else:
        ck.ob("P3", gs, gs.f.node, True, f"{fmt} declares every variable", key="rules format lossless")


# ------------------------------------------------------------------------------------------ P4
def recompute_accessors(ck: Check) -> dict[str, str]:
    """field -> accessor method that tests the field for None and stores a computed value."""
    out: dict[str, str] = {}
    for fm in ck.prog.models():
        if fm.f.cls != "SuccessionDiagram":
            continue
        evs = fm.field_events()
        for e in evs:
            if e.kind != "store" or e.value is None or is_none(e.value) or e.nid not in fm.f.params():
                continue
            # a dominating/none test of the same field (directly or through a local copy)
            tested = False
            for b in fm.cfg.nodes:
                if b.kind == "branch" and b.test is not None:
                    for c in ast.walk(b.test):
                        if isinstance(c, ast.Compare) and isinstance(c.ops[0], (ast.Is, ast.IsNot)) and is_none(c.comparators[0]):
                            k = fm.key(c.left, fm.cfgn(c) if False else fm.cfg.nodes[next(iter(fm.cfg.g.predecessors(b.id)))])
                            l = c.left
                            if f"|{e.field}>" in k:
                                tested = True
                            elif isinstance(l, ast.Name):
                                for d in fm.cfg.reaching_defs(l.id, b):
                                    if d.kind == "stmt" and isinstance(d.ast, ast.Assign) and f"'{e.field}'" in text(d.ast.value):
                                        tested = True
            if tested and fm.f.name.startswith("node_"):
                out.setdefault(e.field, fm.f.qualname)
    return out


def p4(ck: Check) -> dict[str, str]:
    acc = recompute_accessors(ck)
    ck.note("recompute-on-demand accessors: " + ", ".join(f"{k}<-{v.split('.')[1]}" for k, v in sorted(acc.items())))
    fm = _sd(ck, "reclaim_node_data")
    all_fields = ck.prog.repo.typeddict_keys("NodeData")
    for e in fm.field_events():
        if e.kind != "store":
            continue
        if e.field == "*":
            flds = fm.dynamic_fields(e, all_fields)
            if flds is None:
                ck.ob("P4", fm, e.stmt, False, "reclaim stores under a key computed at run time; the set of fields it "
                                               "clears cannot be determined")
                continue
            lost = sorted(f for f in flds if f not in acc)
            probs = [f"`{x}` is a result, not a cache ({RESULT_FIELDS[x]})" for x in sorted(flds) if x in RESULT_FIELDS]
            if not is_none(e.value):
                probs.append(f"reclaim stores `{text(e.value)}` (only None is transparent)")
            if lost:
                probs.append(f"field(s) {lost} are cleared but have no recompute-on-demand accessor: the information is "
                             f"lost for good")
            ck.ob("P4", fm, e.stmt, not probs, "; ".join(probs) if probs else
                  f"fields {sorted(flds)} dropped; each is recomputed on demand")
            continue
        probs = []
        if not is_none(e.value):
            probs.append(f"reclaim stores `{text(e.value)}` (only None is transparent)")
        if e.field in RESULT_FIELDS:
            probs.append(f"`{e.field}` is a result, not a cache ({RESULT_FIELDS[e.field]}): after the call a query that does not "
                         f"ask for recomputation no longer knows it")
        if e.field not in acc:
            probs.append(f"field `{e.field}` has no recompute-on-demand accessor: the information is lost for good")
        ck.ob("P4", fm, e.stmt, not probs, "; ".join(probs) if probs else
              f"`{e.field}` dropped; recomputed on demand by {acc[e.field]}")
    # candidates are dropped only where the seeds are known, and the candidate accessor then answers with the seeds: it
    # refuses (`compute=False` -> KeyError) only when the seeds are unknown as well -- otherwise a query that was answered
    # before the reclaim raises afterwards
    cand_dropped = any(e.kind == "store" and e.field in ("attractor_candidates", "*") for e in fm.field_events())
    if cand_dropped:
        try:
            ca = _sd(ck, "node_attractor_candidates")
        except AnalysisError:
            ca = None
        if ca is not None:
            node_pc = [p_ for p_ in ca.f.params() if p_ != "self"][0]
            seeds_none = logic.B(f"none:FIELD<self|{node_pc}|attractor_seeds>")
            for r_ in own_walk(ca.f.node):
                if isinstance(r_, ast.Raise) and r_.exc is not None and "KeyError" in text(r_.exc):
                    pcr = ca.pc(ca.cfgn(r_))
                    try:
                        okr = seeds_none[1] in logic.atoms(pcr) and logic.implies(pcr, seeds_none)
                    except logic.TooBig:
                        okr = False
                    ck.ob("P4", ca, r_, okr, "the candidate query refuses only when the seeds are unknown too" if okr else
                          f"the candidate query raises under `{logic.show(pcr)[:80]}`, also when the seeds are known: after "
                          f"reclaim_node_data (which drops the candidates of exactly those nodes) a query that was answered before "
                          f"raises KeyError", key="candidate query after reclaim")
    for n in own_walk(fm.f.node):
        if isinstance(n, ast.Call) and isinstance(n.func, ast.Attribute):
            d = dotted(n.func) or ""
            if d.startswith("self.dag.") or d.startswith("self.node_indices.") or n.func.attr in ("clear", "pop", "remove_node"):
                if n.func.attr not in ("nodes",):
                    ck.ob("P4", fm, fm.f.stmt_of(n), False, f"reclaim calls `{d}`: structural data of the diagram is touched")
        if isinstance(n, (ast.Assign, ast.AugAssign)) and any(text(t).startswith("self.") and not text(t).startswith("self.node_data(")
                                                              for t in (n.targets if isinstance(n, ast.Assign) else [n.target])):
            ck.ob("P4", fm, n, False, f"reclaim rebinds diagram state: `{text(n)[:60]}`")
    return acc


# ------------------------------------------------------------------------------------------ P5
def p5(ck: Check, acc: dict[str, str]) -> None:
    prog = ck.prog
    reclaim = _sd(ck, "reclaim_node_data")
    cleared = set()
    for e in reclaim.field_events():
        if e.kind == "store":
            if e.field == "*":
                cleared |= (reclaim.dynamic_fields(e, prog.repo.typeddict_keys("NodeData")) or set())
            else:
                cleared.add(e.field)
    for fm in prog.models():
        for e in fm.field_events():
            if e.kind != "load" or e.field not in cleared:
                continue
            par = fm.f.parents.get(e.node)
            if isinstance(par, ast.Compare):
                ck.ob("P5", fm, e.stmt, True, f"`{e.field}` only compared")
                continue
            st = e.stmt
            # `F if F is not None else default`: the load sits in the arm of a conditional expression that tests it
            x_, guarded = e.node, False
            while x_ is not None and not isinstance(x_, ast.stmt):
                up = fm.f.parents.get(x_)
                if isinstance(up, ast.IfExp) and isinstance(up.test, ast.Compare) and len(up.test.ops) == 1 \
                        and isinstance(up.test.comparators[0], ast.Constant) and up.test.comparators[0].value is None \
                        and text(up.test.left) == text(e.node):
                    if (x_ is up.body and isinstance(up.test.ops[0], ast.IsNot)) or (x_ is up.orelse and isinstance(up.test.ops[0], ast.Is)):
                        guarded = True
                        break
                x_ = up
            if guarded:
                ck.ob("P5", fm, e.stmt, True, f"`{e.field}` read in the not-None arm of a conditional expression on the field")
                continue
            kf = logic.B(f"none:FIELD<{e.diag}|{e.nid}|{e.field}>")
            pc0 = fm.pc(e.cfgn)
            if kf[1] in logic.atoms(pc0) and logic.implies(pc0, logic.Not(kf)):
                ck.ob("P5", fm, e.stmt, True, f"`{e.field}` loaded behind a not-None test of the field")
                continue
            if isinstance(st, (ast.Assign, ast.AnnAssign)) and (st.value is e.node) and isinstance(
                    st.targets[0] if isinstance(st, ast.Assign) else st.target, ast.Name):
                v = (st.targets[0] if isinstance(st, ast.Assign) else st.target).id
                dn = fm.cfgn(st)
                bad = _unsafe_uses(fm, v, dn)
                ck.ob("P5", fm, st, not bad,
                      (f"`{v}` holds `{e.field}`, which reclaim_node_data may have set to None, and is used without a "
                       f"None test at line(s) {sorted(set(bad))}") if bad else
                      f"local copy `{v}` of `{e.field}` used only behind a None test or recomputation")
                continue
            if isinstance(par, ast.Return) and fm.f.qualname == acc.get(e.field):
                # returning the field itself: must be known not None
                pc = fm.pc(e.cfgn)
                k = logic.B(f"none:FIELD<{e.diag}|{e.nid}|{e.field}>")
                ok = k[1] in logic.atoms(pc) and logic.implies(pc, logic.Not(k))
                ck.ob("P5", fm, e.stmt, ok, "field returned only when present" if ok else
                      f"`{e.field}` returned although it may be None")
                continue
            # any other direct use must be dominated by a not-None test of the same field
            pc = fm.pc(e.cfgn)
            k = logic.B(f"none:FIELD<{e.diag}|{e.nid}|{e.field}>")
            ok = k[1] in logic.atoms(pc) and logic.implies(pc, logic.Not(k))
            ck.ob("P5", fm, e.stmt, ok, f"`{e.field}` used behind a not-None test" if ok else
                  f"`{e.field}` is used directly although reclaim_node_data may have set it to None")
    # accessor calls without compute=True
    accessors = {v.split(".")[1]: k for k, v in acc.items() if k in cleared}
    for fm in prog.models():
        for n in own_walk(fm.f.node):
            if not (isinstance(n, ast.Call) and callee_name(n) in accessors and isinstance(n.func, ast.Attribute)):
                continue
            callee = prog.repo.functions[f"{SD_MOD}:SuccessionDiagram.{callee_name(n)}"]
            params = [p for p in callee.params() if p != "self"]
            if "compute" not in params:
                continue
            cv = call_arg(n, params.index("compute"), "compute")
            if is_true(cv):
                continue
            cn = fm.cfgn(n)
            if cv is not None and not is_false(cv):
                # a variable: must be implied true by the path condition
                pc = fm.pc(cn)
                ok = logic.implies(pc, logic.B("T:" + fm.key(cv, cn)))
                ck.ob("P5", fm, fm.f.stmt_of(n), ok, f"compute flag `{text(cv)}` is true on this path" if ok else
                      f"`{text(n)[:60]}` may run with compute false after the data was reclaimed (KeyError)")
                continue
            ok, why = _dominated_by_computing_call(prog, fm, n, cn, callee_name(n), accessors[callee_name(n)])
            ck.ob("P5", fm, fm.f.stmt_of(n), ok, why if ok else
                  f"`{text(n)[:60]}` does not compute and {why}: it raises KeyError once the node's data was reclaimed")


# ------------------------------------------------------------------------------------------ P6
def p6(ck: Check, acc: dict[str, str]) -> None:
    prog = ck.prog
    reclaim = _sd(ck, "reclaim_node_data")
    cleared = set()
    for e in reclaim.field_events():
        if e.kind == "store":
            if e.field == "*":
                cleared |= (reclaim.dynamic_fields(e, prog.repo.typeddict_keys("NodeData")) or set())
            else:
                cleared.add(e.field)
    used = set()
    for fm in prog.models():
        if fm.f.qualname in ("SuccessionDiagram.reclaim_node_data",):
            continue
        for e in fm.field_events():
            if e.kind != "load" or e.field not in cleared:
                continue
            own_param = [p_ for p_ in fm.f.params() if p_ != "self"][:1]
            own = bool(own_param) and e.nid == own_param[0]
            if fm.f.qualname == acc.get(e.field) and own:
                ck.ob("P6", fm, e.stmt, True, f"`{e.field}`: the accessor's own cache")
                continue
            k = (fm.f.qualname, e.field, "own" if own else "other")
            if k in PRESENCE_NEUTRAL:
                used.add(k)
                ck.ob("P6", fm, e.stmt, True, f"`{e.field}` presence-neutral (reviewed): {PRESENCE_NEUTRAL[k]}",
                      key=f"{e.field} read in {fm.f.name} ({k[2]} node)")
                continue
            if _falls_back_to_accessor(fm, e, acc):
                ck.ob("P6", fm, e.stmt, True, f"`{e.field}`: the None case falls back to the accessor")
                continue
            ck.ob("P6", fm, e.stmt, False,
                  f"`{text(e.node)[:60]}` reads data that reclaim_node_data (and the computation of seeds) may have dropped, "
                  f"outside of the field's accessor: what is computed here depends on whether the value happens to be "
                  f"cached, so a reclaimed (or re-loaded) diagram can answer differently from an untouched one",
                  key=f"{e.field} read in {fm.f.name} ({k[2]} node)")
    # ... and only the accessor ever puts a value there: a value stored from elsewhere (inherited from the parent, a
    # cheaper approximation) is not what the accessor recomputes after the data was reclaimed
    for fm in prog.models():
        for e in fm.field_events():
            if e.kind not in ("store", "create") or e.field not in cleared or e.value is None or is_none(e.value):
                continue
            if isinstance(e.value, ast.List) and not e.value.elts:
                continue        # the 'nothing here' mark of the attractor fields: justified elsewhere (C01-S4, C14-R1)
            if fm.f.qualname == acc.get(e.field):
                continue
            ck.ob("P6", fm, e.stmt, False,
                  f"`{e.field}` is given the value `{text(e.value)[:50]}` outside its accessor {acc.get(e.field, '?')}: after "
                  f"reclaim_node_data the accessor recomputes a value of its own, so a reclaimed diagram can answer differently "
                  f"from an untouched one", key=f"{e.field} stored in {fm.f.name}")
    # ... and the object an accessor hands out *is* the cached object: changing it in place changes the cache behind the
    # accessor's back (after a reclaim the accessor recomputes the unmodified value)
    accessors = {q.split(".")[-1]: fld for fld, q in acc.items() if fld in cleared}
    # the result lists are handed out the same way (seeds and sets are parallel lists: re-ordering one of them through the
    # alias breaks their correspondence)
    accessors.update({"node_attractor_seeds": "attractor_seeds", "node_attractor_sets": "attractor_sets",
                      "node_attractor_candidates": "attractor_candidates"})
    mut = {"append", "extend", "insert", "remove", "pop", "clear", "sort", "reverse", "add", "discard", "update", "setdefault",
           "popitem", "remove_node", "remove_nodes_from", "remove_edge", "remove_edges_from", "add_node", "add_edge",
           "add_nodes_from", "add_edges_from", "set_update_function", "set_variable_name", "difference_update", "intersection_update"}
    n_acc = 0
    for fm in prog.models():
        for a_ in own_walk(fm.f.node):
            if not (isinstance(a_, ast.Assign) and len(a_.targets) == 1 and isinstance(a_.targets[0], ast.Name)
                    and isinstance(a_.value, ast.Call) and callee_name(a_.value) in accessors):
                continue
            n_acc += 1
            v_ = a_.targets[0].id
            an_ = fm.cfgn(a_)
            bad = []
            for x_ in own_walk(fm.f.node):
                tgt_ = None
                if isinstance(x_, ast.AugAssign) and isinstance(x_.target, ast.Name) and x_.target.id == v_:
                    tgt_ = x_
                elif isinstance(x_, ast.Call) and isinstance(x_.func, ast.Attribute) and isinstance(x_.func.value, ast.Name) \
                        and x_.func.value.id == v_ and x_.func.attr in mut:
                    tgt_ = x_
                elif isinstance(x_, (ast.Subscript,)) and isinstance(x_.ctx, (ast.Store, ast.Del)) and isinstance(x_.value, ast.Name) \
                        and x_.value.id == v_:
                    tgt_ = x_
                if tgt_ is not None:
                    try:
                        xn_ = fm.cfgn(tgt_)
                    except AnalysisError:
                        continue
                    if any(d_.id == an_.id for d_ in fm.cfg.reaching_defs(v_, xn_)):
                        bad.append(tgt_.lineno)
            ck.ob("P6", fm, a_, not bad, f"result of {callee_name(a_.value)} only read" if not bad else
                  f"`{v_}` is the object cached in `{accessors[callee_name(a_.value)]}` (the accessor returns the stored object); it is "
                  f"changed in place at line(s) {sorted(set(bad))}: later queries see the changed value, a reclaimed diagram the "
                  f"recomputed one", key=f"{callee_name(a_.value)} result in {fm.f.name}")
    for k in PRESENCE_NEUTRAL:
        if k not in used:
            ck.note(f"P6: reviewed exception {k} no longer occurs")


def _falls_back_to_accessor(fm: FuncModel, e, acc) -> bool:
    st = e.stmt
    if not (isinstance(st, ast.Assign) and st.value is e.node and isinstance(st.targets[0], ast.Name)):
        return False
    v = st.targets[0].id
    name = acc.get(e.field, ".?").split(".")[1]
    for n in own_walk(fm.f.node):
        if isinstance(n, ast.Assign) and isinstance(n.targets[0], ast.Name) and n.targets[0].id == v and \
                isinstance(n.value, ast.Call) and callee_name(n.value) == name and n is not st:
            cn = fm.cfgn(n)
            pc = fm.pc(cn)
            kv = logic.B("none:" + fm.key(ast.Name(id=v, ctx=ast.Load()), cn))
            if kv[1] in logic.atoms(pc) and logic.implies(pc, kv):
                return True
    return False


def _asserts_not_none(fm: FuncModel, b, v: str) -> bool:
    t = b.test
    pol = b.pol
    while isinstance(t, ast.UnaryOp) and isinstance(t.op, ast.Not):
        t, pol = t.operand, not pol
    if isinstance(t, ast.Compare) and len(t.ops) == 1 and isinstance(t.left, ast.Name) and t.left.id == v \
            and is_none(t.comparators[0]):
        if isinstance(t.ops[0], ast.Is):
            return not pol
        if isinstance(t.ops[0], ast.IsNot):
            return pol
    if isinstance(t, ast.BoolOp) and isinstance(t.op, ast.And) and pol:
        return any(_asserts_not_none(fm, type("B", (), {"test": x, "pol": True})(), v) for x in t.values)
    if isinstance(t, ast.BoolOp) and isinstance(t.op, ast.Or) and not pol:
        return any(_asserts_not_none(fm, type("B", (), {"test": x, "pol": False})(), v) for x in t.values)
    return False


def _unsafe_uses(fm: FuncModel, v: str, dn) -> list[int]:
    """Lines where the local `v` (a copy of a reclaimable field, defined at dn) is used other than in a
    comparison on some path along which `v is not None` does not follow from the branch conditions taken.
    Paths are enumerated (loop-free prefixes); a redefinition of v ends a path (the new value is computed)."""
    cfg = fm.cfg
    redefs = {n.id for n in cfg.nodes if n is not dn and n.id in cfg.g and v in cfg.defs_of(n)}
    tr = logic.Translator(lambda e: text(e))
    goal = logic.Not(logic.B("none:" + v))
    bad: list[int] = []
    budget = [4000]

    def uses_in(n):
        if n.kind not in ("stmt", "test", "for") or n.ast is None:
            return []
        root = n.ast.iter if n.kind == "for" else n.ast
        out = []
        if n.kind == "stmt" and isinstance(root, (ast.FunctionDef, ast.ClassDef)):
            return out
        for x in ast.walk(root):
            if isinstance(x, ast.Name) and x.id == v and isinstance(x.ctx, ast.Load):
                par = fm.f.parents.get(x)
                if isinstance(par, ast.Compare) and all(isinstance(o, (ast.Is, ast.IsNot, ast.Eq, ast.NotEq)) for o in par.ops):
                    continue
                if isinstance(par, ast.BoolOp):
                    continue
                out.append(x.lineno)
        return out

    def walk(i, facts, seen):
        budget[0] -= 1
        if budget[0] < 0:
            return
        n = cfg.nodes[i]
        if n.kind == "branch" and n.test is not None:
            f = tr.f(n.test)
            facts = facts + [f if n.pol else logic.Not(f)]
        u = uses_in(n)
        if u:
            try:
                ok = logic.implies(logic.And(*facts), goal)
            except logic.TooBig:
                ok = False
            if not ok:
                bad.extend(u)
                return
        if i in redefs:
            return
        for s2 in cfg.g.successors(i):
            if s2 not in seen:
                walk(s2, facts, seen | {s2})

    for s0 in cfg.g.successors(dn.id):
        walk(s0, [], {dn.id, s0})
    if budget[0] < 0:
        bad.append(dn.lineno)
    return bad


def _dominated_by_computing_call(prog, fm: FuncModel, call: ast.Call, cn, accessor: str, field: str, depth=0):
    """A computing call (compute=True) of the same accessor for the same node dominates `cn`, here or in every caller."""
    recv, nid = text(call.func.value), text(call.args[0]) if call.args else "?"
    for d in fm.cfg.dominators(cn):
        if d.kind != "stmt" or d.ast is None:
            continue
        for c in ast.walk(d.ast):
            if isinstance(c, ast.Call) and callee_name(c) == accessor and isinstance(c.func, ast.Attribute) \
                    and text(c.func.value) == recv and c.args and text(c.args[0]) == nid:
                callee = prog.repo.functions[f"{SD_MOD}:SuccessionDiagram.{accessor}"]
                params = [p for p in callee.params() if p != "self"]
                if is_true(call_arg(c, params.index("compute"), "compute")):
                    # nothing in between may drop the field
                    for i in fm.cfg.between(d, cn):
                        w = fm.node_writes(fm.cfg.nodes[i])
                        if any(x.partition("@")[0] == "F:" + field for x in w) and i != cn.id:
                            # the accessor itself stores a value, not None: look for None stores only
                            if _may_store_none(prog, fm, fm.cfg.nodes[i], field):
                                return False, f"line {fm.cfg.nodes[i].lineno} may drop `{field}` before the read"
                    return True, f"dominated by the computing call at line {c.lineno}"
    if depth >= 2:
        return False, "no computing call dominates it"
    # every caller must establish it
    if recv not in fm.f.params() or nid not in fm.f.params():
        return False, "no computing call for the same node dominates it"
    callers = []
    for g in prog.models():
        for c in own_walk(g.f.node):
            if isinstance(c, ast.Call) and prog.repo.resolve_call(g.f, c) == fm.f.key:
                callers.append((g, c))
    if not callers:
        return False, "it has no caller that computes the data first"
    ps = fm.f.params()
    for g, c in callers:
        a_recv, a_nid = call_arg(c, ps.index(recv), recv), call_arg(c, ps.index(nid), nid)
        if a_recv is None or a_nid is None:
            return False, f"caller {g.f.qualname} does not pass the node explicitly"
        fake = ast.Call(ast.Attribute(a_recv, accessor, ast.Load()), [a_nid], [])
        ok, why = _dominated_by_computing_call(prog, g, fake, g.cfgn(c), accessor, field, depth + 1)
        if not ok:
            return False, f"in caller {g.f.qualname}: {why}"
    # and nothing inside this function before the read drops it
    for i in fm.cfg.can_reach_avoiding(cn, []):
        if _may_store_none(prog, fm, fm.cfg.nodes[i], field):
            return False, f"line {fm.cfg.nodes[i].lineno} may drop `{field}` before the read"
    return True, f"every caller ({', '.join(sorted({g.f.qualname for g, _ in callers}))}) computes the data for this node first"


def _may_store_none(prog, fm: FuncModel, n, field: str) -> bool:
    if n.kind != "stmt" or n.ast is None:
        return False
    a = n.ast
    if isinstance(a, ast.Assign) and is_none(a.value) and f"'{field}'" in text(a.targets[0]):
        return True
    for c in ast.walk(a):
        if isinstance(c, ast.Call):
            tgt = prog.repo.resolve_call(fm.f, c)
            if tgt and not tgt.startswith("ext:"):
                g = prog.repo.functions[tgt]
                if g.name in ("reclaim_node_data",):
                    return True
                for k in prog.repo.reachable_from(tgt):
                    gg = prog.repo.functions[k]
                    for s in own_walk(gg.node):
                        if isinstance(s, ast.Assign) and is_none(s.value) and f"'{field}'" in text(s.targets[0]) \
                                and prog.call_feasible_chain(fm.f, c, k) if hasattr(prog, "call_feasible_chain") else False:
                            return True
    return False
