"""C20 -- reported diagram metadata is accurate (depth, ids, keys, comparators, summary)."""

from __future__ import annotations

import ast

from .. import logic
from ..program import FuncModel, call_arg
from ..report import Check
from ..repo import AnalysisError, dotted, own_walk, text
from .common import SD_MOD, callee_name, escapes, is_false, is_none, is_true, reach_stop

EXPLANATION = (
    "(M1) depth closure: `depth` is stored only at node creation (constant 0) and in the edge-update helper; "
    "every dag.add_edge is followed on every path by that helper for (child, parent); the helper never lowers a "
    "depth (max form, or store dominated by `new > current`), computes new = parent depth + 1, and after every "
    "store re-applies itself to all dag.successors of the node; depth() is a max-fold over all nodes. "
    "(M2) ids: root() is the constant 0 and the root is the first node created, __len__ is the node count, the "
    "three id iterators range over range(len(self)) with the right polarity of the expanded filter. "
    "(M3) keys: find_node looks the query's space key up in the index that node creation fills, returns the stored "
    "id on a hit and None otherwise; the key arithmetic is injective (code width fits the shift stride, codes of "
    "0/1/absent distinct), decided from the constants of the expression. (M4) is_subgraph tests node inclusion for "
    "every node and edge inclusion for every expanded node, is_isomorphic is the conjunction of both directions. "
    "(M5) build/summary/expanded_attractor_* aggregate attractor data only over nodes known expanded and label by "
    "node_is_minimal of the same node."
)
ASSUMPTIONS = [
    "networkx DiGraph.add_edge / successors / number_of_nodes behave as documented",
    "no node or edge is ever removed (C04-T2)",
    "variable indices are contiguous small integers (AEON VariableId)",
]


def run(ck: Check) -> None:
    m1(ck)
    m2(ck)
    m3(ck)
    m4(ck)
    m5(ck)
    ck.floor("M1", 4)
    ck.floor("M2", 6)
    ck.floor("M3", 4)
    ck.floor("M4", 4)
    ck.floor("M5", 5)


# ------------------------------------------------------------------------------------------ M1
def m1(ck: Check) -> None:
    prog = ck.prog
    stores = []
    for fm in prog.models():
        for e in fm.field_events():
            if e.field == "depth" and e.kind in ("store", "create"):
                stores.append((fm, e))
    helpers = {fm.f.key: fm for fm, e in stores if e.kind == "store"}
    # bulk writes of node attributes (networkx set_node_attributes, nodes[..].update(depth=..)) bypass the edge-update helper
    for fm in prog.models():
        for c in own_walk(fm.f.node):
            if isinstance(c, ast.Call) and (dotted(c.func) or "").split(".")[-1] == "set_node_attributes":
                nm = call_arg(c, 2, "name")
                if nm is None or (isinstance(nm, ast.Constant) and nm.value == "depth") or not isinstance(nm, ast.Constant):
                    ck.ob("M1", fm, fm.f.stmt_of(c), False,
                          f"`{text(c)[:70]}` writes node depths in bulk, outside the edge-update helper: depth is the length of the "
                          f"*longest* path from the root, which only the helper maintains (a shortest-path or level numbering differs "
                          f"for every node with parents on different levels)", key=f"bulk depth write in {fm.f.name}")
    for fm, e in stores:
        if e.kind == "create":
            ok = isinstance(e.value, ast.Constant) and e.value.value == 0
            ck.ob("M1", fm, e.stmt, ok, "node created with depth 0" if ok else
                  f"node created with depth `{text(e.value)}` (a node has depth 0 until an edge reaches it)", key="create depth")
    if len(helpers) != 1:
        for fm, e in stores:
            if e.kind == "store":
                ck.ob("M1", fm, e.stmt, False, f"`depth` is stored in {len(helpers)} functions; one edge-update helper expected")
        if not helpers:
            raise AnalysisError("anchor vanished: no function stores `depth`")
        return
    hfm = next(iter(helpers.values()))
    hf = hfm.f
    hparams = [p for p in hf.params() if p != "self"]
    if len(hparams) != 2:
        raise AnalysisError(f"{hf.qualname}: expected (node, parent) parameters")
    # which parameter is the node whose depth is stored?
    dstores = [e for fm, e in stores if e.kind == "store"]
    node_p = dstores[0].nid
    if node_p not in hparams:
        msg = "depth is stored on a node that is not a parameter of the helper"
        # an explicit work list that could not be read as the recursion: say why when a visited set guards the pushes
        for n_ in own_walk(hf.node):
            if isinstance(n_, ast.If) and isinstance(n_.test, ast.Compare) and len(n_.test.ops) == 1 \
                    and isinstance(n_.test.ops[0], ast.NotIn) and isinstance(n_.test.comparators[0], ast.Name) \
                    and any(isinstance(c_, ast.Call) and isinstance(c_.func, ast.Attribute) and c_.func.attr in ("append", "appendleft", "add")
                            for s_ in n_.body for c_ in ast.walk(s_)) \
                    and any(isinstance(w_, ast.While) for w_ in own_walk(hf.node)):
                msg = (f"line {n_.lineno}: the depth update is propagated with a work list on which every node is put at most once "
                       f"(`{text(n_.test)}`): a longest-path update is not a reachability sweep -- a descendant that is reached both "
                       f"directly and through a sibling must be raised again after the sibling was raised, so depths (and "
                       f"depth(), the summary header) come out too small")
                break
        ck.ob("M1", hfm, dstores[0].stmt, False, msg)
        return
    parent_p = [p for p in hparams if p != node_p][0]
    node_idx, parent_idx = hparams.index(node_p), hparams.index(parent_p)
    for e in dstores:
        probs = []
        if e.nid != node_p:
            probs.append(f"depth of `{e.nid}` stored (expected the edge's child `{node_p}`)")
        v = e.value
        cur = f"FIELD<self|{node_p}|depth>"
        new = None
        vk = hfm.key(v, e.cfgn) if v is not None else ""
        if isinstance(v, ast.Call) and callee_name(v) == "max":
            args = [hfm.key(a, e.cfgn) for a in v.args]
            if cur not in args:
                probs.append("max() does not include the current depth: a depth could decrease")
            rest = [a for a in v.args if hfm.key(a, e.cfgn) != cur]
            new = rest[0] if len(rest) == 1 else None
        else:
            new = v
            # the store must be dominated by `new > current`
            pc = hfm.pc(e.cfgn, numeric={cur, vk, f"FIELD<self|{parent_p}|depth>"})
            want = logic.Lt(cur, vk)
            try:
                okdom = vk in {t for a in logic.atoms(pc) if a[0] != "b" for t in a[1:]} and logic.implies(pc, want)
            except logic.TooBig:
                okdom = False
            if not okdom:
                probs.append(f"depth overwritten with `{text(v)}` without knowing that it exceeds the current depth "
                             f"(path condition {logic.show(pc)}): a longer path found earlier is forgotten")
        if new is not None:
            nk = hfm.key(new, e.cfgn)
            exp1 = f"FIELD<self|{parent_p}|depth> + 1"
            exp2 = f"1 + FIELD<self|{parent_p}|depth>"
            if nk not in (exp1, exp2):
                probs.append(f"new depth `{nk}` is not the parent's depth + 1")
        # propagation to existing successors after the store
        prop = []
        for n in own_walk(hf.node):
            if isinstance(n, ast.For):
                src = n.iter
                at_ = hfm.cfg.loop_header[n]
                for _ in range(6):
                    # copies, re-orderings and casts of the successor list, also through a local
                    if isinstance(src, ast.Call) and callee_name(src) in ("list", "sorted", "tuple", "reversed") and src.args:
                        src = src.args[0]
                    elif isinstance(src, ast.Call) and callee_name(src) == "cast" and len(src.args) == 2:
                        src = src.args[1]
                    elif isinstance(src, ast.Name):
                        sd__ = hfm.single_def(src.id, at_)
                        if sd__ is None:
                            break
                        at_, src = sd__
                    else:
                        break
                if isinstance(src, ast.Call) and callee_name(src) == "successors" and src.args \
                        and text(src.args[0]) == node_p and isinstance(n.target, ast.Name):
                    for c in ast.walk(n):
                        if isinstance(c, ast.Call) and ck.prog.repo.resolve_call(hf, c) == hf.key:
                            a_node = call_arg(c, node_idx, node_p)
                            a_par = call_arg(c, parent_idx, parent_p)
                            if a_node is not None and a_par is not None and text(a_node) == n.target.id \
                                    and text(a_par) == node_p:
                                skip = [s for s in ast.walk(n) if isinstance(s, (ast.Break, ast.Continue, ast.Return))]
                                conds = [s for s in ast.walk(n) if isinstance(s, ast.If)]
                                if not skip and not conds:
                                    prop.append(hfm.cfg.loop_header[n])
        if not prop or escapes(hfm, e.cfgn, prop, None, need_pre=False):
            probs.append("after raising the depth of a node, the depths of the successors it already has are not "
                         "updated on every path (depth != longest path when a node gains a longer incoming path later)")
        ck.ob("M1", hfm, e.stmt, not probs, "; ".join(probs) if probs else
              "depth only increases, = parent depth + 1, and the increase is propagated to existing successors")
    # every add_edge is followed by the helper for (child, parent)
    for fm in prog.models():
        for n in own_walk(fm.f.node):
            if isinstance(n, ast.Call) and (dotted(n.func) or "").endswith("dag.add_edge") and len(n.args) >= 2:
                cn = fm.cfgn(n)
                par, child = fm.key(n.args[0], cn), fm.key(n.args[1], cn)
                cuts = []
                for c in own_walk(fm.f.node):
                    if isinstance(c, ast.Call) and prog.repo.resolve_call(fm.f, c) == hf.key:
                        a_node = call_arg(c, node_idx, node_p)
                        a_par = call_arg(c, parent_idx, parent_p)
                        cc = fm.cfgn(c)
                        if a_node is not None and a_par is not None and fm.key(a_node, cc) == child and fm.key(a_par, cc) == par:
                            cuts.append(cc)
                esc = escapes(fm, cn, cuts, None, need_pre=False) if cuts else "function exit"
                ck.ob("M1", fm, fm.f.stmt_of(n), not esc,
                      f"edge ({par} -> {child}) followed by the depth update of the child" if not esc else
                      f"an edge is added without updating the child's depth from this parent (path reaches {esc})")
    # also when the edge already exists a second motif does not change depth: nothing to check.
    # depth() = max over all nodes
    dfm = prog.fm(SD_MOD, "SuccessionDiagram.depth")
    probs = []
    loops = [n for n in own_walk(dfm.f.node) if isinstance(n, ast.For)]
    rets = [n for n in own_walk(dfm.f.node) if isinstance(n, ast.Return)]
    comps = [n for n in own_walk(dfm.f.node) if isinstance(n, (ast.ListComp, ast.GeneratorExp, ast.SetComp))]
    if not loops and len(rets) == 1 and len(comps) == 1:
        # max(...) over a comprehension of the depths of all nodes
        c0 = comps[0]
        g0 = c0.generators[0]
        it = text(g0.iter)
        if len(c0.generators) != 1 or g0.ifs:
            probs.append("depth() skips some nodes")
        if not (".dag.nodes" in it or "node_ids()" in it or "range(len(self))" in it):
            probs.append(f"depth() ranges over `{it}`, not over all nodes")
        tnames = [g0.target.id] if isinstance(g0.target, ast.Name) else \
            [t_.id for t_ in g0.target.elts if isinstance(t_, ast.Name)] if isinstance(g0.target, ast.Tuple) else []
        # `for _, data in dag.nodes(data=True)`: the element is (id, attribute dict)
        pair_form = isinstance(g0.target, ast.Tuple) and "nodes(data=True)" in it and len(tnames) == 2 and text(c0.elt) == f"{tnames[1]}['depth']"
        if not pair_form and ("['depth']" not in text(c0.elt) or not isinstance(g0.target, ast.Name) or g0.target.id not in text(c0.elt)):
            probs.append("depth() does not collect the depth of each node")
        rv = rets[0].value
        uses = set()
        for n in ast.walk(rv):
            if n is c0:
                uses.add("comp")
            if isinstance(n, ast.Name):
                d = dfm.single_def(n.id, dfm.cfgn(rets[0]))
                if d and d[1] is c0:
                    uses.add("comp")
        if not (isinstance(rv, ast.Call) and callee_name(rv) == "max" and "comp" in uses):
            probs.append("depth() does not return the maximum of the collected depths")
    elif len(loops) != 1 or len(rets) != 1 or not isinstance(rets[0].value, ast.Name):
        probs.append("depth() is not a single fold over the nodes")
    else:
        acc = rets[0].value.id
        lp = loops[0]
        it = text(lp.iter)
        if not (".dag.nodes" in it or "node_ids()" in it or "range(len(self))" in it):
            probs.append(f"depth() folds over `{it}`, not over all nodes")
        upd = [s for s in ast.walk(lp) if isinstance(s, ast.Assign) and isinstance(s.targets[0], ast.Name) and s.targets[0].id == acc]
        if len(upd) != 1 or not (isinstance(upd[0].value, ast.Call) and callee_name(upd[0].value) == "max"
                                 and any(text(a) == acc for a in upd[0].value.args)
                                 and any("['depth']" in text(a) for a in upd[0].value.args)):
            probs.append("depth() does not accumulate max(acc, node depth)")
        if any(isinstance(s, (ast.If, ast.Break, ast.Continue)) for s in ast.walk(lp)):
            probs.append("depth() skips some nodes")
        init = [s for s in dfm.f.node.body if isinstance(s, ast.Assign) and isinstance(s.targets[0], ast.Name) and s.targets[0].id == acc]
        if not init or not (isinstance(init[0].value, ast.Constant) and init[0].value.value == 0):
            probs.append("depth() does not start from 0")
    ck.ob("M1", dfm, dfm.f.node, not probs, "; ".join(probs) if probs else "depth() = max over all nodes", key="depth()")


# ------------------------------------------------------------------------------------------ M2
def m2(ck: Check) -> None:
    prog = ck.prog
    fm = prog.fm(SD_MOD, "SuccessionDiagram.root")
    rets = [n for n in own_walk(fm.f.node) if isinstance(n, ast.Return)]
    ok = len(rets) == 1 and isinstance(rets[0].value, ast.Constant) and rets[0].value.value == 0
    ck.ob("M2", fm, fm.f.node, ok, "root() is the constant 0" if ok else "root() does not return the constant 0", key="root()")
    fm = prog.fm(SD_MOD, "SuccessionDiagram.__len__")
    rets = [n for n in own_walk(fm.f.node) if isinstance(n, ast.Return)]
    ok = len(rets) == 1 and text(rets[0].value) in ("self.dag.number_of_nodes()", "len(self.dag)", "len(self.dag.nodes)",
                                                    "len(self.node_indices)")
    ck.ob("M2", fm, fm.f.node, ok, "len() is the node count" if ok else
          f"len() returns `{text(rets[0].value) if rets else '?'}`", key="__len__")
    for name, want in (("node_ids", None), ("stub_ids", False), ("expanded_ids", True)):
        fm = prog.fm(SD_MOD, f"SuccessionDiagram.{name}")
        probs = []
        loops = [n for n in own_walk(fm.f.node) if isinstance(n, ast.For)]
        ys = [n for n in own_walk(fm.f.node) if isinstance(n, ast.Yield)]
        all_ids = ("range(len(self))", "range(self.dag.number_of_nodes())") + (("self.node_ids()",) if name != "node_ids" else ())
        if len(loops) != 1 or text(loops[0].iter) not in all_ids:
            probs.append("does not range over range(len(self))")
        elif len(ys) != 1 or fm.key(ys[0].value, fm.cfgn(ys[0])) != text(loops[0].target):
            probs.append("does not yield the loop index")
        else:
            yn = fm.cfgn(ys[0])
            pc = fm.pc(yn)
            var = text(loops[0].target)
            at = logic.B(f"T:FIELD<self|{var}|expanded>")
            if want is None:
                if logic.atoms(pc):
                    probs.append(f"ids are filtered by {logic.show(pc)}")
            else:
                goal = at if want else logic.Not(at)
                if not logic.equivalent(pc, goal):
                    probs.append(f"filter is `{logic.show(pc)}`, expected expanded == {want}")
        ck.ob("M2", fm, fm.f.node, not probs, "; ".join(probs) if probs else f"{name}() ranges over 0..len-1"
              + ("" if want is None else f" with expanded == {want}"), key=name)
    # the root is the first node created
    fm = prog.fm(SD_MOD, "SuccessionDiagram.__init__")
    probs = []
    dag_new = ens = None
    for n in own_walk(fm.f.node):
        if isinstance(n, ast.Assign) or isinstance(n, ast.AnnAssign):
            tg = n.targets[0] if isinstance(n, ast.Assign) else n.target
            if text(tg) == "self.dag" and n.value is not None:
                dag_new = n
        if isinstance(n, ast.Call) and callee_name(n) == "_ensure_node":
            ens = n
    if dag_new is None or text(dag_new.value) not in ("nx.DiGraph()", "DiGraph()"):
        probs.append("the constructor does not start from an empty DiGraph")
    if ens is None or not is_none(call_arg(ens, 0, "parent_id")) or not (
            isinstance(call_arg(ens, 1, "stable_motif"), ast.Dict) and not call_arg(ens, 1, "stable_motif").keys):
        probs.append("the constructor does not create the root as _ensure_node(None, {})")
    elif dag_new is not None:
        if fm.cfgn(ens).id not in fm.cfg.reach_avoiding(fm.cfgn(dag_new), []):
            probs.append("root creation precedes the creation of the graph")
        others = [c for c in own_walk(fm.f.node) if isinstance(c, ast.Call) and callee_name(c) == "_ensure_node" and c is not ens]
        if others:
            probs.append("more than one node created by the constructor")
    ck.ob("M2", fm, fm.f.node, not probs, "; ".join(probs) if probs else
          "root created first, in an empty graph, from the empty space", key="root creation")


# ------------------------------------------------------------------------------------------ M3
def m3(ck: Check) -> None:
    prog = ck.prog
    fm = prog.fm(SD_MOD, "SuccessionDiagram.find_node")
    f = fm.f
    q = [p for p in f.params() if p != "self"][0]
    keycalls = [n for n in own_walk(f.node) if isinstance(n, ast.Call) and callee_name(n) == "space_unique_key"]
    probs = []
    if len(keycalls) != 1 or text(keycalls[0].args[0]) != q or text(keycalls[0].args[1]) != "self.network":
        probs.append("the key is not space_unique_key(query, self.network)")
    elif any(d.kind != "entry" for d in fm.cfg.reaching_defs(q, fm.cfgn(keycalls[0]))):
        probs.append(f"the query `{q}` is re-bound before the key is computed: the node that is returned need not have the "
                     f"space that was asked for (find_node is exact: equal space or nothing)")
    ck.ob("M3", fm, f.node, not probs, "; ".join(probs) if probs else "lookup key computed from the query against the diagram's network",
          key="find_node key")
    import types

    def virtual_returns():
        """a conditional expression in a return counts as two returns"""
        for r0 in own_walk(f.node):
            if not isinstance(r0, ast.Return):
                continue
            rn0 = fm.cfgn(r0)

            def go(e, cond):
                if isinstance(e, ast.IfExp):
                    c_ = fm.translator(rn0).f(e.test)
                    yield from go(e.body, logic.And(cond, c_))
                    yield from go(e.orelse, logic.And(cond, logic.Not(c_)))
                else:
                    yield types.SimpleNamespace(value=e, node=r0, pc=cond, lineno=r0.lineno)
            yield from go(r0.value, fm.pc(rn0))

    for r in virtual_returns():
        rn = fm.cfgn(r.node)
        pc = r.pc
        in_atoms = [a for a in logic.atoms(pc) if a[0] == "b" and a[1].startswith("in:") and a[1].endswith("self.node_indices")]
        in_handler = any(isinstance(a, ast.ExceptHandler) for a in f.ancestors(r.node))
        if is_none(r.value):
            ok = in_handler or (len(in_atoms) == 1 and logic.implies(pc, logic.Not(("atom", in_atoms[0]))))
            if not ok:
                # `if any(self.network.find_variable(v) is None for v in <query>): return None` -- the explicit form of the
                # handler: a space that names a variable the network does not have is the space of no node
                for t_, pol_, b_ in fm.facts(rn):
                    q_ = logic.quantifier(t_) if pol_ else None
                    if q_ is not None and q_[0] and isinstance(q_[2], str):
                        it_ = q_[1]
                        while isinstance(it_, ast.Call) and isinstance(it_.func, ast.Attribute) and it_.func.attr == "keys" and not it_.args:
                            it_ = it_.func.value
                        c_ = q_[3]
                        unknown = isinstance(c_, ast.Compare) and len(c_.ops) == 1 and isinstance(c_.ops[0], ast.Is) and is_none(c_.comparators[0]) \
                            and isinstance(c_.left, ast.Call) and callee_name(c_.left) == "find_variable" and len(c_.left.args) == 1 \
                            and text(c_.left.args[0]) == q_[2] and text(c_.left.func.value) == "self.network"
                        if unknown and isinstance(it_, ast.Name) and it_.id == q:
                            ok = True
            ck.ob("M3", fm, r.node, ok, "None only when the key is absent (or the query names an unknown variable)" if ok else
                  f"None returned although the key may be present (path condition {logic.show(pc)})")
        else:
            v = text(r.value)

            def is_key(e):
                if keycalls and e is keycalls[0]:
                    return True
                if isinstance(e, ast.Name):
                    d = fm.single_def(e.id, rn)
                    return bool(d and keycalls and d[1] is keycalls[0])
                return False
            rv = fm.canon_ast(r.value, rn)
            raw = r.value
            if isinstance(raw, ast.Name):
                d = fm.single_def(raw.id, rn)
                raw = d[1] if d and not fm.stale(d[0], rn, d[1]) else raw
            if isinstance(raw, ast.Call) and isinstance(raw.func, ast.Attribute) and raw.func.attr == "get" \
                    and text(raw.func.value) == "self.node_indices" and raw.args and is_key(raw.args[0]) \
                    and (len(raw.args) == 1 or is_none(raw.args[1])) and not raw.keywords:
                ok = True  # dict.get: the stored id on a hit, None on a miss
            else:
                ok = len(in_atoms) == 1 and logic.implies(pc, ("atom", in_atoms[0])) and isinstance(raw, ast.Subscript) \
                    and text(raw.value) == "self.node_indices" and is_key(raw.slice) \
                    and in_atoms[0][1] == f"in:{fm.key(raw.slice, rn)}|self.node_indices"
            ck.ob("M3", fm, r.node, ok, "stored id returned on a hit" if ok else
                  f"`{v}` returned; expected node_indices[key] under `key in node_indices` (or node_indices.get(key))")
    # key arithmetic
    kf = prog.fm("biobalm.space_utils", "space_unique_key")
    probs = []
    upd = [n for n in own_walk(kf.f.node) if isinstance(n, ast.AugAssign)]
    if len(upd) != 1 or not isinstance(upd[0].op, ast.BitOr):
        probs.append("the key is not accumulated with |= (per-variable codes could interfere)")
    else:
        v = kf.canon_ast(upd[0].value, kf.cfgn(upd[0]))   # locals that only name a sub-term are looked through
        ok_shape = isinstance(v, ast.BinOp) and isinstance(v.op, ast.LShift) and isinstance(v.left, ast.BinOp) \
            and isinstance(v.left.op, ast.Add) and isinstance(v.right, ast.BinOp) and isinstance(v.right.op, ast.Mult)
        if not ok_shape:
            probs.append(f"key term `{text(v)}` is not of the form (value + C) << (S * index)")
        else:
            consts = [x.value for x in (v.left.left, v.left.right) if isinstance(x, ast.Constant)]
            strides = [x.value for x in (v.right.left, v.right.right) if isinstance(x, ast.Constant)]
            if len(consts) != 1 or len(strides) != 1:
                probs.append(f"cannot read code offset / shift stride from `{text(v)}`")
            else:
                C, S = consts[0], strides[0]
                codes = {0 + C, 1 + C}
                if 0 in codes or len(codes) != 2:
                    probs.append(f"codes of values 0/1 ({sorted(codes)}) are not distinct from 'absent' (0)")
                if max(codes) >= 2 ** S:
                    probs.append(f"code {max(codes)} needs more than the {S} bit(s) reserved per variable: keys of "
                                 f"different spaces collide")
                idx = [x for x in (v.right.left, v.right.right) if not isinstance(x, ast.Constant)][0]
                lps = [n for n in own_walk(kf.f.node) if isinstance(n, ast.For)]
                keyvar = lps[0].target.elts[0].id if lps and isinstance(lps[0].target, ast.Tuple) and isinstance(lps[0].target.elts[0], ast.Name) else None
                from_index = False
                for nm in ast.walk(idx):
                    if isinstance(nm, ast.Name):
                        d_ = kf.single_def(nm.id, kf.cfgn(upd[0]))
                        if d_ and isinstance(d_[1], ast.Call) and callee_name(d_[1]) == "find_variable" and d_[1].args \
                                and text(d_[1].args[0]) == keyvar:
                            from_index = True
                if not from_index:
                    probs.append("shift does not depend on the variable index")
                val_names = {x.id for x in ast.walk(v.left) if isinstance(x, ast.Name)}
                valvar = lps[0].target.elts[1].id if lps and isinstance(lps[0].target, ast.Tuple) and len(lps[0].target.elts) > 1 \
                    and isinstance(lps[0].target.elts[1], ast.Name) else None
                if valvar not in val_names:
                    probs.append("the code does not depend on the value of the variable")
        # every item of the space contributes
        loops = [n for n in own_walk(kf.f.node) if isinstance(n, ast.For)]
        if len(loops) != 1 or not text(loops[0].iter).endswith(".items()") or any(
                isinstance(s, (ast.Continue, ast.Break)) for s in ast.walk(loops[0])):
            probs.append("not every (variable, value) of the space contributes to the key")
        init = [s for s in kf.f.node.body if isinstance(s, (ast.Assign, ast.AnnAssign)) and text(getattr(s, "target", None) or s.targets[0]) == text(upd[0].target)]
        if not init or not (isinstance(init[0].value, ast.Constant) and init[0].value.value == 0):
            probs.append("key does not start from 0")
    ck.ob("M3", kf, kf.f.node, not probs, "; ".join(probs) if probs else
          "key = OR of (value+2) << 2*index: injective on spaces", key="space_unique_key arithmetic")


# ------------------------------------------------------------------------------------------ M4
def m4(ck: Check) -> None:
    prog = ck.prog
    fm = prog.fm(SD_MOD, "SuccessionDiagram.is_subgraph")
    f = fm.f
    other = [p for p in f.params() if p != "self"][0]
    loops = [n for n in f.node.body if isinstance(n, ast.For)]
    if len(loops) != 1:
        raise AnalysisError("anchor vanished: node loop of is_subgraph")
    lp = loops[0]
    it = text(lp.iter)
    i = text(lp.target)
    all_nodes = it in ("self.node_ids()", "range(len(self))")
    # node inclusion test: return False when other.find_node(space of i) is None
    node_rets = []
    edge_rets = []

    def find_key(e, at):
        """canonical text with names bound to `other.find_node(space)` expanded"""
        if isinstance(e, ast.Name):
            sd = fm.single_def(e.id, at)
            if sd is not None and isinstance(sd[1], ast.Call) and callee_name(sd[1]) == "find_node":
                return fm.key(sd[1], sd[0])
        return fm.key(e, at)

    def atomize(e):
        if isinstance(e, ast.Compare) and len(e.ops) == 1:
            at = fm.cfgn(e)
            if isinstance(e.ops[0], (ast.Is, ast.IsNot)) and is_none(e.comparators[0]):
                a = logic.B("none:" + find_key(e.left, at))
                return a if isinstance(e.ops[0], ast.Is) else logic.Not(a)
            if isinstance(e.ops[0], (ast.In, ast.NotIn)):
                a = logic.B(f"in:{find_key(e.left, at)}|{fm.key(e.comparators[0], at)}")
                return a if isinstance(e.ops[0], ast.In) else logic.Not(a)
        return None

    for r in ast.walk(lp):
        if isinstance(r, ast.Return) and is_false(r.value):
            rn = fm.cfgn(r)
            pc = fm.pc(rn, atomize=atomize)
            k = f"none:{other}.find_node(FIELD<self|{i}|space>)"
            if any(a == ("b", k) for a in logic.atoms(pc)) and logic.implies(pc, logic.B(k)):
                node_rets.append((r, pc))
            else:
                edge_rets.append((r, pc))
    probs = []
    # a verdict before the node loop: only "more nodes than the other diagram" decides the question on its own
    for r in own_walk(f.node):
        if isinstance(r, ast.Return) and is_false(r.value) and fm.cfgn(r).id not in fm.cfg.loop_nodes[lp]:
            pc0 = fm.pc(fm.cfgn(r))
            sound = logic.Lt(f"len({other})", "len(self)")
            try:
                ok0 = bool(logic.atoms(pc0)) and logic.implies(pc0, sound)
            except logic.TooBig:
                ok0 = False
            if not ok0:
                probs.append(f"line {r.lineno}: `return False` outside the node-by-node comparison under `{logic.show(pc0)[:80]}`: only "
                             f"len(self) > len(other) rules a subgraph out without looking at the nodes (counts of expanded nodes, edges "
                             f"or attractors say nothing: a stub of self may face an expanded node of other)")
    if not node_rets:
        probs.append("no `return False` when a node's space is missing from the other diagram")
    else:
        r, pc = node_rets[0]
        exp = logic.B(f"T:FIELD<self|{i}|expanded>")
        if not all_nodes:
            probs.append(f"node inclusion is only tested for `{it}`: nodes outside that range (unexpanded stubs) are "
                         f"never compared, so different diagrams can be reported as equal")
        elif exp[1] in logic.atoms(pc) and logic.implies(pc, exp):
            probs.append("node inclusion is tested for expanded nodes only")
    ck.ob("M4", fm, lp, not probs, "; ".join(probs) if probs else "node inclusion tested for every node", key="node inclusion")
    # edge inclusion for every expanded node
    probs = []
    inner = [n for n in ast.walk(lp) if isinstance(n, ast.For) and n is not lp]
    quant = None
    if not inner:
        # the same test written with any(...): `if any(other.find_node(space of s) not in other_successors for s in my successors)`
        for r, rpc in edge_rets:
            for b in fm.cfg.dominators(fm.cfgn(r)):
                if b.kind == "branch" and b.test is not None:
                    tn_ = fm.cfg.nodes[next(iter(fm.cfg.g.predecessors(b.id)))]
                    e, pol = b.test, b.pol
                    while True:
                        if isinstance(e, ast.UnaryOp) and isinstance(e.op, ast.Not):
                            e, pol = e.operand, not pol
                        elif isinstance(e, ast.Name) and fm.deref(e, tn_) is not e:
                            e = fm.deref(e, tn_)       # the test is held in a local
                        else:
                            break
                    q = logic.quantifier(e)
                    # "some successor has no counterpart": any(..) taken, or all(..) not taken
                    if q is not None and isinstance(q[2], str) and q[0] == pol:
                        quant = ((True,) + tuple(q[1:]), b, r)
                    elif b.pol:
                        # ... or an `any(..)` somewhere inside a larger condition of the taken branch
                        for e2 in ast.walk(b.test):
                            q = logic.quantifier(e2)
                            if q is not None and q[0] and isinstance(q[2], str):
                                quant = (q, b, r)
    if quant is not None:
        (pos, it2, var2, cond2), b, r = quant
        tn = tn_key = fm.cfg.nodes[next(iter(fm.cfg.g.predecessors(b.id)))]
        d = fm.single_def(it2.id, tn) if isinstance(it2, ast.Name) else None
        srcx = d[1] if d else it2
        if isinstance(srcx, (ast.SetComp, ast.ListComp, ast.GeneratorExp)) and len(srcx.generators) == 1 \
                and not srcx.generators[0].ifs and isinstance(srcx.generators[0].target, ast.Name):
            # quantifying over the images {F(s) for s in S} is quantifying over S with F(s) in the condition
            import copy as _copy

            class _Sub(ast.NodeTransformer):
                def visit_Name(self, n_):
                    return _copy.deepcopy(srcx.elt) if n_.id == var2 else n_
            cond2 = _Sub().visit(_copy.deepcopy(cond2))
            var2 = srcx.generators[0].target.id
            it2 = srcx.generators[0].iter
            tn_key = d[0] if d is not None else tn
            d = fm.single_def(it2.id, tn_key) if isinstance(it2, ast.Name) else None
            srcx = d[1] if d else it2
        if not (isinstance(srcx, ast.Call) and callee_name(srcx) == "node_successors" and text(srcx.func.value) == "self"
                and text(srcx.args[0]) == i):
            probs.append("the successor test does not range over self.node_successors(node)")
        while isinstance(cond2, ast.UnaryOp) and isinstance(cond2.op, ast.Not) and isinstance(cond2.operand, ast.UnaryOp) \
                and isinstance(cond2.operand.op, ast.Not):
            cond2 = cond2.operand.operand
        if isinstance(cond2, ast.UnaryOp) and isinstance(cond2.op, ast.Not) and isinstance(cond2.operand, ast.Compare) \
                and len(cond2.operand.ops) == 1 and isinstance(cond2.operand.ops[0], ast.In):
            cond2 = ast.Compare(cond2.operand.left, [ast.NotIn()], cond2.operand.comparators)    # not (a in b) == a not in b
        okc = isinstance(cond2, ast.Compare) and len(cond2.ops) == 1 and isinstance(cond2.ops[0], ast.NotIn) \
            and isinstance(cond2.left, ast.Call) and callee_name(cond2.left) == "find_node" and text(cond2.left.func.value) == other \
            and fm.key(logic._rename(cond2.left.args[0], var2, "_q"), tn_key) == "FIELD<self|_q|space>"
        if not okc:
            probs.append("a successor whose image is not a successor in the other diagram does not make the result False")
        pc = fm.pc(tn)
        exp = f"T:FIELD<self|{i}|expanded>"
        extra = [a for a in logic.atoms(pc) if a[0] == "b" and a[1] != exp and not a[1].startswith("none:")]
        if extra:
            probs.append(f"edges are compared only under {logic.show(pc)}")
    elif len(inner) != 1:
        probs.append("no loop over the successors of the node")
    else:
        il = inner[0]
        src = fm.key(il.iter, fm.cfgn(il.iter)) if False else None
        itx = il.iter
        d = fm.single_def(itx.id, fm.cfg.loop_header[il]) if isinstance(itx, ast.Name) else None
        srcx = d[1] if d else itx
        if not (isinstance(srcx, ast.Call) and callee_name(srcx) == "node_successors" and text(srcx.func.value) == "self"
                and text(srcx.args[0]) == i):
            probs.append("the inner loop does not range over self.node_successors(node)")
        hn = fm.cfg.loop_header[il]
        pc = fm.pc(hn)
        exp = f"T:FIELD<self|{i}|expanded>"
        extra = [a for a in logic.atoms(pc) if a[0] == "b" and a[1] != exp and not a[1].startswith("none:")]
        if extra:
            probs.append(f"edges are compared only under {logic.show(pc)}")
        s = text(il.target)
        ok_ret = False
        for r, rpc in edge_rets:
            if fm.cfgn(r).id in fm.cfg.loop_nodes[il]:
                t = [a for a in logic.atoms(rpc) if a[0] == "b" and a[1].startswith("in:") and f"FIELD<self|{s}|space>" in a[1]]
                if t and logic.implies(rpc, logic.Not(("atom", t[0]))):
                    ok_ret = True
                    # ... for every successor: nothing else about the successor decides whether its edge is compared
                    sel = [a for a in logic.atoms(rpc) if a[0] == "b" and a is not t[0] and a[1] != t[0][1]
                           and (f"|{s}|" in a[1] or f"({s})" in a[1]) and not a[1].startswith("none:")]
                    if sel:
                        probs.append(f"line {r.lineno}: the edge to a successor is compared only under `{sel[0][1][:60]}`: edges to the "
                                     f"other successors (e.g. unexpanded stubs) are never looked at, so diagrams that differ in these "
                                     f"edges count as included / equal")
        if not ok_ret:
            probs.append("a successor whose image is not a successor in the other diagram does not make the result False")
        # other successors: [] unless other node expanded
    ck.ob("M4", fm, lp, not probs, "; ".join(probs) if probs else "edge inclusion tested for every expanded node",
          key="edge inclusion")
    rets = [r for r in f.node.body if isinstance(r, ast.Return)]
    ok = len(rets) == 1 and is_true(rets[0].value)
    ck.ob("M4", fm, rets[0] if rets else f.node, ok, "True only after all nodes were compared" if ok else
          "is_subgraph does not end with `return True` after the loop", key="final return")
    fm2 = prog.fm(SD_MOD, "SuccessionDiagram.is_isomorphic")
    o2 = [p for p in fm2.f.params() if p != "self"][0]
    rets = [r for r in own_walk(fm2.f.node) if isinstance(r, ast.Return)]
    # the returned value, over all paths, is the conjunction of both inclusions
    fs = []
    for r in rets:
        rn = fm2.cfgn(r)
        fs.append(logic.And(fm2.pc(rn), fm2.translator(rn).f(r.value) if r.value is not None else logic.FALSE))
    want = logic.And(logic.B(f"T:self.is_subgraph({o2})"), logic.B(f"T:{o2}.is_subgraph(self)"))
    try:
        ok = bool(rets) and logic.equivalent(logic.Or(*fs), want)
    except logic.TooBig:
        ok = False
    ck.ob("M4", fm2, fm2.f.node, ok, "is_isomorphic = inclusion in both directions" if ok else
          f"is_isomorphic returns `{logic.show(logic.Or(*fs))[:120] if fs else '?'}`, not the conjunction of both inclusions", key="is_isomorphic")


# ------------------------------------------------------------------------------------------ M5
AGG = {
    "SuccessionDiagram.build": "node_attractor_seeds",
    "SuccessionDiagram.summary": "node_attractor_seeds",
    "SuccessionDiagram.expanded_attractor_candidates": "node_attractor_candidates",
    "SuccessionDiagram.expanded_attractor_seeds": "node_attractor_seeds",
    "SuccessionDiagram.expanded_attractor_sets": "node_attractor_sets",
}


def _m5_columns(ck: Check) -> None:
    """summary(): the header 'State order', the space strings and the attractor strings list the variables in one and the
    same order. The attractor strings print `sorted(state.items())` (order of names), so the header must be sorted names
    as well -- or everything must run over the same list."""
    fm = ck.prog.fm(SD_MOD, "SuccessionDiagram.summary")
    f = fm.f
    hdr = None
    for n in own_walk(f.node):
        if isinstance(n, ast.JoinedStr) and any(isinstance(v, ast.Constant) and "State order" in str(v.value) for v in n.values):
            for v in n.values:
                if isinstance(v, ast.FormattedValue) and isinstance(v.value, ast.Call) and callee_name(v.value) == "join" and v.value.args:
                    hdr = (v.value.args[0], fm.cfgn(n))
    if hdr is None:
        raise AnalysisError("anchor vanished: 'State order' header of summary()")
    ORD, at = hdr
    ord_v = fm.deref(ORD, at)
    ord_sorted = isinstance(ord_v, ast.Call) and callee_name(ord_v) == "sorted" and not any(k.arg in ("key", "reverse") for k in ord_v.keywords)
    probs = []
    for n in own_walk(f.node):
        if isinstance(n, (ast.GeneratorExp, ast.ListComp)) and len(n.generators) == 1:
            it = n.generators[0].iter
            if isinstance(it, ast.Call) and callee_name(it) == "sorted" and it.args and isinstance(it.args[0], ast.Call) \
                    and callee_name(it.args[0]) == "items":
                if not ord_sorted:
                    probs.append(f"line {n.lineno}: states are printed in the order of the sorted variable names, but the 'State order' "
                                 f"header lists `{text(ord_v)[:50]}`: for a network whose variables are not declared alphabetically the "
                                 f"values appear under the wrong names")
            elif isinstance(it, ast.Call) and callee_name(it) == "items" and not (isinstance(ORD, ast.Name) and False):
                probs.append(f"line {n.lineno}: states are printed in dictionary order, which is not the order of the header")
    ck.ob("M5", fm, f.node, not probs, "; ".join(sorted(set(probs))) if probs else
          "header, spaces and attractor states use one variable order", key="summary columns")


def _m5_build_expansion(ck: Check) -> None:
    """build() expands with the motif-avoidance search switched on: without it the block expansion leaves successors of
    clean blocks unexpanded that can hold motif-avoidant attractors, and the summary misses them."""
    prog = ck.prog
    fm = prog.fm(SD_MOD, "SuccessionDiagram.build")
    calls = [c for c in own_walk(fm.f.node) if isinstance(c, ast.Call) and callee_name(c) in ("expand_block", "expand_source_blocks", "expand_scc", "expand_source_SCCs")]
    if not calls:
        return
    for c in calls:
        bad = [k for k in c.keywords if k.arg in ("find_motif_avoidant_attractors", "check_maa") and not is_true(k.value)]
        bad += [a for a in c.args[:1] if callee_name(c) in ("expand_block", "expand_scc") and not is_true(a)]
        ck.ob("M5", fm, fm.f.stmt_of(c), not bad, "build() expands with the motif-avoidance search on" if not bad else
              f"`{text(c)[:60]}` switches the motif-avoidance search of the expansion off: successors that the clean-block argument "
              f"would have forced open stay unexpanded, and their motif-avoidant attractors are missing after build()",
              key="build expansion flags")
    for q, pn in (("SuccessionDiagram.expand_block", "find_motif_avoidant_attractors"), ("SuccessionDiagram.expand_scc", "find_motif_avoidant_attractors")):
        try:
            g = prog.fm(SD_MOD, q)
        except AnalysisError:
            continue
        if pn in g.f.params():
            d = g.f.param_defaults().get(pn)
            okd = d is not None and is_true(d)
            ck.ob("M5", g, g.f.node, okd, f"`{pn}` defaults to True" if okd else
                  f"`{pn}` of {q.split('.')[1]} defaults to `{text(d) if d is not None else 'nothing'}`: build() and every caller that "
                  f"relies on the default expand without the motif-avoidance search", key=f"default of {pn} in {q}")


def _m5_swallowed(ck: Check) -> None:
    """An aggregating loop that asks for a node's data inside `try` and swallows the exception must not go on with the
    iteration: the local that was to receive the data still holds the previous node's (or nothing)."""
    for q in AGG:
        fm = ck.prog.fm(SD_MOD, q)
        f = fm.f
        for t in own_walk(f.node):
            if not isinstance(t, ast.Try):
                continue
            lps = [l for l in fm.cfg.enclosing_loops(fm.cfgn(t.body[0])) if isinstance(l, (ast.For, ast.While))] if t.body else []
            if not lps:
                continue
            assigned = {y.id for st in t.body for y in ast.walk(st) if isinstance(y, ast.Name) and isinstance(y.ctx, ast.Store)}
            if not assigned:
                continue
            # what the rest of the iteration reads
            after = []
            par = f.parents.get(t)
            for fld in ("body", "orelse", "finalbody"):
                b_ = getattr(par, fld, None)
                if isinstance(b_, list) and t in b_:
                    after = b_[b_.index(t) + 1:]
            # (the `else` clause of the try runs only when the request succeeded)
            read_later = {y.id for st in after for y in ast.walk(st) if isinstance(y, ast.Name) and isinstance(y.ctx, ast.Load)}
            probs = []
            for h in t.handlers:
                leaves = bool(h.body) and isinstance(h.body[-1], (ast.Continue, ast.Break, ast.Return, ast.Raise))
                rebinds = {y.id for st in h.body for y in ast.walk(st) if isinstance(y, ast.Name) and isinstance(y.ctx, ast.Store)}
                stale = (assigned & read_later) - rebinds
                if not leaves and stale:
                    probs.append(f"line {h.lineno}: the handler neither leaves the iteration nor gives {', '.join(sorted(stale))} a value: the "
                                 f"rest of the loop body reports the previous node's data (or fails on the first node)")
            if t.handlers:
                ck.ob("M5", fm, t, not probs, "; ".join(probs) if probs else "a failed request ends the iteration for that node",
                      key=f"swallowed request in {q.split('.')[1]}")


def m5(ck: Check) -> None:
    prog = ck.prog
    _m5_columns(ck)
    _m5_build_expansion(ck)
    _m5_swallowed(ck)
    for q, acc in AGG.items():
        fm = prog.fm(SD_MOD, q)
        f = fm.f
        calls = [n for n in own_walk(f.node) if isinstance(n, ast.Call) and callee_name(n) == acc]
        sites = [(fm.cfgn(c), text(c.args[0]) if c.args else "?", f.stmt_of(c)) for c in calls]
        if not sites:
            # the stored field read directly (what the accessor returns with compute=False; None = not computed)
            fld = acc[len("node_"):]
            sites = [(e.cfgn, e.nid, e.stmt) for e in fm.field_events() if e.kind == "load" and e.field == fld]
        if not sites:
            raise AnalysisError(f"anchor vanished: {q} no longer calls {acc}")
        for cn, node_txt, site_stmt in sites:
            loops = [l for l in fm.cfg.enclosing_loops(cn) if isinstance(l, ast.For)]
            probs = []
            if not loops:
                probs.append("attractor data is not aggregated in a loop over nodes")
            else:
                lp = loops[0]
                it = lp.iter
                if isinstance(it, ast.Name):
                    vd = fm.value_defs(it.id, fm.cfg.loop_header[lp])
                    if len(vd) == 1 and vd[0][1] is not None:
                        it = vd[0][1]
                src = it.args[0] if isinstance(it, ast.Call) and callee_name(it) in ("list", "sorted", "tuple") and it.args else it
                var = text(lp.target)
                if node_txt != var:
                    probs.append("attractor data requested for a node other than the loop's node")
                # every node of the loop gets its data requested: no iteration can pass the request by
                from .c13 import _within as _w5, _tbranch as _tb5
                hdr5 = fm.cfg.loop_header[lp]
                if cn.id in fm.cfg.loop_nodes[lp] and hdr5.id in _w5(fm, lp, _tb5(fm, lp), {cn.id}):
                    probs.append(f"an iteration of the node loop can skip the request for attractor data (a `continue` or a "
                                 f"condition before line {cn.lineno}): the attractors of the skipped expanded nodes -- e.g. "
                                 f"motif-avoidant ones in non-minimal nodes -- are missing from the result")
                if not (isinstance(src, ast.Call) and callee_name(src) == "expanded_ids" and text(src.func.value) == "self"):
                    pc = fm.pc(cn)
                    at = logic.B(f"T:FIELD<self|{var}|expanded>")
                    if not (at[1] in logic.atoms(pc) and logic.implies(pc, at)):
                        probs.append(f"attractor data of nodes from `{text(it)}` is aggregated without knowing that the "
                                     f"node is expanded: data of unexpanded stubs is not exclusive, the same attractor is "
                                     f"counted again in the expanded node that covers it")
            ck.ob("M5", fm, site_stmt, not probs, "; ".join(probs) if probs else
                  f"{q.split('.')[1]} aggregates over expanded nodes only")
    # label chosen by node_is_minimal of the same node
    fm = prog.fm(SD_MOD, "SuccessionDiagram.summary")
    probs = []
    lab = {}
    for n in own_walk(fm.f.node):
        if isinstance(n, ast.Assign) and isinstance(n.value, ast.Constant) and isinstance(n.value.value, str):
            s = n.value.value.lower()
            if "minimal trap" in s:
                lab["min"] = n
            elif "motif avoid" in s:
                lab["maa"] = n
    if set(lab) != {"min", "maa"}:
        # the labels may sit in a lookup table {True: "minimal trap space ", False: "motif avoidance in "}[node_is_minimal(node)]
        tables = {}
        for n in own_walk(fm.f.node):
            if isinstance(n, ast.Assign) and isinstance(n.targets[0], ast.Name) and isinstance(n.value, ast.Dict) \
                    and all(isinstance(k, ast.Constant) and isinstance(k.value, bool) for k in n.value.keys) and len(n.value.keys) == 2 \
                    and all(isinstance(v, ast.Constant) and isinstance(v.value, str) for v in n.value.values):
                tables[n.targets[0].id] = {k.value: v.value.lower() for k, v in zip(n.value.keys, n.value.values)}
        probs = []
        uses = [n for n in own_walk(fm.f.node) if isinstance(n, ast.Subscript) and isinstance(n.value, ast.Name) and n.value.id in tables
                and isinstance(n.ctx, ast.Load)]
        if not tables or not uses:
            # ... or in the two arms of a conditional expression `A if self.node_is_minimal(node) else B`
            def has(e, word):
                return any(isinstance(y, ast.Constant) and isinstance(y.value, str) and word in y.value.lower() for y in ast.walk(e))
            conds = [n for n in own_walk(fm.f.node) if isinstance(n, ast.IfExp)
                     and ((has(n.body, "minimal trap") and has(n.orelse, "motif avoid")) or (has(n.body, "motif avoid") and has(n.orelse, "minimal trap")))]
            if not conds:
                raise AnalysisError("anchor vanished: summary() labels")
            for n in conds:
                cn_ = fm.cfgn(n)
                lps = [l for l in fm.cfg.enclosing_loops(cn_) if isinstance(l, ast.For)]
                var = text(lps[0].target) if lps else "?"
                t, pol = n.test, True
                while isinstance(t, ast.UnaryOp) and isinstance(t.op, ast.Not):
                    t, pol = t.operand, not pol
                if isinstance(t, ast.Name):
                    t = fm.deref(t, cn_)
                    while isinstance(t, ast.UnaryOp) and isinstance(t.op, ast.Not):
                        t, pol = t.operand, not pol
                if not (isinstance(t, ast.Call) and callee_name(t) == "node_is_minimal" and text(t.func.value) == "self" and t.args
                        and text(t.args[0]) == var):
                    probs.append("the label is not chosen by node_is_minimal of the listed node")
                elif has(n.body if pol else n.orelse, "motif avoid") or has(n.orelse if pol else n.body, "minimal trap"):
                    probs.append("labels are attached to the wrong value of node_is_minimal")
            ck.ob("M5", fm, conds[0], not probs, "; ".join(sorted(set(probs))) if probs else "labels follow node_is_minimal of the listed node",
                  key="summary labels")
            return
        for u in uses:
            tb = tables[u.value.id]
            if not ("minimal trap" in tb[True] and "motif avoid" in tb[False]):
                probs.append("labels are attached to the wrong value of node_is_minimal")
            un = fm.cfgn(u)
            lps = [l for l in fm.cfg.enclosing_loops(un) if isinstance(l, ast.For)]
            var = text(lps[0].target) if lps else "?"
            k = fm.deref(u.slice, un)
            while isinstance(k, ast.Call) and callee_name(k) == "bool" and len(k.args) == 1:
                k = fm.deref(k.args[0], un)
            if not (isinstance(k, ast.Call) and callee_name(k) == "node_is_minimal" and text(k.func.value) == "self" and k.args
                    and text(k.args[0]) == var):
                probs.append("the label is not chosen by node_is_minimal of the listed node")
        ck.ob("M5", fm, uses[0], not probs, "; ".join(sorted(set(probs))) if probs else "labels follow node_is_minimal of the listed node",
              key="summary labels")
        return
    loop = [l for l in fm.cfg.enclosing_loops(fm.cfgn(lab["min"])) if isinstance(l, ast.For)][0]
    var = text(loop.target)

    def atomize(e):
        if isinstance(e, ast.Call) and callee_name(e) == "node_is_minimal" and text(e.func.value) == "self" and e.args:
            a0 = e.args[0]
            try:
                k0 = fm.key(a0, fm.cfgn(e))        # `node = <loop variable>` left behind by an inlined generator
            except AnalysisError:
                k0 = None
            if text(e.args[0]) == var or k0 == var:
                return logic.B("MIN")
        if isinstance(e, ast.Compare) and len(e.ops) == 1 and isinstance(e.ops[0], (ast.In, ast.NotIn)) and text(e.left) == var:
            # membership in the diagram's list of minimal trap spaces, taken before the loop (summary() does not grow the diagram)
            c_ = e.comparators[0]
            try:
                at_ = fm.cfgn(e)
            except AnalysisError:
                at_ = fm.cfg.loop_header[loop]
            for _ in range(3):
                while isinstance(c_, ast.Call) and callee_name(c_) in ("set", "frozenset", "list", "sorted", "tuple") and len(c_.args) == 1:
                    c_ = c_.args[0]
                if isinstance(c_, ast.Name):
                    sd2 = fm.single_def(c_.id, at_)
                    if sd2 is None:
                        break
                    c_, at_ = sd2[1], sd2[0]
            if isinstance(c_, ast.Call) and callee_name(c_) == "minimal_trap_spaces" and isinstance(c_.func, ast.Attribute) \
                    and text(c_.func.value) == "self" and not c_.args:
                a = logic.B("MIN")
                return a if isinstance(e.ops[0], ast.In) else logic.Not(a)
        return None

    pmin = fm.pc(fm.cfgn(lab["min"]), atomize=atomize)
    pmaa = fm.pc(fm.cfgn(lab["maa"]), atomize=atomize)
    if not ("MIN" in {a[1] for a in logic.atoms(pmin)} and logic.implies(pmin, logic.B("MIN"))):
        probs.append("'minimal trap space' label not chosen under node_is_minimal(node)")
    if not ("MIN" in {a[1] for a in logic.atoms(pmaa)} and logic.implies(pmaa, logic.Not(logic.B("MIN")))):
        probs.append("'motif avoidance' label not chosen under not node_is_minimal(node)")
    ck.ob("M5", fm, lab["min"], not probs, "; ".join(probs) if probs else "labels follow node_is_minimal of the listed node",
          key="summary labels")
    # the printed space and the attractors belong to the same node
    sp = [n for n in own_walk(fm.f.node) if isinstance(n, ast.Assign) and isinstance(n.targets[0], ast.Name)
          and n.targets[0].id == "space"]
    if sp:
        ok = fm.key(sp[0].value, fm.cfgn(sp[0])) == f"FIELD<self|{var}|space>"
        ck.ob("M5", fm, sp[0], ok, "space printed for the node whose attractors are listed" if ok else
              "summary prints the space of a different node than the one whose attractors are listed")
